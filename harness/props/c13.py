"""C13 — SoC resource allocation never hands out overlapping or out-of-range resources.

Correspondence mode C: call histories on the real `SoCBusHandler`, `SoCCSRHandler`/`SoCIRQHandler`,
`ConstraintManager` and decoder predicates (`SoCRegion.decoder` evaluated on the real Migen expression) against
the Lean model (`lean/LitexModel/Soc/*`, driver `drv_c13`), compared as canonical text.  The property oracles of
`c13lib` (independent of the model) run on every history as well.
"""
import os, json, glob, random, time, multiprocessing as mp
import c13lib as L

VERIF = os.path.dirname(os.path.dirname(os.path.dirname(os.path.abspath(__file__))))
CORPUS = os.path.join(VERIF, "corpus", "C13")
CANDIDATE_FINDINGS = ("C13-alloc-io-nonpow2", "C13-decoder-subword", "C13-alloc-size0-hang")

QUICK = {"bus": 11000, "busraw": 1500, "loc": 4000, "cm": 2000, "cm2": 1500, "dec": 1500, "banks": 240, "hw": 24}
THOROUGH = {"bus": 150000, "busraw": 20000, "loc": 40000, "cm": 30000, "cm2": 15000, "dec": 20000, "banks": 4000, "hw": 400}
CHUNK = 250


class Dis:
    """A model/implementation disagreement or an oracle alarm on one recorded input."""

    def __init__(self, kind, inp, line, real, model, alarm=None):
        self.kind, self.input, self.line, self.real, self.model, self.alarm = kind, inp, line, real, model, alarm

    def to_json(self):
        return {"kind": self.kind, "input": self.input, "driver_call": self.line, "real": self.real,
                "model": self.model, "oracle": self.alarm}


def known_ids(ctx):
    """Finding ids whose excluded regions the oracles may skip: only the ones listed in known_findings.json as
    open, plus the two candidates reported by this builder while they are not listed yet (see probes)."""
    listed = {e["id"] for e in ctx.known if e.get("status") == "open"}
    all_listed = {e["id"] for e in ctx.known}
    return tuple(sorted(listed | {c for c in CANDIDATE_FINDINGS if c not in all_listed} | foreign_open()))


_FOREIGN = []


def foreign_open():
    """Open findings listed under ANOTHER property whose region intersects C13's selection oracle: C06's
    point-to-point shortcut for a slave region at origin 0 smaller than the address space (read-only access to
    known_findings.json; when that entry becomes `fixed` the oracle demands exactness there as well)."""
    if not _FOREIGN:
        ids = set()
        try:
            data = json.load(open(os.path.join(VERIF, "known_findings.json")))
            ids = {e["id"] for e in data.get("findings", []) if e.get("id") == L.P2P_FINDING and e.get("status") == "open"}
        except Exception:
            pass
        _FOREIGN.append(ids)
    return _FOREIGN[0]


def procs():
    return max(1, min(6, int(os.environ.get("VERIF_PROCS", "5") or 5)))


def model_norm(kind, ans):
    if kind == "banks":
        return "rej" if ans.startswith("rej:") else ans
    if kind == "busraw":        # the ghost list `stale` is kept as is; error names are stripped from the verdicts
        parts = ans.split(" # ")
        return " # ".join([L.strip_errs(parts[0]), parts[1].split(":")[0]] + parts[2:])
    return L.strip_errs(ans) if kind in ("bus", "loc") else ans


def compare(kind, real, model):
    return real == model_norm(kind, model)


def _hist(ctx, rec, model):
    cov = ctx.cov
    k = rec["kind"]
    cov.count(k + ".histories")
    cov.count(k + ".ops", rec.get("nops", 0))
    if k == "bus":
        parts = model.split(" # ")
        for w in parts[0].split():
            cov.count("bus.verdict." + w)
        cov.count("bus.finalize." + parts[1])
        if rec.get("p2p"):
            cov.count("bus.finalize.point-to-point")
        cov.count("bus.decoders_evaluated", len(rec.get("dec", [])))
        inp = rec["input"]
        cov.count("bus.aw=%d" % inp["aw"])
        cov.count("bus.dw=%d" % inp["dw"])
        nres = len((inp.get("cfg") or {}).get("reserved", []))
        cfg = inp.get("cfg") or {}
        cov.count("bus.interconnect=%s" % cfg.get("ic", "shared"))
        cov.count("bus.standard=%s" % cfg.get("std", "wishbone"))
        cov.count("bus.via_SoC_helpers" if cfg.get("soc") else "bus.direct_handler")
        cov.count("bus.reserved_regions", nres)
        for op, w in zip(inp["ops"], parts[0].split()[nres:]):
            rq = L.op_request(op)
            if rq is not None:
                what = "io" if rq[1] else ("alloc" if rq[2] is None else "fixed")
                cov.count("bus.%s.%s" % (what, "ok" if w == "ok" else "rej"))
    elif k == "busraw":
        parts = model.split(" # ")
        for w in parts[0].split():
            cov.count("busraw.verdict." + w)
        cov.count("busraw.finalize." + parts[1])
        cov.count("busraw.histories_with_leftover" if parts[-1].strip() else "busraw.histories_without_leftover")
        cov.count("busraw.leftover_regions", len(parts[-1].split()))
        sl = set(parts[5].split()) & set(parts[-1].split())
        if sl:
            cov.count("busraw.slave_on_leftover_region")
    elif k == "loc":
        cov.count("loc.via_SoC_helpers" if rec["input"].get("via_soc") else "loc.direct_handler")
        cov.count("loc.reserved", len(rec["input"].get("reserved", [])))
        parts = model.split(" # ")
        if len(parts) > 1:
            for w in parts[1].split():
                cov.count("loc.verdict." + w)
        else:
            cov.count("loc.ctor-rej")
    elif k == "cm":
        cov.count("cm.via_GenericPlatform" if rec["input"].get("plat") else "cm.direct_manager")
        for w in model.split(" # ")[0].split():
            cov.count("cm.out." + w.split(":")[0] + (":" + w.split(":")[1] if w.startswith("err") else ""))
    elif k == "cm2":
        cov.count("cm2.via_GenericPlatform" if rec["input"].get("plat") else "cm2.direct_manager")
        halves = model.split(" ## ")
        cov.count("cm2.both_instances_used" if "-" not in [h.strip() for h in halves] else "cm2.one_instance_used")
        for h in halves:
            for w in h.split(" # ")[0].split():
                cov.count("cm2.out." + w.split(":")[0])
    elif k == "banks":
        inp = rec["input"]
        cov.count("banks.extra_slave." + (model.rsplit("ram:", 1)[1] if "ram:" in model else "n/a"))
        cov.count("banks.finalize." + ("ok" if model.startswith("ok") else model))
        cov.count("banks.csr_dw=%d,paging=0x%x" % (inp["csr_dw"], inp["paging"]))
        cap = inp["paging"] // 4
        for kk, loc, regs in inp["banks"]:
            ns = L.banks_nsimple(inp["csr_dw"], regs)
            cov.count("banks.nsimple " + ("< cap-1" if ns < cap - 1 else "= cap-1" if ns == cap - 1 else "= cap" if ns == cap
                                          else "= cap+1" if ns == cap + 1 else "> cap+1"))
    elif k == "dec":
        cov.count("dec.unaligned" if model == "u" else "dec.aligned")
        cov.count("dec.exhaustive" if rec["input"]["addrs"] == "all" else "dec.boundaries")


def _check_records(ctx, recs, dis, stats):
    """Send the recorded inputs to the model and compare; collect disagreements and oracle alarms."""
    lines = []
    for r in recs:
        lines.append(r["line"])
        for l, _ in r.get("dec", []):
            lines.append(l)
    ans = ctx.lean.call_batch(lines)
    i = 0
    main_answers = []
    for r in recs:
        a = ans[i]
        main_answers.append(a)
        i += 1
        ok = compare(r["kind"], r["real"], a)
        for l, bits in r.get("dec", []):
            d = ans[i]
            i += 1
            stats["dec_cmp"] += 1
            if d != bits:
                ok = False
                dis.append(Dis("decoder", r["input"], l, bits, d))
        if not ok and compare(r["kind"], r["real"], a) is False:
            dis.append(Dis("correspondence", r["input"], r["line"], r["real"], model_norm(r["kind"], a)))
        if r["alarm"]:
            dis.append(Dis("oracle", r["input"], r["line"], r["real"], model_norm(r["kind"], a), r["alarm"]))
        stats["n"] += 1
        stats["nontrivial"] += 1 if r["nontrivial"] else 0
        _hist(ctx, r, a)
        if len(ctx.cov.samples) < 8 and r["nontrivial"] and r["nops"] >= 4 and stats["n"] % 97 == 0:
            ctx.cov.samples.append({"call": r["line"], "real": r["real"], "model": a})
    return main_answers


def _self_test(ctx, recs, answers):
    """Sensitivity self-test: two in-memory perturbations of model answers must be flagged by `compare`."""
    done = 0
    for r, a in zip(recs, answers):
        if r["kind"] == "bus" and " ok" in " " + a.split(" # ")[0] and done < 1:
            pert = a.replace("ok", "rej:overlap", 1)
            if compare("bus", r["real"], pert):
                raise RuntimeError("self-test: flipped verdict not detected")
            done += 1
        elif r["kind"] == "bus" and a.split(" # ")[2] and done == 1:
            parts = a.split(" # ")
            f = parts[2].split(" ")[0].split(":")
            f[1] = str(int(f[1]) + 1)
            parts[2] = " ".join([":".join(f)] + parts[2].split(" ")[1:])
            if compare("bus", r["real"], " # ".join(parts)):
                raise RuntimeError("self-test: shifted origin not detected")
            done += 1
        if done == 2:
            return
    if recs and done < 2:
        ctx.cov.notes.append("sensitivity self-test ran %d/2 perturbations" % done)


def run_corpus(ctx, dis, stats):
    known = known_ids(ctx)
    recs = []
    for f in sorted(glob.glob(os.path.join(CORPUS, "*.json"))):
        c = json.load(open(f))
        inp = c["input"]
        try:
            with L.time_limit(60):
                line, real, alarm, res = L.rerun_input(inp, known)
        except Exception as e:       # a witness that can no longer be executed is a reported disagreement
            dis.append(Dis("corpus", inp, "", "exception " + type(e).__name__, c.get("expect_real", ""),
                           "corpus witness %s raised %s: %s" % (os.path.basename(f), type(e).__name__, str(e)[:200])))
            continue
        rec = {"kind": inp["kind"], "line": line, "real": real, "alarm": alarm, "input": inp, "nontrivial": 1,
               "nops": len(inp.get("ops", [])), "dec": res.get("dec", []), "p2p": res.get("p2p")}
        if "expect_real" in c and c["expect_real"] != real:
            dis.append(Dis("corpus", inp, line, real, c["expect_real"], "corpus witness %s changed behaviour" % os.path.basename(f)))
        recs.append(rec)
    if recs:
        _check_records(ctx, recs, dis, stats)
    return len(recs)


def hw_cases(ctx, n, dis, stats):
    """End-to-end through the real interconnect hardware for toy address widths: the `cyc` of every slave over
    every word address must equal the model's decoder and select at most one slave."""
    known = known_ids(ctx)
    rng = random.Random(ctx.rng.getrandbits(32))
    done = tries = 0
    while done < n and tries < 40 * n:
        tries += 1
        aw = rng.choice([10, 12])
        dw = rng.choice([32, 64])
        _, _, ops, run = L.gen_bus_history(rng, nops=rng.randint(5, 12), cfg=(aw, dw), hw=True)
        if not run.bus.slaves or not run.bus.masters:
            continue
        if len(run.bus.slaves) < 2 and tries % 4:       # mostly several slaves; single-slave / point-to-point too
            continue
        with L.time_limit(120):
            alarm, bits, fin = L.hw_decoder_check(aw, dw, ops, known, run.cfg)
        if bits is None:
            continue
        done += 1
        # the model's `BusH.selects` (decoder, or everything for point-to-point) against the hardware, all words
        names = list(bits)
        line, real = L.sel_line(aw, dw, ops, run.cfg, list(range(2 ** (aw - (dw // 8).bit_length() + 1))),
                                [(n, bits[n]) for n in names])
        ans = ctx.lean.call_batch([line])[0]
        inp = {"kind": "bus", "aw": aw, "dw": dw, "cfg": run.cfg, "ops": [list(o) for o in ops], "hw": True}
        ctx.cov.count("hw.interconnect=%s" % ("point-to-point" if len(names) == 1 and set(bits[names[0]]) == {"1"}
                                              else run.cfg["ic"]))
        stats["dec_cmp"] += len(names)
        if ans != real:
            dis.append(Dis("decoder-hw", inp, line, real, ans))
        if alarm:
            dis.append(Dis("oracle", inp, L.bus_line(aw, dw, ops), "", "", "interconnect hardware: " + alarm))
        ctx.cov.count("hw.interconnects")
        ctx.cov.count("hw.slave_decoders", len(names))
    ctx.cov.add_cases("interconnect hardware (toy widths): slave cyc over all word addresses", done, done, False)
    return done


def correspond(ctx):
    quick = ctx.tier == "quick"
    plan = QUICK if quick else THOROUGH
    known = known_ids(ctx)
    dis = []
    stats = {"n": 0, "nontrivial": 0, "dec_cmp": 0}
    nc = run_corpus(ctx, dis, stats)
    ctx.cov.add_cases("corpus witnesses", nc, nc, True)
    tasks = []
    for kind in ("banks", "bus", "busraw", "loc", "cm", "cm2", "dec"):
        n = plan[kind]
        chunk = 40 if kind == "banks" else CHUNK
        while n > 0:
            tasks.append((kind, ctx.rng.getrandbits(48), min(chunk, n), known))
            n -= chunk
    per_kind = {k: [0, 0] for k in plan}
    first = {}
    t0 = time.time()
    with mp.get_context("fork").Pool(procs()) as pool:
        for recs in pool.imap(L.work_chunk, tasks, chunksize=1):
            before = (stats["n"], stats["nontrivial"])
            ans = _check_records(ctx, recs, dis, stats)
            k = recs[0]["kind"]
            per_kind[k][0] += stats["n"] - before[0]
            per_kind[k][1] += stats["nontrivial"] - before[1]
            if k == "bus" and "bus" not in first:
                first["bus"] = True
                _self_test(ctx, recs, ans)
            if len(dis) > 40:
                ctx.log("more than 40 disagreements/alarms: stopping the correspondence run early")
                pool.terminate()
                break
    names = {"busraw": "SoCBusHandler histories WITHOUT roll-back (a caller catching SoCError): state left behind by refused calls",
             "cm2": "two ConstraintManagers / GenericPlatforms built from ONE io list object, interleaved histories (isolation)",
             "bus": "SoCBusHandler histories (add_region/alloc/add_slave/add_master/io check/finalize)",
             "loc": "SoCCSRHandler/SoCIRQHandler histories (add/alloc/address_map/enable)",
             "cm": "ConstraintManager histories (request/request_all/request_remaining/lookup/add_extension)",
             "dec": "SoCRegion.decoder instances (exhaustive for toy widths, boundaries +-1 else)",
             "banks": "real SoCMini(...).finalize() with CSR banks around the page capacity (csr width 8/32, paging 0x400-0x1000)"}
    for k in ("bus", "busraw", "loc", "cm", "cm2", "dec", "banks"):
        ctx.cov.add_cases(names[k], per_kind[k][0], per_kind[k][1], False)
    ctx.cov.count("decoder_bitstrings_compared", stats["dec_cmp"])
    ctx.log("histories: %d in %.1fs (%s), %d decoder bit-strings compared" % (
        stats["n"], time.time() - t0, ", ".join("%s=%d" % (k, v[0]) for k, v in per_kind.items() if v[0]), stats["dec_cmp"]))
    hw_cases(ctx, plan["hw"], dis, stats)
    ctx.rule = ("one case = one call history (or one decoder instance) executed on the real code and on the model; "
                "non-trivial = at least one request was granted (a region/location/IO was handed out, or a decoder "
                "accepted some address)")
    ctx.assumptions = [
        "alloc_region(size=0) is outside the model (the Python loop does not terminate once a candidate overlaps; "
        "run under a CPU-time guard by the probe, see notes)",
        "bus/loc/cm histories continue from the state before a rejected call (transactional model, harness rolls "
        "back); the busraw histories continue on the state the real code left behind (model RawH)",
        "IO regions always carry an origin; add_slave is never given a SoCIORegion or name=None",
    ]
    for d in dis[:5]:
        ctx.log("DISAGREEMENT", json.dumps(d.to_json())[:600])
    ctx.c13_dis = dis
    return dis


# ------------------------------------------------------------------------------------------------------------
def shrink(inp, known):
    """Delta-debug a failing history: drop operations while the oracle still fires."""
    if inp["kind"] == "banks":
        cur = dict(inp)
        changed = True
        while changed and len(cur["banks"]) > 1:
            changed = False
            for i in range(len(cur["banks"])):
                cand = dict(cur)
                cand["banks"] = cur["banks"][:i] + cur["banks"][i + 1:]
                if L.rerun_input(cand, known)[2]:
                    cur, changed = cand, True
                    break
        return cur
    if inp["kind"] not in ("bus", "busraw", "loc", "cm", "cm2"):
        return inp
    cur = dict(inp)
    changed = True
    while changed:
        changed = False
        for i in range(len(cur["ops"])):
            cand = dict(cur)
            cand["ops"] = cur["ops"][:i] + cur["ops"][i + 1:]
            try:
                _, _, alarm, _ = L.rerun_input(cand, known)
            except Exception:
                continue
            if alarm:
                cur = cand
                changed = True
                break
    return cur


def _found(inp, known, how):
    """Confirm (re-execute) and shrink a failing input; None when the alarm does not reproduce."""
    if inp.get("unreproducible"):
        return None
    _, _, alarm, _ = L.rerun_input(inp, known)
    if not alarm:
        return None
    inp = shrink(inp, known)
    line, real, alarm, _ = L.rerun_input(inp, known)
    if not alarm:
        return None
    return {"input": inp, "driver_call": line, "observed_on_real_code": real, "oracle": alarm, "found_by": how}


def search(ctx, disagreements, proof_info):
    """Look for an input on which the property itself fails on the real code (oracles only, no model)."""
    known = known_ids(ctx)
    # 1. inputs already recorded by the correspondence run
    for d in disagreements:
        inp = getattr(d, "input", None)
        if inp is None or inp.get("hw"):
            if getattr(d, "alarm", None) and inp is not None:
                return {"input": inp, "oracle": d.alarm, "found_by": "interconnect hardware run"}
            continue
        if inp.get("unreproducible"):
            continue
        try:
            with L.time_limit(60):
                _, _, alarm, _ = L.rerun_input(inp, known)
        except Exception as e:
            return {"input": inp, "oracle": "re-executing the recorded input raised %s: %s" % (type(e).__name__, str(e)[:200]),
                    "found_by": "replay of a recorded disagreement"}
        if alarm:
            f = _found(inp, known, "replay of a recorded disagreement with oracles armed")
            if f:
                return f
    # 2. fresh oracle-armed histories
    budget = 60 if ctx.tier == "quick" else 600
    t0 = time.time()
    tasks = []
    for _ in range(4000):
        for kind in ("bus", "bus", "busraw", "loc", "cm", "cm2", "dec", "banks"):
            tasks.append((kind, ctx.rng.getrandbits(48), 40 if kind == "banks" else CHUNK, known))
    with mp.get_context("fork").Pool(procs()) as pool:
        for recs in pool.imap_unordered(L.work_chunk, tasks, chunksize=1):
            for r in recs:
                if r["alarm"]:
                    f = _found(r["input"], known, "oracle-armed random histories")
                    if f:
                        pool.terminate()
                        return f
            if time.time() - t0 > budget:
                pool.terminate()
                break
    return None


# ------------------------------------------------------------------------------------------------------------
def _accepted(fn):
    try:
        fn()
        return True
    except L.SoCError:
        L.envshim.quiet_stderr()
        return False


def probes(ctx):
    """Each probe runs guarded: a probe that raises or hangs counts as 'still fails' with the exception as text."""
    try:
        with L.time_limit(60):
            return _probes(ctx)
    except Exception as e:
        what = "probe raised %s: %s" % (type(e).__name__, str(e)[:200])
        return [(e_["id"], True, what) for e_ in ctx.known]


def _probes(ctx):
    S = L.S
    out = []
    # fixed: SoCLocHandler.add(name, n = n_locs)
    irq = S.SoCIRQHandler(n_irqs=32)
    irq.enable()
    a1 = _accepted(lambda: irq.add("x", 32))
    csr = S.SoCCSRHandler()
    a2 = _accepted(lambda: csr.add("p", csr.n_locs))
    irq4 = S.SoCIRQHandler(n_irqs=4)
    irq4.enable()
    a3 = _accepted(lambda: irq4.add("y", 4))
    out.append(("C13-loc-eq-nlocs", a1 or a2 or a3,
                "add(name, n=n_locs): IRQ 32/32 %s, CSR page %d/%d %s, IRQ 4/4 %s" % (
                    "accepted" if a1 else "rejected", csr.n_locs, csr.n_locs, "accepted" if a2 else "rejected",
                    "accepted" if a3 else "rejected")))
    # candidate/open: allocation beyond the declared size of a non-power-of-two IO region
    bus = S.SoCBusHandler()
    bus.add_region("io0", S.SoCIORegion(origin=0x80000000, size=0x3000, cached=False))
    bus.add_region("a", S.SoCRegion(size=0x1800, cached=False))
    ok_b = _accepted(lambda: bus.add_region("b", S.SoCRegion(size=0x1800, cached=False)))
    fails = ok_b and bus.regions["b"].origin + 0x1800 > 0x80003000
    what = ("second uncached 0x1800 allocation in IO [0x80000000,+0x3000) " +
            ("placed at 0x%x" % bus.regions["b"].origin if ok_b else "rejected"))
    out.append(("C13-alloc-io-nonpow2", fails, what))
    # candidate/open: sub-word regions share a decoder word
    alarm = L.run_bus_history(32, 32, [("S", 1, 0x1001, 1, 1, 0, 1), ("S", 2, 0x1002, 1, 1, 0, 1), ("M", 1)], known=())["alarm"]
    out.append(("C13-decoder-subword", bool(alarm), alarm or "sub-word regions 0x1001/1 and 0x1002/1 no longer share word 0x400"))
    # candidate: alloc_region(size=0) under a CPU-time guard (2 s; legitimate allocations need < 0.5 s)
    bus = S.SoCBusHandler()
    bus.add_region("a", S.SoCRegion(origin=0, size=0x1000))
    hangs, what0 = False, ""
    try:
        with L.time_limit(2.0):
            bus.add_region("z", S.SoCRegion(size=0))
        what0 = "returned a region at 0x%x of size 0" % bus.regions["z"].origin
    except L.HistoryTimeout:
        hangs, what0 = True, "did not return within 2 s of CPU time (origin += 0 never advances past the overlapping candidate)"
        bus.regions.pop("z", None)
    except L.SoCError:
        L.envshim.quiet_stderr()
        what0 = "was refused with SoCError"
    free = S.SoCBusHandler()
    free.add_region("z", S.SoCRegion(size=0))
    out.append(("C13-alloc-size0-hang", hangs, "add_region(SoCRegion(size=0)) with a region at origin 0 present %s; on an empty "
                "handler it returns a zero-size region at 0x%x" % (what0, free.regions["z"].origin)))
    # fixed: a refused add_slave(name, region) left its region registered; add_slave(name) then used it.
    # Witness on the NON-rolled-back handler: must leave no trace and refuse the third call on the fixed code.
    r = L.run_busraw_history(32, 32, [("C", 0), ("S", 1, 0, 0x2000, 1, 0, 1), ("S", 2, 0x1000, 0x1000, 1, 0, 1), ("S", 2), ("M", None)])
    verd = r["result"].split(" # ")[0].split()
    io = L.BusRun(32, 32, raw=True)
    io.apply(("R", 1, 1, 0x80000000, 0x2000, 0, 0, 1))
    io.apply(("R", 2, 1, 0x80001000, 0x1000, 0, 0, 1))          # refused: IO Region overlap
    left = bool(r["stale"]) or "r2" in r["result"].split(" # ")[2] or verd != ["ok", "ok", "rej", "rej", "ok"] or bool(io.stale)
    out.append(("C13-rejected-region-left-registered", left,
                "add_slave(r2, [0x1000,+0x1000)) refused (overlaps r1 [0,+0x2000)): bus.regions %s; add_slave(r2) afterwards "
                "%s; refused overlapping IO region %s" % (
                    "keeps r2" if r["stale"] else "has no trace of r2",
                    "accepted (slave on the overlapping region, do_finalize %s)" % r["fin"] if verd[3:4] == ["ok"] else "refused",
                    "stays in io_regions" if io.stale else "leaves no trace")))
    listed = {e["id"] for e in ctx.known}
    res = []
    for fid, still, what in out:
        if fid in CANDIDATE_FINDINGS and fid not in listed:
            # reported to the coordinator; not yet in known_findings.json -> note only (see final report)
            ctx.cov.notes.append("finding candidate %s %s on the real code (not yet listed in known_findings.json): %s" % (
                fid, "REPRODUCES" if still else "does not reproduce", what))
            ctx.log("finding candidate %s: %s — %s" % (fid, "reproduces" if still else "does not reproduce", what))
            continue
        res.append((fid, still, what))
    return res


def replay(ctx, payload):
    """Re-execute a replay file: the failing input on the real code with the oracles armed."""
    known = known_ids(ctx)
    inp = (payload.get("failing_input") or {}).get("input")
    inputs = [inp] if inp else [d.get("input") for d in payload.get("disagreements", []) if d.get("input")]
    status = 0
    for inp in inputs:
        line, real, alarm, _ = L.rerun_input(inp, known)
        print("input :", json.dumps(inp))
        print("real  :", real)
        print("oracle:", alarm)
        if alarm:
            status = 1
    return status
