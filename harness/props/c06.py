"""C06 — Wishbone interconnect routes each cycle to one slave and answers only its master.

Real code: litex/soc/interconnect/wishbone.py (Arbiter, Decoder, Timeout, InterconnectShared, Crossbar,
InterconnectPointToPoint), soc.SoCRegion.decoder, migen RoundRobin.  Model: lean/LitexModel/Wishbone/Interconnect.lean.
Letters/outputs: see harness/wblib.py (flat per-master M->S fields, per-slave S->M fields)."""
import random, time
from explore import Job, run_jobs, Disagreement, impl_step, replay_with_monitor, shrink
import wblib
from wblib import (DecAll, DecHi, DecSet, DecRegion, make_shared, make_xbar, make_p2p, make_arbiter, make_decoder,
                   make_socbus, make_socglue, GlueBuild,
                   small_alphabet,
                   m_req, s_ack, s_silent, split_outs)

FMT = ("per master: cyc stb we adr dat_w sel cti bte; per slave: ack err dat_r  "
       "(outputs: per slave cyc..bte, per master ack err dat_r, timeout error)")

# address maps on a 2-bit word address (mode A)
MAPS = {
    1: [("all", [DecAll()]), ("half", [DecHi(1, 0)])],
    2: [("cover", [DecHi(1, 0), DecHi(1, 1)]), ("hole", [DecSet([0]), DecSet([2, 3])])],
    3: [("cover", [DecSet([0]), DecSet([1]), DecHi(1, 1)]), ("hole", [DecSet([0]), DecSet([1]), DecSet([2])])],
}
OVERLAP = [DecAll(), DecHi(1, 1)]      # not disjoint: outside the theorems' hypothesis, the model must still agree


def _alpha(n, m, level, adrs=(0, 1, 2)):
    """level 2: every control combination (cyc/stb/we independent, ack&err together); 1: protocol-shaped
    (idle/request on every address, silent/ack/err); 0: reduced (three addresses `adrs`, silent/ack);
    -1: reduced, and at most one slave acknowledges per cycle."""
    if level == 2:
        return small_alphabet(n, m, full=True, slave_full=(n * m <= 2))
    if level == 1:
        return small_alphabet(n, m)
    keep = []
    for l in small_alphabet(n, m, adrs=adrs):
        ss = wblib.split_letter(l, n, m)[1]
        if any(s[1] for s in ss):
            continue                      # no err letters
        if level < 0 and sum(s[0] for s in ss) > 1:
            continue
        keep.append(l)
    return keep


def _region_map(rng, m, data_width=32):
    """m disjoint SoCRegion-style regions (origin aligned on size_pow2), sizes pow2 or not, in a 32-bit space."""
    sizes = [0x1000, 0x2000, 0x3000, 0x10000, 0x800, 0x100000, 0x4000_0000, 0x600]
    out = []
    used = []
    while len(out) < m:
        size = rng.choice(sizes)
        p2 = 1 << (size - 1).bit_length()
        origin = rng.randrange(0, (1 << 32) // p2) * p2
        if any(origin < o + s and o < origin + p2 for o, s in used):
            continue
        used.append((origin, p2))
        out.append(DecRegion(origin, size))
    return out


def _levels(tier, kind, n, m, reg, to, second_map):
    """Alphabet level of a mode-A instance, or None to skip it in this tier (budget: see BUILD_GUIDE §5)."""
    size = n * m
    if tier != "quick":
        if kind == "shared":
            return 2 if size <= 4 else 1
        if size <= 2 or (size <= 4 and not reg):
            return 2
        return -1 if (reg and size == 9) else 1
    # quick tier
    if kind == "shared":
        if second_map and (size >= 6 or reg != (to is not None)):
            return None
        if size <= 2:
            return 2
        if size == 4:
            return 1 if (reg and to) or second_map else 2
        if size == 3:
            return 1
        return 1 if not (reg or to) else 0
    if second_map and (size >= 6 or reg):
        return None
    if size <= 2:
        return 2
    if size == 4:
        return 1 if (reg or second_map) else 2
    if size == 3:
        return 1
    if size == 9:
        return None if reg else -1       # registered 3x3 crossbar: 1728 states, thorough tier / random walk
    return -1 if reg else 0


def jobs(tier, seed=0):
    quick = tier == "quick"
    rng = random.Random(seed * 104729 + 6)
    J = []
    cap = 60000 if quick else 2000000

    def A(mk, cost=0):
        J.append(Job("A", mk, max_states=cap))
        J[-1].cost = cost

    def B(mk, cycles=None):
        J.append(Job("B", mk, cycles=cycles or (1500 if quick else 10000), runs=1 if quick else 2))
        J[-1].cost = J[-1].kw["cycles"] * J[-1].kw["runs"] * 4

    # ---- mode A: exhaustive product exploration -------------------------------------------------------------
    A(lambda: make_p2p(alphabet=small_alphabet(1, 1, full=True, slave_full=True)))
    for n in (1, 2, 3):
        for m in (1, 2, 3):
            for mi, (mapname, decs) in enumerate(MAPS[m]):
                # reduced alphabets use three addresses: keep the unmapped one of the 3-slave "hole" map
                ra = (0, 2, 3) if (m == 3 and mapname == "hole") else (0, 1, 2)
                for reg in (False, True):
                    for to in (None, 2):
                        level = _levels(tier, "shared", n, m, reg, to, mi > 0)
                        if level is None:
                            continue
                        name = "Shared %dx%d %s%s%s a%d" % (n, m, mapname, " reg" if reg else "",
                                                           " to=2" if to else "", level)
                        A(lambda n=n, m=m, decs=decs, reg=reg, to=to, level=level, name=name, ra=ra:
                          make_shared(n, decs, register=reg, timeout=to, alphabet=_alpha(n, m, level, ra), name=name),
                          _cost("shared", n, m, reg, to, level))
                    # crossbar (timeout_cycles is accepted and ignored by the real code)
                    level = _levels(tier, "xbar", n, m, reg, None, mi > 0)
                    if level is None:
                        continue
                    name = "Crossbar %dx%d %s%s a%d" % (n, m, mapname, " reg" if reg else "", level)
                    A(lambda n=n, m=m, decs=decs, reg=reg, level=level, name=name, ra=ra:
                      make_xbar(n, decs, register=reg, alphabet=_alpha(n, m, level, ra), name=name,
                                timeout_arg=2 if reg else None), _cost("xbar", n, m, reg, None, level))
    # the two building blocks on their own (Arbiter = n x 1 without decoder, Decoder = 1 x m without arbiter)
    A(lambda: make_arbiter(3, alphabet=_alpha(3, 1, 1)), 2000)
    A(lambda: make_arbiter(2, alphabet=_alpha(2, 1, 2)), 3000)
    A(lambda: make_arbiter(3, controllers=True, alphabet=_alpha(3, 1, 1)), 2000)           # `controllers=` keyword
    A(lambda: make_shared(2, MAPS[2][0][1], timeout=1, register=True, alphabet=_alpha(2, 2, 1),
                          name="Shared 2x2 cover reg to=1 a1"), 3000)                       # smallest timeout that waits
    A(lambda: make_decoder(MAPS[3][1][1], register=True, alphabet=_alpha(1, 3, 2)), 4000)
    A(lambda: make_decoder(MAPS[2][0][1], register=False, alphabet=_alpha(1, 2, 2)), 500)
    # masters of different adr_width (narrow first / wide first): the shared bus must carry the widest address
    WMAP = [DecSet([0, 1]), DecSet([2, 3])]
    for aws in ([1, 2], [2, 1]):
        for reg, to in ((False, None), (True, 2)):
            A(lambda aws=aws, reg=reg, to=to: make_shared(
                2, WMAP, register=reg, timeout=to, adr_widths=aws,
                alphabet=small_alphabet(2, 2, full=True, adr_widths=aws),
                name="Shared 2x2 adr_widths=%s%s%s a2" % (aws, " reg" if reg else "", " to=2" if to else "")), 20000)
    A(lambda: make_xbar(2, WMAP, register=True, adr_widths=[1, 2], alphabet=small_alphabet(2, 2, adr_widths=[1, 2]),
                        name="Crossbar 2x2 adr_widths=[1, 2] reg a1"), 8000)
    A(lambda: make_shared(3, MAPS[3][0][1], adr_widths=[1, 2, 2], alphabet=small_alphabet(3, 3, adr_widths=[1, 2, 2]),
                          name="Shared 3x3 adr_widths=[1, 2, 2] a1"), 9000)
    A(lambda: make_shared(2, OVERLAP, register=True, timeout=2, alphabet=_alpha(2, 2, 1), name="Shared 2x2 overlap reg to=2 a1",
                          exclusive=False))
    A(lambda: make_xbar(2, OVERLAP, register=False, alphabet=_alpha(2, 2, 1), name="Crossbar 2x2 overlap a1", exclusive=False))
    A(lambda: make_shared(2, MAPS[2][0][1], timeout=0, alphabet=_alpha(2, 2, 1), name="Shared 2x2 cover to=0 a1"))
    A(lambda: make_shared(2, MAPS[2][0][1], timeout=3, alphabet=_alpha(2, 2, 1), name="Shared 2x2 cover to=3 a1"))

    # ---- mode B: 32-bit fabrics, SoCRegion maps, protocol-following masters/slaves with random latencies -----
    if quick:
        grid = [(3, 3, False, None), (3, 3, True, 8), (3, 3, True, None), (3, 3, False, 8), (2, 3, True, 1000000), (4, 2, False, 8)]
        xgrid = [(3, 3, False), (3, 3, True), (4, 2, True)]
    else:
        grid = [(3, 3, reg, to) for reg in (False, True) for to in (None, 8, 1000000, 1)]
        grid += [(n, m, reg, to) for (n, m) in [(2, 3), (4, 2), (1, 4), (4, 4), (3, 1)]
                 for (reg, to) in ((False, None), (True, 8), (False, 3))]
        xgrid = [(n, m, reg) for (n, m) in [(3, 3), (2, 3), (4, 2), (1, 4), (4, 4), (3, 1)] for reg in (False, True)]
    maps = {}
    for (n, m) in sorted({(g[0], g[1]) for g in grid + xgrid}):
        maps[(n, m)] = _region_map(rng, m)
    for (n, m, reg, to) in grid:
        decs = maps[(n, m)]
        name = "Shared %dx%d regions%s%s/32b [%s]" % (n, m, " reg" if reg else "", " to=%s" % to if to is not None else "",
                                                     " ".join(d.word() for d in decs))
        B(lambda n=n, decs=decs, reg=reg, to=to, name=name:
          make_shared(n, decs, register=reg, timeout=to, data_width=32, adr_width=30, name=name))
    for (n, m, reg) in xgrid:
        decs = maps[(n, m)]
        name = "Crossbar %dx%d regions%s/32b [%s]" % (n, m, " reg" if reg else "", " ".join(d.word() for d in decs))
        B(lambda n=n, decs=decs, reg=reg, name=name:
          make_xbar(n, decs, register=reg, data_width=32, adr_width=30, name=name))
    # 32-bit fabrics whose masters have different adr_width; one region lies above the narrow master's range
    wreg = [DecRegion(0x1000, 0x1000), DecRegion(0x80000000, 0x10000), DecRegion(0x200000, 0x3000)]
    for aws in ([20, 30], [30, 20]) if quick else ([20, 30], [30, 20], [30, 12, 24]):
        B(lambda aws=aws: make_shared(len(aws), wreg, register=True, timeout=8, data_width=32, adr_widths=aws,
                                      name="Shared %dx3 regions adr_widths=%s reg to=8/32b" % (len(aws), aws)))
    B(lambda: make_xbar(2, wreg, register=False, data_width=32, adr_widths=[20, 30],
                        name="Crossbar 2x3 regions adr_widths=[20, 30]/32b"))
    # default-argument path (timeout_cycles not passed: 1e6), 128-bit data, 5 masters x 5 slaves
    dflt = _region_map(rng, 2)
    B(lambda: make_shared(2, dflt, timeout="default", data_width=32, adr_width=30,
                          name="Shared 2x2 regions default-timeout/32b [%s]" % " ".join(d.word() for d in dflt)),
      cycles=None if not quick else 800)
    d128 = _region_map(rng, 3)
    B(lambda: make_shared(3, d128, register=True, timeout=4, data_width=128, adr_width=28,
                          name="Shared 3x3 regions reg to=4/128b [%s]" % " ".join(d.word() for d in d128)),
      cycles=None if not quick else 800)
    B(lambda: make_xbar(2, d128, data_width=128, adr_width=28,
                        name="Crossbar 2x3 regions/128b [%s]" % " ".join(d.word() for d in d128)),
      cycles=None if not quick else 600)
    d55 = _region_map(rng, 5)
    B(lambda: make_shared(5, d55, register=False, timeout=6, data_width=32, adr_width=30,
                          name="Shared 5x5 regions to=6/32b [%s]" % " ".join(d.word() for d in d55)),
      cycles=None if not quick else 800)
    # whole-address-space region (decoder returns `lambda a: True`) and a 64-bit fabric
    B(lambda: make_shared(2, [DecRegion(0, 1 << 32)], data_width=32, adr_width=30, name="Shared 2x1 region=all/32b"))
    d64 = _region_map(rng, 2)
    B(lambda: make_shared(2, d64, register=True, timeout=5, data_width=64, adr_width=29,
                          name="Shared 2x2 regions reg to=5/64b [%s]" % " ".join(d.word() for d in d64)))
    B(lambda: make_p2p(data_width=32, adr_width=30))
    # ---- end to end: real SoCBusHandler.do_finalize picks the fabric and builds the decoders from SoCRegions -------
    # (1x1 with region origin 0 smaller than the space is an open finding, see probes(); not in the green grid)
    soc = [dict(n=1, regions=[(0x10000000, 0x1000)], timeout=8),                       # non-zero origin -> decoder
           dict(n=1, regions=[(0x10000000, 0x1000)], timeout=1e6, register=False),
           dict(n=1, regions=[(0x40000000, 0x3000)], interconnect="crossbar"),
           dict(n=1, regions=[(0, 1 << 32)], timeout=8),                              # whole space -> point to point
           dict(n=1, regions=[(0, 0x2000), (0x80000000, 0x10000)], timeout=8),        # 1x2
           dict(n=2, regions=[(0, 0x1000)], timeout=8),                               # 2x1, origin 0, partial
           dict(n=2, regions=[(0x20000000, 0x800)], interconnect="crossbar"),
           dict(n=1, regions=[(0x10000000, 0x1000)], timeout=8, extra_first=(0, 0x1000)),    # fixed finding
           # less-used paths of the glue: slaves registered before masters, byte-addressed master ports (add_adapter)
           dict(n=2, regions=[(0x10000000, 0x1000), (0, 0x2000)], timeout=8, slaves_first=True),
           dict(n=2, regions=[(0x30000000, 0x1000), (0x80000000, 0x600)], timeout=8, byte_masters=(1,)),
           dict(n=1, regions=[(0, 1 << 32)], timeout=8, byte_masters=(0,))]
    if not quick:
        soc += [dict(n=2, regions=[(0, 0x1000), (0x10000, 0x600)], interconnect="crossbar", register=False),
                dict(n=3, regions=_soc_regions(rng, 3), timeout=20),
                dict(n=1, regions=[(0xfffff000, 0x1000)], timeout=None),
                dict(n=1, regions=[(0x1000, 0x1000)], timeout=3, register=False)]
    for kw in soc:
        B(lambda kw=kw: make_socbus(**kw))
    # whole build scripts (non-power-of-two sizes, auto-allocated origins, IO/uncached and linker regions mixed, 2-4
    # slaves); the protocol environment also visits every region boundary, rounding gap and unmapped neighbour
    for script, kw in _GLUE_B if quick else _GLUE_B + _GLUE_B_THOROUGH:
        B(lambda script=script, kw=kw: make_socglue(script, **kw), cycles=None if not quick else 800)
    # random walks over the small alphabets (3x3 registered crossbar is too large for exhaustive exploration)
    B(lambda: _walker(make_xbar(3, MAPS[3][0][1], register=True, alphabet=_alpha(3, 3, 1), name="Crossbar 3x3 cover reg walk")),
      cycles=4000 if quick else 60000)
    # longest jobs first (the pool hands jobs out in list order)
    return sorted(J, key=lambda job: -getattr(job, "cost", 0))


_M = ("M",)


def _MR(origin, size):
    return ("MR", origin, size)


_MB = ("MB",)


def _SB(origin, size, cached=1, linker=0):
    return ("SB", origin, size, cached, linker)


def _S(origin, size, cached=1, linker=0):
    return ("S", origin, size, cached, linker)


def _R(origin, size, cached=1, linker=0):
    return ("R", origin, size, cached, linker)


def _I(origin, size):
    return ("I", origin, size)


# build scripts run as mode-B jobs (the specification expects all of them to be accepted)
_GLUE_B = [
    ([_M, _M, _S(0, 0x3000), _S(None, 0x1000), _S(None, 0x1800)], dict(timeout=8)),
    ([_S(None, 0x1000), _M, _S(0x4000, 0x3000), _M, _M, _S(None, 0x5000), _S(0x20000, 0x600)],
     dict(interconnect="crossbar", register=False)),
    ([_M, _I(0x80000000, 0x20000), _R(0, 0x20000, 1, 1), _S(0, 0x1800), _S(None, 0x600, 0), _S(0x80010000, 0x3000, 0),
      _M, _S(None, 0x800)], dict(timeout=16, register=False)),
]
_GLUE_B += [
    # masters restricted by add_master(region=…): to one slave's region, to a non-power-of-two slave's rounding gap, to a
    # window spanning several slaves; one unrestricted master
    ([_MR(0x4000, 0x1000), _MR(0x3000, 0x1000), _S(0, 0x3000), _S(None, 0x1000), _MR(0, 0x8000), _M, _S(0x8000, 0x1800)],
     dict(timeout=8)),
]
_GLUE_B += [
    # byte-addressed master and slave ports (add_adapter's addressing conversion) on a 64-bit and a 128-bit bus
    ([_MB, _M, _S(0, 0x3000), _SB(None, 0x1000), _SB(0x8000, 0x1800), _MB], dict(timeout=8, data_width=64)),
    ([_M, _MB, _SB(0x10000000, 0x3000), _S(None, 0x1000)], dict(interconnect="crossbar", register=False, data_width=128)),
]
_GLUE_B_THOROUGH = [
    ([_M, _S(0x10000000, 0x5000), _S(0x10008000, 0x2400), _S(None, 0x3000), _S(None, 0x3000)],
     dict(interconnect="crossbar", register=True)),
    ([_M, _M, _M, _S(None, 0x600), _S(None, 0x600), _S(None, 0x1800), _S(None, 0x100)], dict(timeout=None)),
]


def _cost(kind, n, m, reg, to, level):
    """Rough number of evaluator steps of a mode-A job (letters x reachable states x netlist size)."""
    letters = {2: 14 ** n * 4 ** m, 1: 5 ** n * 3 ** m, 0: 4 ** n * 2 ** m, -1: 4 ** n * (m + 1)}[level]
    if kind == "shared":
        states = n * ((m + 1) if reg else 1) * (3 if to else 1)
    else:
        states = n ** m * ((m + 1) ** n if reg else 1)
    return letters * states * (1 + n * m / 3.0)


def _soc_regions(rng, m):
    return [(d.origin, d.size) for d in _region_map(rng, m)]


def _topology_cases(ctx):
    """`SoCBusHandler.do_finalize`'s choice of fabric against the model's `busTopology` (mode C), including the
    configuration of the open finding (origin 0, partial region: the model reproduces the code's choice) and
    slave-less regions registered first (fixed finding: they must not matter)."""
    cases = []
    for n in (1, 2, 3):
        for regions in ([(0, 0x1000)], [(0, 1 << 32)], [(0x10000000, 0x1000)], [(0x1000, 0x1000)],
                        [(0, 0x1000), (0x10000000, 0x1000)], [(0x10000000, 0x1000), (0, 0x1000)]):
            for kind in ("shared", "crossbar"):
                for extra in (None, (0x20000000, 0x1000)) + (((0, 0x100),) if all(o for o, _ in regions) else ()):
                    cases.append(dict(n=n, regions=regions, interconnect=kind, extra_first=extra, timeout=8))
    dis = []
    lines, got = [], []
    for kw in cases:
        inst = make_socbus(**kw)
        lines.append("topology " + inst.lean_open[len("socbus "):])
        got.append((inst.topology, inst.name))
    res = ctx.lean.call_batch(lines)
    nontriv = 0
    for (topo, name), r, l in zip(got, res, lines):
        ctx.cov.count("topology_" + topo)
        nontriv += 1
        if r.strip() != topo:
            dis.append({"instance": name, "kind": "correspondence", "case": l, "impl": topo, "model": r})
    ctx.cov.add_cases("SoCBusHandler.do_finalize topology vs busTopology", len(cases), nontriv, exhaustive=False)
    return dis[:3]


class _Walk:
    """Generator picking uniformly random letters of the instance's mode-A alphabet (arbitrary, not
    protocol-following, environments)."""
    def __init__(self, inst):
        self.inst = inst

    def next_letter(self, rng, t, last):
        return rng.choice(self.inst.alphabet)


def _walker(inst):
    inst.env_factory = _Walk
    return inst


# ---------------------------------------------------------------------------------------------------------

def _region_decoder_cases(ctx):
    """SoCRegion.decoder against the model's `regionDec` as pure functions (mode C): the real lambda is evaluated
    on Migen constants through the simulator's evaluator."""
    from migen import Signal
    from litex.soc.integration.soc import SoCRegion
    from litex.soc.interconnect import wishbone
    from litex.gen.sim.core import Evaluator
    rng = ctx.rng
    lines, expect = [], []
    ncases = 300 if ctx.tier == "quick" else 3000
    nontriv = 0
    for k in range(ncases):
        dw = rng.choice((8, 16, 32, 64))
        adr_width = rng.choice((8, 14, 30))
        bus = wishbone.Interface(data_width=dw, adr_width=adr_width)
        aw = bus.address_width
        size = rng.choice((1 << rng.randint(4, aw), rng.randint(dw // 8 * 2, 1 << min(aw, 20))))
        p2 = 1 << (size - 1).bit_length()
        if p2 > (1 << aw) or p2 < dw // 8:
            continue
        origin = rng.randrange(0, (1 << aw) // p2) * p2
        fn = SoCRegion(origin=origin, size=size).decoder(bus)
        a = Signal(adr_width)
        ev = Evaluator({}, {})
        lo = origin // (dw // 8)
        n = p2 // (dw // 8)
        for adr in {lo, lo + n - 1, (lo - 1) % (1 << adr_width), (lo + n) % (1 << adr_width), rng.getrandbits(adr_width)}:
            ev.signal_values[a] = adr
            r = fn(a)
            val = 1 if r is True else int(bool(ev.eval(r)))
            lines.append("regiondec %d %d %d %d %d" % (origin, size, dw, aw, adr))
            expect.append((val, origin, size, dw, aw, adr))
            nontriv += val
            # the specification (independent of both): inside [origin, origin + size_pow2)
            spec = 1 if origin <= adr * (dw // 8) < origin + p2 else 0
            if spec != val:
                return [{"instance": "SoCRegion.decoder", "kind": "monitor:region predicate differs from its specification",
                         "case": [origin, size, dw, aw, adr], "impl": val, "spec": spec}]
    res = ctx.lean.call_batch(lines)
    dis = []
    for r, e in zip(res, expect):
        if r.strip() != str(e[0]):
            dis.append({"instance": "SoCRegion.decoder", "kind": "correspondence", "case": list(e[1:]),
                        "impl": e[0], "model": r})
            if len(dis) >= 3:
                break
    ctx.cov.add_cases("SoCRegion.decoder vs regionDec", len(lines), nontriv, exhaustive=False)
    return dis


# ---------------------------------------------------------------------------------------------------------
# address-map glue: check_regions_overlap, add_region/alloc_region/add_slave histories, do_finalize

_SIZES = (0x1000, 0x3000, 0x1800, 0x600, 0x800, 0x5000, 0x2400, 0x10000, 0x400, 0xc00)


def _eval_decoder(origin, size, word, data_width=32, address_width=32):
    """`SoCRegion(origin, size).decoder(bus)` of the real code evaluated at one word address (None: SoCError)."""
    import sys
    from migen import Signal
    from litex.soc.integration import soc as S
    from litex.soc.interconnect import wishbone
    from litex.gen.sim.core import Evaluator
    bus = wishbone.Interface(data_width=data_width, address_width=address_width)
    a = Signal(bus.adr_width)
    ev = Evaluator({}, {})
    ev.signal_values[a] = word
    stderr = sys.stderr
    try:
        r = S.SoCRegion(origin=origin, size=size).decoder(bus)(a)
    except S.SoCError:
        return None
    finally:
        sys.stderr = stderr
    return 1 if r is True else int(bool(ev.eval(r)))


def _placed_near(rng, placed, size):
    """An origin next to an already placed region: at its declared end (the rounding gap of a non-power-of-two
    size), in the last slot of its gap, right after / right before its decoded window, or on it."""
    o, sz = rng.choice(placed)
    p2, q2 = 1 << (sz - 1).bit_length(), 1 << (size - 1).bit_length()
    return max(0, rng.choice((o + sz, o + p2 - q2, o + p2, o - q2, o, o + sz - size, o + p2 - 1, o + (sz + p2) // 2 // q2 * q2,
                              o + p2, o - q2, o + 2 * p2, o + p2 + q2, o - 2 * q2, (o + p2 + q2 - 1) // q2 * q2)))


def _random_region_list(rng):
    k = rng.randint(2, 5)
    placed, out = [], []
    base = rng.choice((0, 0x10000000, 0x80000000, 0x4000))
    for _ in range(k):
        size = rng.choice(_SIZES)
        if placed and rng.random() < 0.8:
            origin = _placed_near(rng, placed, size)
        else:
            origin = base + rng.randrange(0, 16) * rng.choice((0x1000, 0x800, 0x4000))
        placed.append((origin, size))
        out.append((origin, size, 1 if rng.random() < 0.12 else 0))
    return out


def _overlap_cases(ctx):
    """`SoCBusHandler.check_regions_overlap` (real) against `checkRegionsOverlap` (Lean) on random region lists in
    both registration orders and with both `check_linker` values, plus the property oracle: a list that the real
    function accepts must not contain two non-linker regions whose decoded windows share an address."""
    from litex.soc.integration import soc as S
    rng = ctx.rng
    bus = S.SoCBusHandler(standard="wishbone", data_width=32, address_width=32)
    fixed = [[(0, 0x3000, 0), (0x3000, 0x1000, 0)], [(0, 0x3000, 0), (0x4000, 0x1000, 0)],
             [(0x10000, 0x1800, 0), (0x11800, 0x800, 0), (0x12000, 0x600, 0)], [(0, 0x1000, 1), (0, 0x1000, 0)],
             [(0x2000, 0x600, 0), (0x2600, 0x100, 0)], [(0x8000, 0x5000, 0), (0xe000, 0x2000, 0), (0x10000, 0x2400, 0)]]
    lists = []
    for l in fixed + [_random_region_list(rng) for _ in range(150 if ctx.tier == "quick" else 1500)]:
        lists.append(l)
        lists.append(l[::-1])
        if len(l) > 2:
            l2 = list(l)
            rng.shuffle(l2)
            lists.append(l2)
    lines, got, dis = [], [], []
    nontriv = 0
    for l in lists:
        for cl in (0, 1):
            regs = {"r%d" % i: S.SoCRegion(origin=o, size=sz, linker=bool(lk)) for i, (o, sz, lk) in enumerate(l)}
            r = bus.check_regions_overlap(regs, check_linker=bool(cl))
            res = "none" if r is None else "%d %d" % (int(r[0][1:]), int(r[1][1:]))
            lines.append("overlap %d %s" % (cl, " ".join("%d:%d:%d" % t for t in l)))
            got.append((res, l, cl))
            nontriv += r is not None
            ctx.cov.count("overlap_reported" if r is not None else "overlap_accepted")
            if r is None and not cl and not dis:
                # property oracle (model independent): accepted => pairwise disjoint windows of non-linker regions
                for a in range(len(l)):
                    for b in range(a + 1, len(l)):
                        (oa, sa, la), (ob, sb, lb) = l[a], l[b]
                        pa, pb = 1 << (sa - 1).bit_length(), 1 << (sb - 1).bit_length()
                        lo, hi = max(oa, ob), min(oa + pa, ob + pb)
                        if la or lb or lo >= hi:
                            continue
                        word = lo >> 2
                        dis.append({"instance": "SoCBusHandler.check_regions_overlap",
                                    "kind": "monitor:check_regions_overlap accepts regions whose decoders both match an address",
                                    "regions": [list(t) for t in l], "pair": [a, b], "byte_address": lo,
                                    "windows": ["[%#x, %#x)" % (oa, oa + pa), "[%#x, %#x)" % (ob, ob + pb)],
                                    "decoders_at_word_%#x" % word: [_eval_decoder(oa, sa, word), _eval_decoder(ob, sb, word)]})
    res = ctx.lean.call_batch(lines)
    for r, (g, l, cl) in zip(res, got):
        if r.strip() != g:
            dis.append({"instance": "SoCBusHandler.check_regions_overlap", "kind": "correspondence",
                        "case": {"regions": [list(t) for t in l], "check_linker": cl}, "impl": g, "model": r.strip()})
            if len(dis) >= 4:
                break
    ctx.cov.add_cases("SoCBusHandler.check_regions_overlap vs checkRegionsOverlap", len(lines), nontriv, exhaustive=False)
    return dis[:4]


def _glue_scripts(rng, tier):
    """Build scripts for real SoCBusHandlers: non-power-of-two sizes, both registration orders, explicit and
    auto-allocated origins, origins in / at the end of / after the rounding gap, IO + uncached and linker regions
    mixed, 2-4 slaves, 1-3 masters, shared and crossbar, registered or not."""
    out = []
    variants = [dict(timeout=8), dict(interconnect="crossbar", register=False), dict(register=False, timeout=3),
                dict(interconnect="crossbar")]
    v = 0
    for base in (0, 0x40000000):
        for sz, xs in ((0x3000, 0x1000), (0x1800, 0x800), (0x5000, 0x400)):
            p2 = 1 << (sz - 1).bit_length()
            for o2 in (base + sz, base + p2 - xs, base + p2, None):
                if base and o2 is None and sz != 0x3000:
                    continue
                A, X = _S(base, sz), _S(o2, xs)
                for order in ((A, X), (X, A)):
                    out.append(([_M, _M] + list(order), variants[v % len(variants)]))
                    v += 1
    out += [
        ([_M, _S(None, 0x3000), _S(None, 0x1000), _S(None, 0x1800), _S(None, 0x800)], dict(timeout=8)),
        ([_S(None, 0x800), _S(None, 0x1800), _M, _S(None, 0x1000), _S(None, 0x3000), _M], dict(interconnect="crossbar")),
        ([_M, _I(0x80000000, 0x20000), _S(0, 0x3000), _S(None, 0x600, 0), _S(None, 0x1000), _S(0x80001000, 0x1800, 0)],
         dict(timeout=8, register=False)),
        ([_M, _M, _I(0x80000000, 0x10000), _S(0x80000000, 0x3000, 0), _S(0x80003000, 0x1000, 0)], dict(timeout=8)),
        ([_M, _R(0, 0x10000, 1, 1), _S(0, 0x3000), _S(None, 0x1000), _M, _S(0x8000, 0x1800)], dict(interconnect="crossbar")),
        ([_M, _M, _R(0x3000, 0x1000), _S(0, 0x3000), _S(None, 0x1000)], dict(timeout=8)),
        ([_M, _M, _S(0, 0x3000), _R(None, 0x1000), _S(None, 0x1000)], dict(timeout=8)),
        ([_M, _S(0x1000, 0x3000), _S(0, 0x1000)], dict(timeout=8)),                       # unaligned origin: finalize
        ([_M, _M, _S(0, 0x1000, 1, 1), _S(0, 0x1000)], dict(timeout=8)),                 # linker slave region (R10 off)
        ([_M, _S(0x10000000, 0x3000)], dict(timeout=8)),
        ([_M, _S(0, 0x3000), _S(0x3000, 0x1000)], dict(timeout=8)),
        # remapped masters (add_master(region=…))
        ([_MR(0x10000000, 0x1000), _S(0x10000000, 0x1000), _S(0, 0x2000)], dict(timeout=8)),
        ([_MR(0x2000, 0x800), _M, _S(0, 0x3000), _S(None, 0x1000)], dict(interconnect="crossbar", register=False)),
        ([_MR(0, 0x10000), _MR(0x4000, 0x4000), _S(0, 0x3000), _S(None, 0x1000), _S(None, 0x1800)], dict(interconnect="crossbar")),
        ([_MR(0x80000000, 0x100), _S(0x80000000, 0x100)], dict(timeout=8)),       # 1x1, non-zero origin: decoder
        ([_MR(0, 0x1000), _S(0, 0x100000000)], dict(timeout=8)),                  # 1x1, whole space: point to point
    ]
    # byte-addressed master / slave ports: bus data width 32/64/128, address width 32/64, shared and crossbar
    for dw in (32, 64, 128):
        for aw in (32, 64):
            if aw == 64 and dw == 32:
                continue
            hi = 0x10000000 if aw == 32 else 0x100000000000
            out.append(([_MB, _M, _S(0, 0x3000), _SB(None, 0x1000), _SB(hi, 0x1800)],
                        dict(variants[v % len(variants)], data_width=dw, address_width=aw)))
            v += 1
            out.append(([_MB, _SB(hi, 0x1000), _S(hi + 0x2000, 0x600), _MB], dict(variants[v % len(variants)], data_width=dw, address_width=aw)))
            v += 1
    out.append(([_MB, _SB(0, 1 << 32)], dict(timeout=8, data_width=64)))              # 1x1 whole space: point to point
    for _ in range(14 if tier == "quick" else 150):
        script = [_M if rng.random() < 0.75 else _MR(rng.randrange(0, 16) * 0x1000, rng.choice((0x1000, 0x400, 0x4000)))
                  for _k in range(rng.randint(1, 3))]
        script = [op if op[0] == "M" or op[1] % op[2] == 0 else _MR(op[1] // op[2] * op[2], op[2]) for op in script]
        placed = []
        has_io = rng.random() < 0.4
        if has_io:
            script.append(_I(0x80000000, 0x40000))
        for _j in range(rng.randint(2, 4)):
            size = rng.choice(_SIZES)
            unc = has_io and rng.random() < 0.4
            r = rng.random()
            if r < 0.4:
                origin = None
            elif placed and r < 0.85:
                origin = _placed_near(rng, placed, size)
            else:
                origin = (0x80000000 if unc else 0) + rng.randrange(0, 8) * 0x4000
            if unc and origin is not None and origin < 0x80000000:
                origin += 0x80000000
            if origin is not None:
                placed.append((origin, size))
            op = (_S if rng.random() < 0.85 else _R)(origin, size, 0 if unc else 1, 1 if rng.random() < 0.05 else 0)
            script.insert(rng.randint(0, len(script)) if rng.random() < 0.3 and not has_io else len(script), op)
        kw = dict(variants[rng.randrange(len(variants))])
        if rng.random() < 0.5:
            # byte-addressed ports on wider buses (no remapper on a byte port: Remapper + adapter order is C07's subject)
            kw["data_width"] = rng.choice((32, 64, 128))
            script = [(_MB if op == _M and rng.random() < 0.5 else
                       ("SB",) + op[1:] if op[0] == "S" and rng.random() < 0.5 else op) for op in script]
        out.append((script, kw))
    return out


class _SweepEnv:
    """Directed generator: every boundary word address of the instance is requested by one master (masters take
    turns) for two cycles; in the second cycle every slave that is presented the strobe acknowledges; one idle
    cycle follows.  3 cycles per address."""
    def __init__(self, inst):
        self.inst = inst
        self.words = list(inst.adr_pool_extra)

    def next_letter(self, rng, t, last):
        inst = self.inst
        n, m = inst.n, inst.m
        k, phase = divmod(t, 3)
        w = self.words[k % len(self.words)]
        i = k % n
        parts = []
        shifts = inst.adr_shifts or [0] * n
        for q in range(n):
            # a byte-addressed master port drives the byte address (some byte inside the bus word)
            a = (w << shifts[q]) | (k & ((1 << shifts[q]) - 1))
            if q == i and phase < 2:
                parts.append(m_req(a, we=k & 1, dat_w=(0xd0 + q) << 8 | (k & 0xff), sel=0xf, tag=q & 3))
            else:
                parts.append(wblib.m_idle(tag=q & 3, adr=a))
        if phase == 1:
            seen = inst.peek(parts)
            for j in range(m):
                parts.append(s_ack(0xa0 + j) if (seen[j][0] and seen[j][1]) else s_silent(0x50 + j))
        else:
            parts += [s_silent(0x50 + j) for j in range(m)]
        import itertools
        return tuple(itertools.chain.from_iterable(parts))


def _glue_demo(gb, witness):
    """Bus-level demonstration of an overlapping accepted map: drive the shared address and list who sees it."""
    try:
        inst = gb.fabric()
        word = witness["byte_address"] >> gb.sh
        seen_by = set()
        for t in range(3):
            letter = m_req(word, sel=0xf) + wblib.m_idle() * (inst.n - 1) + s_silent(0) * inst.m
            outs = impl_step(inst, letter)
            to_s = split_outs(outs, inst.n, inst.m)[0]
            seen_by |= {j for j in range(inst.m) if to_s[j][0] and to_s[j][1]}
        return {"word_address": word, "slaves_presented_the_cycle": sorted(seen_by)}
    except Exception as e:      # noqa: the demonstration is optional, the witness stands without it
        return {"demo_failed": repr(e)}


def _glue_one(ctx, script, kw, model_answer):
    """One build script on the real SoCBusHandler: outcome vs the Lean model's, specification oracle on the accepted
    map, directed boundary sweep of the finalized bus in lock step with the model and with the monitor armed."""
    from explore import cosim
    from leanproc import LeanError
    gb = GlueBuild(script, **kw)
    spec = {"kind": "socglue", "script": [list(op) for op in script], "kw": kw}
    dis = []
    got = gb.summary()
    ctx.cov.count("glue_" + got.split()[0] + ("_" + gb.topology if gb.verdict == "ok" else ""))
    if got != model_answer.strip():
        dis.append({"instance": gb.describe(), "kind": "correspondence", "make": spec, "impl": got, "model": model_answer.strip()})
    if gb.verdict != "ok":
        return dis, 0
    w = gb.overlap_witness()
    if w is not None:
        w.update(_glue_demo(GlueBuild(script, **kw), w) if gb.n else {})
        dis.append(dict(w, instance=gb.describe(), make=spec,
                        kind="monitor:SoCBusHandler accepted an address map in which two slaves' decoders match the same address",
                        accepted_regions=["%#x+%#x" % r for r in gb.slave_regions]))
    if not (gb.n and gb.m):
        return dis, 0
    inst = gb.fabric()
    inst.env_factory = _SweepEnv
    cycles = 3 * len(inst.adr_pool_extra)
    # open finding C06-p2p-partial-region-origin0 (one master, one slave at origin 0 smaller than the address space is
    # wired point to point): the model reproduces the code there, the property monitor is armed by probes() only
    known = (gb.n == 1 and gb.m == 1 and gb.slave_regions[0][0] == 0
             and wblib._pow2(gb.slave_regions[0][1]) < (1 << gb.args["address_width"]))
    if known:
        ctx.cov.count("glue_in_known_finding_region")
    try:
        ds = cosim(inst, ctx.lean, ctx.cov, ctx.rng, cycles, runs=1, with_monitor=not known)
    except LeanError as e:
        # the model refuses the script (already reported above as an outcome difference): the real bus is still
        # swept with the property monitor armed
        ctx.lean.in_session = False
        ds = []
        if got == model_answer.strip():
            dis.append({"instance": gb.describe(), "kind": "exception", "make": spec, "what": repr(e)})
        inst = GlueBuild(script, **kw).fabric()
        inst.env_factory = _SweepEnv
        r = monitor_run(inst, ctx.rng, cycles)
        if r:
            ds.append(Disagreement(inst, r[0], len(r[0]) - 1, None, None, kind="monitor:" + r[1]))
    for d in ds:
        d.make_spec = spec
    return dis + ds, cycles


def _glue_cases(ctx):
    scripts = _glue_scripts(ctx.rng, ctx.tier)
    lines = ["socglue " + GlueBuild.lean_args(_Args(script, kw)) for script, kw in scripts]
    answers = ctx.lean.call_batch(lines)
    dis, total = [], 0
    for (script, kw), ans in zip(scripts, answers):
        r = _guard("SoCBusHandler build script", lambda: _glue_one(ctx, script, kw, ans), limit=120)
        if isinstance(r, tuple):
            dis += r[0]
            total += r[1]
        else:
            dis += r
        if len(dis) > 6:
            break
    ctx.cov.add_cases("SoCBusHandler build scripts vs glueBuild (+ boundary sweeps)", len(scripts), len(scripts), exhaustive=False)
    return dis


class _Args:
    """Just the fields `GlueBuild.lean_args` reads (the model's answer is asked before anything is built)."""
    def __init__(self, script, kw):
        self.script = [tuple(op) for op in script]
        self.args = dict(dict(interconnect="shared", register=True, timeout=8, data_width=32, address_width=32), **kw)


def _remap_cases(ctx):
    """`SoCBusHandler.add_remapper` (what `add_master(region=…)` calls; real netlist) against the model's `remapAdr`
    and, for aligned power-of-two regions, against the specification `origin + offset modulo size`."""
    from litex.soc.integration import soc as S
    from litex.soc.interconnect import wishbone
    from netlist import Netlist
    rng = ctx.rng
    lines, got, dis = [], [], []
    for k in range(12 if ctx.tier == "quick" else 80):
        dw = rng.choice((32, 32, 64))
        sh = (dw // 8).bit_length() - 1
        bus = S.SoCBusHandler(standard="wishbone", data_width=dw, address_width=32)
        pow2 = rng.random() < 0.7
        size = (1 << rng.randint(sh + 1, 28)) if pow2 else rng.choice((0x3000, 0x1800, 0x5000, 0x600))
        p2 = 1 << (size - 1).bit_length()
        origin = rng.randrange(0, (1 << 32) // p2) * p2
        mst = wishbone.Interface(data_width=dw, address_width=32)
        adapted = bus.add_remapper("m", mst, origin, size)
        nl = Netlist(bus)
        for a in {0, 1, (size >> sh) - 1, size >> sh, (1 << (32 - sh)) - 1, rng.getrandbits(32 - sh), rng.getrandbits(32 - sh)}:
            nl.set(mst.adr, a)
            nl.settle()
            v = nl.getu(adapted.adr)
            lines.append("remapadr %d %d %d 32 %d" % (origin, size, dw, a))
            got.append((v, origin, size, dw, a))
            if pow2 and not dis:
                spec = (origin >> sh) + (a % (size >> sh))
                if v != spec:
                    dis.append({"instance": "SoCBusHandler.add_remapper", "kind": "monitor:remapped master leaves its region",
                                "case": [origin, size, dw, a], "impl": v, "spec": spec})
    res = ctx.lean.call_batch(lines)
    for r, g in zip(res, got):
        if r.strip() != str(g[0]):
            dis.append({"instance": "SoCBusHandler.add_remapper", "kind": "correspondence", "case": list(g[1:]), "impl": g[0], "model": r.strip()})
            if len(dis) >= 3:
                break
    ctx.cov.add_cases("SoCBusHandler.add_remapper vs remapAdr", len(lines), len(lines), exhaustive=False)
    return dis


def _width_route(bus_dw, m_dw, s_dws, interconnect="shared", address_width=32, words=None):
    """Ports of other data widths (word addressed): `add_adapter` inserts wishbone.Converter (Down/UpConverter) on the
    master ("m2s") and slave ("s2m") side.  Model-independent routing oracle on the real netlist: one master, slaves
    at fixed regions; for every probed byte address A the master holds a full-width write until it is terminated, slaves
    acknowledge every strobe they see.  Every strobe a slave sees must (a) be at a slave whose region window contains its
    byte address, (b) overlap the master's own word [A0, A0 + master bytes), (c) be the only slave strobed in that cycle;
    a region that contains A0 must be strobed, an unmapped A0 must reach nobody.  Returns None or a witness dict."""
    import sys
    from litex.soc.integration import soc as S
    from litex.soc.interconnect import wishbone
    from netlist import Netlist
    regions = [(0x0, 0x3000), (0x4000, 0x1000), (0x10000000, 0x1800)][:len(s_dws)]
    bus = S.SoCBusHandler(standard="wishbone", data_width=bus_dw, address_width=address_width, timeout=24,
                          interconnect=interconnect, interconnect_register=False)
    mst = wishbone.Interface(data_width=m_dw, address_width=address_width)
    slaves = [wishbone.Interface(data_width=d, address_width=address_width) for d in s_dws]
    stderr = sys.stderr
    try:
        bus.add_master("m", mst)
        for j, (slv, (o, sz)) in enumerate(zip(slaves, regions)):
            bus.add_slave("s%d" % j, slv, S.SoCRegion(origin=o, size=sz))
        bus.finalize()
    finally:
        sys.stderr = stderr
    nl = Netlist(bus)
    mb = m_dw // 8
    desc = "SoCBusHandler %d-bit %s, master %d-bit, slaves %s-bit at %s" % (
        bus_dw, interconnect, m_dw, "/".join(map(str, s_dws)), " ".join("%#x+%#x" % r for r in regions))
    pts = set()
    for (o, sz) in regions:
        p2 = 1 << (sz - 1).bit_length()
        pts |= {o, o + 8, o + sz - mb, o + sz, o + p2 - mb, o + p2, o + 2 * p2, max(0, o - mb)}
    for A in sorted(words or pts):
        A0 = A // mb * mb
        inside = [j for j, (o, sz) in enumerate(regions) if o <= A0 < o + (1 << (sz - 1).bit_length())]
        nl.set(mst.adr, A0 // mb); nl.set(mst.cyc, 1); nl.set(mst.stb, 1); nl.set(mst.we, 1)
        nl.set(mst.sel, (1 << mb) - 1); nl.set(mst.dat_w, A0 & ((1 << m_dw) - 1))
        seen, done = [], False
        for t in range(60):
            for slv in slaves:
                nl.set(slv.ack, 0)
            nl.settle()
            now = []
            for j, slv in enumerate(slaves):
                if nl.getu(slv.cyc) and nl.getu(slv.stb):
                    now.append((j, nl.getu(slv.adr) * (s_dws[j] // 8)))
                    nl.set(slv.ack, 1)
            nl.settle()
            seen += now
            if len(now) > 1:
                return {"instance": desc, "byte_address": A, "cycle": t, "what": "R10: two slaves strobed at once", "strobes": now}
            for (j, sb) in now:
                o, sz = regions[j]
                if not (o <= sb < o + (1 << (sz - 1).bit_length())):
                    return {"instance": desc, "byte_address": A, "what": "slave %d strobed at byte %#x outside its region" % (j, sb)}
                if not (sb < A0 + mb and A0 < sb + s_dws[j] // 8):
                    return {"instance": desc, "byte_address": A, "what": "slave %d strobed at byte %#x, not part of the master's word at %#x" % (j, sb, A0)}
            done = bool(nl.getu(mst.ack) or nl.getu(mst.err))
            nl.tick()
            if done:
                break
        nl.set(mst.cyc, 0); nl.set(mst.stb, 0)
        for slv in slaves:
            nl.set(slv.ack, 0)
        nl.settle(); nl.tick(); nl.settle(); nl.tick()
        if not done and (inside or seen):       # (an unmapped address never terminates on a crossbar: no bus timeout)
            return {"instance": desc, "byte_address": A, "what": "request never terminated", "strobes": seen}
        if inside and not any(j == inside[0] for j, _ in seen):
            return {"instance": desc, "byte_address": A, "what": "byte address inside slave %d's region reached %r" % (inside[0], seen)}
        if not inside and seen:
            return {"instance": desc, "byte_address": A, "what": "unmapped byte address was presented: %r" % (seen,)}
    return None


_WIDTH_GRID = [(32, 64, (32, 32)), (32, 32, (64, 32, 128)), (64, 32, (64, 64)), (64, 64, (32, 128)), (64, 128, (32, 64)),
               (128, 32, (128, 32)), (128, 64, (64, 128, 32)), (128, 128, (32, 64))]


def _width_cases(ctx):
    dis, n = [], 0
    grid = [(b, m, s, ("shared", "crossbar")[i % 2]) for i, (b, m, s) in enumerate(_WIDTH_GRID)]
    if ctx.tier != "quick":
        grid += [(b, m, s, ("crossbar", "shared")[i % 2]) for i, (b, m, s) in enumerate(_WIDTH_GRID)]
    for (b, m, s, ic) in grid:
        w = _width_route(b, m, s, ic)
        n += 1
        ctx.cov.count("width_route_bus%d" % b)
        if w is not None:
            dis.append(dict(w, kind="monitor:" + w["what"], make={"kind": "width_route", "args": [b, m, list(s), ic]}))
            break
    ctx.cov.add_cases("add_adapter data-width converters: routing oracle on the real bus", n * 20, n * 20, exhaustive=False)
    return dis


def _rr_cases(ctx):
    """Migen RoundRobin (both policies) against `RoundRobin.next`, exhaustively for n <= 4 (every grant, request
    vector and ce): the shared Lean library is tied to the real primitive independently of the Wishbone fabric."""
    from migen.genlib.roundrobin import RoundRobin, SP_WITHDRAW, SP_CE
    from netlist import Netlist
    lines, expect = [], []
    nontriv = 0
    for pol in (SP_WITHDRAW, SP_CE):
        for n in (1, 2, 3, 4):
            rr = RoundRobin(n, pol)
            nl = Netlist(rr)
            root = nl.snapshot()
            for g in range(n):
                for req in range(1 << n):
                    for ce in ((0, 1) if pol == SP_CE else (1,)):
                        nl.restore(root)
                        if n > 1:
                            nl.ev.signal_values[rr.grant] = g
                        nl.set(rr.request, req)
                        if pol == SP_CE:
                            nl.set(rr.ce, ce)
                        nl.settle()
                        nl.tick()
                        g2 = nl.getu(rr.grant)
                        lines.append("rrnext %d %d %d %d %d" % (pol, n, g, ce, req))
                        expect.append(g2)
                        nontriv += g2 != g
    res = ctx.lean.call_batch(lines)
    dis = []
    for l, r, e in zip(lines, res, expect):
        if r.strip() != str(e):
            dis.append({"instance": "migen RoundRobin", "kind": "correspondence", "case": l, "impl": e, "model": r})
            if len(dis) >= 3:
                break
    ctx.cov.add_cases("migen RoundRobin vs RoundRobin.next (n<=4, both policies)", len(lines), nontriv, exhaustive=True)
    return dis


def _corpus(ctx, all_jobs):
    """Replay corpus/C06/*.json (past disagreements / witnesses) against model and monitor first."""
    import os, json, glob
    from runner import VERIF
    dis = []
    for path in sorted(glob.glob(os.path.join(VERIF, "corpus", "C06", "*.json"))):
        item = json.load(open(path))
        if item.get("kind") != "trace":
            continue
        inst = _make_from_spec(item["make"])
        trace = [tuple(l) for l in item["trace"]]
        ctx.lean.open(inst.lean_open)
        model = ctx.lean.run(trace)
        ctx.lean.close_session()
        from explore import _masked_equal
        for t, l in enumerate(trace):
            outs = impl_step(inst, l)
            if not _masked_equal(inst, outs, model[t]):
                dis.append(Disagreement(inst, trace[:t + 1], t, outs, model[t]))
                break
        if item.get("expect_monitor") is not None:
            inst2 = _make_from_spec(item["make"])
            r = replay_with_monitor(inst2, trace)
            fired = r is not None
            if fired != bool(item["expect_monitor"]):
                d = Disagreement(inst2, trace, len(trace) - 1, None, None,
                                 kind="monitor:corpus %s: monitor %s" % (os.path.basename(path),
                                                                          "fired: %s" % (r,) if fired else "did not fire"))
                d.make_spec = item["make"]
                dis.append(d)
        ctx.cov.add_cases("corpus " + os.path.basename(path), len(trace), len(trace))
    return dis


def _make_from_spec(spec):
    if spec.get("kind") == "socglue":
        return GlueBuild(spec["script"], **spec.get("kw", {})).fabric()
    if spec.get("kind") == "socbus":
        kw = dict(spec["kw"])
        kw["regions"] = [tuple(r) for r in kw["regions"]]
        if kw.get("extra_first"):
            kw["extra_first"] = tuple(kw["extra_first"])
        return make_socbus(**kw)
    decs = []
    for w in spec["decs"]:
        p = w.split(":")
        if p[0] == "all":
            decs.append(DecAll())
        elif p[0] == "hi":
            decs.append(DecHi(int(p[1]), int(p[2])))
        elif p[0] == "set":
            decs.append(DecSet([int(x) for x in p[1].split(",")]))
        else:
            decs.append(DecRegion(int(p[1]), int(p[2])))
    kw = dict(register=spec.get("register", False), data_width=spec.get("data_width", 8), adr_width=spec.get("adr_width", 2))
    if spec["kind"] == "shared":
        return make_shared(spec["n"], decs, timeout=spec.get("timeout"), **kw)
    return make_xbar(spec["n"], decs, **kw)


class _TimeLimit(Exception):
    pass


def _alarm(seconds):
    """(Re)arm a wall-clock limit for the current process: a hang while building or driving a changed implementation
    (e.g. a combinational loop that never settles) ends as an exception, which is reported as a disagreement."""
    import signal

    def handler(signum, frame):
        raise _TimeLimit("time limit of %d s exceeded" % seconds)
    signal.signal(signal.SIGALRM, handler)
    signal.setitimer(signal.ITIMER_REAL, seconds)


def _disarm():
    import signal
    signal.setitimer(signal.ITIMER_REAL, 0)


def _guard(what, fn, limit=300):
    """Run one serial step; an exception or a hang becomes a disagreement record instead of a crash."""
    import traceback
    try:
        _alarm(limit)
        return fn()
    except Exception as e:      # noqa: a broken implementation must end as a report
        return [{"instance": what, "kind": "exception", "what": "%s: %r" % (type(e).__name__, e),
                 "traceback": traceback.format_exc()[-1500:]}]
    finally:
        _disarm()


def _limited(job, limit):
    """Arm the per-instance time limit inside the worker that builds and runs the job."""
    mk = job.make

    def make():
        _alarm(limit)
        return mk()
    job.make = make
    return job


def correspond(ctx):
    ctx.rule = ("model/implementation correspondence cases; non-trivial = a strobe is presented to a slave or a "
                "master sees ack/err in that (state, input) pair; counted per distinct pair")
    ctx.jobs = jobs(ctx.tier, ctx.seed)
    dis = []
    dis += _guard("corpus", lambda: _corpus(ctx, ctx.jobs))
    dis += _guard("migen RoundRobin", lambda: _rr_cases(ctx))
    dis += _guard("SoCRegion.decoder", lambda: _region_decoder_cases(ctx))
    dis += _guard("SoCBusHandler.do_finalize topology", lambda: _topology_cases(ctx))
    dis += _guard("SoCBusHandler build scripts", lambda: _glue_cases(ctx))
    dis += _guard("SoCBusHandler.check_regions_overlap", lambda: _overlap_cases(ctx))
    dis += _guard("SoCBusHandler.add_remapper", lambda: _remap_cases(ctx))
    dis += _guard("SoCBusHandler.add_adapter converters", lambda: _width_cases(ctx))
    dis += _guard("selftest", lambda: _self_test(ctx))
    ctx.log("corpus, RoundRobin table, SoCRegion.decoder cases, self-test done; %d fabric jobs" % len(ctx.jobs))
    limit = 600 if ctx.tier == "quick" else 3000
    try:
        d2, bad = run_jobs(ctx, [_limited(j, limit) for j in jobs(ctx.tier, ctx.seed)])
        dis += d2
    except Exception as e:
        # a worker died: building or driving some instance raised (or hung).  Find the instance(s) and report.
        import traceback
        ctx.log("fabric jobs aborted: %r" % (e,))
        found = False
        for job in jobs(ctx.tier, ctx.seed):
            r = _guard("instance construction", lambda job=job: (job.make(), [])[1], limit=120)
            if r:
                dis += r
                found = True
                if len(dis) > 5:
                    break
        if not found:
            dis.append({"instance": "fabric jobs", "kind": "exception", "what": "%s: %r" % (type(e).__name__, e),
                        "traceback": traceback.format_exc()[-1500:]})
    na = sum(1 for i in ctx.cov.instances if i.get("mode") == "A")
    ctx.log("mode A: %d instances (%d exhaustive), mode B: %d runs" % (
        na, sum(1 for i in ctx.cov.instances if i.get("mode") == "A" and i.get("exhaustive")),
        sum(1 for i in ctx.cov.instances if i.get("mode") == "B")))
    return dis


def _self_test(ctx):
    """Sensitivity self-test: the comparison and the monitor must flag deliberately wrong answers."""
    from explore import _masked_equal
    inst = make_shared(2, MAPS[2][0][1], name="selftest")
    l = m_req(0, tag=0) + m_req(2, we=1, dat_w=2, tag=1) + s_ack(1) + s_silent(32)
    outs = impl_step(inst, l)
    bad = []
    wrong = list(outs)
    wrong[8 * 2 + 3] = 1          # ack delivered to master 1 as well
    if _masked_equal(inst, outs, wrong):
        bad.append("comparison did not flag an ack delivered to a second master")
    mon = inst.monitor()
    if mon.observe(l, outs) is not None:
        bad.append("monitor fired on a correct cycle")
    if mon.observe(l, wrong) is None:
        bad.append("monitor did not flag an ack delivered to a non-owner")
    wrong2 = list(outs)
    wrong2[8] = 1                 # slave 1 sees cyc although the owner addresses slave 0
    if inst.monitor().observe(l, wrong2) is None:
        bad.append("monitor did not flag a cycle presented to a second slave")
    ctx.cov.count("selftest_perturbations", 3)
    return [{"instance": "selftest", "kind": "harness-selftest", "what": b} for b in bad]


# ---------------------------------------------------------------------------------------------------------

def monitor_run(inst, rng, cycles):
    """Random run of the real code with the property monitor armed; returns (trace, msg) or None."""
    n = inst.netlist
    root = n.snapshot()
    mon = inst.monitor()
    trace = []
    res = None
    for t in range(cycles):
        letter = inst.gen(rng, t)
        outs = impl_step(inst, letter)
        trace.append(tuple(letter))
        m = mon.observe(letter, outs)
        if m:
            res = (trace, m)
            break
    n.restore(root)
    return res


def search(ctx, disagreements, proof_info):
    """Failing-input search on the real code with the model-independent FabricMonitor: (1) a monitor that fired
    during co-simulation, (2) disagreement traces replayed (and randomly extended) with the monitor armed,
    (3) protocol-following and random-letter runs of every instance."""
    deadline = time.time() + (60 if ctx.tier == "quick" else 600)
    all_jobs = getattr(ctx, "jobs", None) or jobs(ctx.tier, ctx.seed)
    best = None
    for d in disagreements:
        kind = getattr(d, "kind", None) or (d.get("kind") if isinstance(d, dict) else "")
        if not kind.startswith("monitor:"):
            continue
        if isinstance(d, dict):
            return dict(d, letter_format=FMT)
        cand = {"instance": d.inst_name, "trace": [list(l) for l in d.trace], "monitor": kind[8:], "letter_format": FMT}
        if getattr(d, "make_spec", None):
            cand["make"] = d.make_spec
            inst = _make_from_spec(d.make_spec)
            r = replay_with_monitor(inst, [tuple(l) for l in d.trace])
            if r:
                cand["trace"] = [list(l) for l in d.trace[:r[0] + 1]]
                cand["monitor"] = r[1]
        j = getattr(d, "job", None)
        if j is not None and time.time() < deadline:
            # minimise: drop cycles while the monitor still fires on the real code
            inst = all_jobs[j].make()
            tr = shrink(inst, [tuple(l) for l in d.trace])
            r = replay_with_monitor(inst, tr)
            if r:
                cand["trace"] = [list(l) for l in tr[:r[0] + 1]]
                cand["monitor"] = r[1]
        if best is None or len(cand["trace"]) < len(best["trace"]):
            best = cand
        if len(best["trace"]) <= 4:
            break
    if best is not None:
        return best
    by_job = {}
    for d in disagreements:
        if not isinstance(d, dict):
            by_job.setdefault(getattr(d, "job", None), []).append(d)
    order = [j for j in by_job if j is not None] + [j for j in range(len(all_jobs)) if j not in by_job]
    rng = ctx.rng
    for rnd in range(3):
        for j in order:
            if time.time() > deadline:
                return None
            try:
                inst = all_jobs[j].make()
            except Exception:
                continue            # cannot be built on this tree (already reported as an exception disagreement)
            for d in by_job.get(j, []) if rnd == 0 else []:
                r = replay_with_monitor(inst, d.trace)
                if r:
                    return {"instance": inst.name, "trace": [list(l) for l in d.trace[:r[0] + 1]], "monitor": r[1],
                            "letter_format": FMT}
            gens = [None]
            if inst.alphabet:
                gens.append(_Walk)
            for g in gens:
                if g is not None:
                    inst.env_factory = g
                try:
                    _alarm(120)
                    r = monitor_run(inst, rng, 600 if j in by_job else 300)
                except Exception:
                    r = None
                finally:
                    _disarm()
                if r:
                    trace, msg = r
                    trace = shrink(inst, trace)
                    r2 = replay_with_monitor(inst, trace)
                    return {"instance": inst.name, "trace": [list(l) for l in trace],
                            "monitor": r2[1] if r2 else msg, "letter_format": FMT}
    return None


def _probe_listed(ctx, fid, still, what, out):
    if not any(e.get("id") == fid for e in ctx.known):
        # not (yet) listed in known_findings.json: recorded in the evidence notes only
        ctx.cov.notes.append("finding %s %s: %s" % (fid, "reproduces" if still else "does not reproduce", what))
        ctx.log("note: %s (not listed in known_findings.json) %s" % (fid, "reproduces" if still else "does not reproduce"))
    else:
        out.append((fid, still, what))


def probes(ctx):
    try:
        _alarm(300)
        return _probes(ctx)
    finally:
        _disarm()


def _probes(ctx):
    out = []
    # 1. Decoder(register=True) returns the previously selected slave's data to a 0-latency ack (documented).
    fails = []
    for mk in (make_shared, make_xbar):
        inst = mk(1, MAPS[2][0][1], register=True)
        o0 = impl_step(inst, m_req(2) + s_silent(0x99) + s_ack(0x42))
        o1 = impl_step(inst, m_req(0) + s_ack(0x17) + s_silent(0x42))
        m0 = split_outs(o0, 1, 2)[1][0]
        m1 = split_outs(o1, 1, 2)[1][0]
        fails.append((m0[0] == 1 and m0[2] != 0x42) or (m1[0] == 1 and m1[2] != 0x17))
        what = "read of slave1 acked with dat_r=%#x (slave drove 0x42); next read of slave0 acked with %#x (slave drove 0x17)" % (m0[2], m1[2])
    _probe_listed(ctx, "C06-registered-decoder-0-latency", any(fails), what, out)
    # 2./3. SoCBusHandler.do_finalize wires point-to-point (no decoder) although the slave's region does not cover
    #       the address space: a cycle at byte address 0x2000, outside the region, is presented to the slave.
    for fid, kw in (("C06-p2p-partial-region-origin0", dict(n=1, regions=[(0, 0x1000)], timeout=8)),
                    ("C06-p2p-first-region-not-slave", dict(n=1, regions=[(0x10000000, 0x1000)], timeout=8,
                                                            extra_first=(0, 0x1000)))):
        inst = make_socbus(**kw)
        letter = m_req(0x2000 >> 2, sel=0xf) + s_silent(0)
        outs = impl_step(inst, letter)
        seen = split_outs(outs, 1, 1)[0][0][0]
        msg = inst.monitor().observe(letter, outs)
        what = "%s: topology %s, cycle at 0x2000 (outside the region) %s the slave%s" % (
            inst.name, inst.topology, "reaches" if seen else "does not reach", "; monitor: " + msg if msg else "")
        _probe_listed(ctx, fid, bool(seen), what, out)
    return out


def replay(ctx, payload):
    """`./check C06 --replay FILE`: re-execute the failing input on the real code with the property oracle."""
    fi = payload.get("failing_input") or {}
    name = fi.get("instance")
    if name == "SoCRegion.decoder" and "case" in fi:
        from migen import Signal
        from litex.soc.integration.soc import SoCRegion
        from litex.soc.interconnect import wishbone
        from litex.gen.sim.core import Evaluator
        origin, size, dw, aw, adr = fi["case"]
        bus = wishbone.Interface(data_width=dw, address_width=aw)
        a = Signal(bus.adr_width)
        ev = Evaluator({}, {})
        ev.signal_values[a] = adr
        r = SoCRegion(origin=origin, size=size).decoder(bus)(a)
        val = 1 if r is True else int(bool(ev.eval(r)))
        p2 = 1 << (size - 1).bit_length()
        spec = 1 if origin <= adr * (dw // 8) < origin + p2 else 0
        print("SoCRegion(origin=%#x, size=%#x).decoder at word address %#x: code %d, specification %d" % (origin, size, adr, val, spec))
        if val != spec:
            print("VIOLATION property=%s replay=(replayed)" % ctx.prop)
            return 1
        return 0
    if name == "SoCBusHandler.check_regions_overlap" and "regions" in fi:
        from litex.soc.integration import soc as S
        l = [tuple(t) for t in fi["regions"]]
        bus = S.SoCBusHandler(standard="wishbone", data_width=32, address_width=32)
        r = bus.check_regions_overlap({"r%d" % i: S.SoCRegion(origin=o, size=sz, linker=bool(lk)) for i, (o, sz, lk) in enumerate(l)})
        a, b = fi["pair"]
        word = fi["byte_address"] >> 2
        da, db = _eval_decoder(l[a][0], l[a][1], word), _eval_decoder(l[b][0], l[b][1], word)
        print("check_regions_overlap(%s) -> %r; SoCRegion.decoder of regions %d and %d at word %#x: %r %r" % (
            ["%#x+%#x%s" % (o, sz, " linker" if lk else "") for o, sz, lk in l], r, a, b, word, da, db))
        if r is None and da and db:
            print("VIOLATION property=%s replay=(replayed)" % ctx.prop)
            return 1
        return 0
    if (fi.get("make") or {}).get("kind") == "width_route":
        b, m, sd, ic = fi["make"]["args"]
        w = _width_route(b, m, tuple(sd), ic, words=[fi["byte_address"]])
        print(w or "byte address %#x is routed correctly on the current tree" % fi["byte_address"])
        if w:
            print("VIOLATION property=%s replay=(replayed)" % ctx.prop)
        return 1 if w else 0
    if (fi.get("make") or {}).get("kind") == "socglue" and "trace" not in fi:
        gb = GlueBuild(fi["make"]["script"], **fi["make"].get("kw", {}))
        print("%s -> %s" % (gb.describe(), gb.summary()))
        w = gb.overlap_witness() if gb.verdict == "ok" else None
        if w is not None:
            w.update(_glue_demo(GlueBuild(fi["make"]["script"], **fi["make"].get("kw", {})), w) if gb.n else {})
            print("accepted map with overlapping decoder windows:", w)
            print("VIOLATION property=%s replay=(replayed)" % ctx.prop)
            return 1
        print("build script no longer yields an overlapping accepted map on the current tree")
        return 0
    if not name or "trace" not in fi:
        print("replay file carries no failing trace; content:", {k: fi.get(k) for k in fi} or payload.get("disagreements", [])[:2])
        return 1
    trace = [tuple(l) for l in fi["trace"]]
    insts = []
    if fi.get("make"):
        insts.append(_make_from_spec(fi["make"]))
    else:
        for tier in ("quick", "thorough"):
            for job in jobs(tier, payload.get("seed", 0)):
                inst = job.make()
                if inst.name == name:
                    insts.append(inst)
                    break
            if insts:
                break
    if not insts:
        print("instance %r not found" % name)
        return 2
    r = replay_with_monitor(insts[0], trace)
    if r:
        print("cycle %d: %s" % r)
        print("VIOLATION property=%s replay=(replayed)" % ctx.prop)
        return 1
    print("trace no longer violates the property on the current tree")
    return 0
