"""C08 — AXI-Lite (and AXI) interconnect keeps grants and routes until every response has returned.

Real code: litex/soc/interconnect/axi/axi_lite.py (_AXILiteRequestCounter, AXILiteArbiter, AXILiteDecoder,
AXILiteInterconnectShared, AXILiteCrossbar, AXILiteInterconnectPointToPoint), axi_full.py twins, migen RoundRobin
(SP_CE).  Model: lean/LitexModel/Axi/Lite{Counter,Arbiter,Decoder,Interconnect}.lean.
Letters/outputs, environments and the property monitor: harness/axilib.py.

Mode A (exhaustive product exploration) — how the five-channel product alphabet is pruned:
  * The fabric is explored one direction at a time (write letters with the read channels idle, read letters with the
    write channels idle): the two directions share no register, so the reachable joint state space is the product of
    the two and every joint state is reached by a write-only prefix followed by a read-only suffix.  That the two
    directions do not influence each other *within a cycle* is checked separately by "joint" instances whose alphabet
    is protocol-shaped single-direction letters plus a seeded random sample of the write x read product.
  * Per direction the letters are the full product of independent per-port choices (see axilib.small_parts):
    master: address idle (each idle address value) / presenting (each address), data idle/valid, response-ready 0/1;
    slave: address-ready 0/1, data-ready 0/1, response idle/valid [AXI4 read: last 0/1].  `level 1` drops
    back-pressure on a busy master and responses of a non-ready slave (quick tier, larger shapes).
  * Arbitrary (also non-AXI) sequences of these letters are explored — valid may be withdrawn, responses may come
    unrequested: a superset of the AXI-legal schedules.  A slave stops accepting addresses once it holds `limit`
    unanswered requests (the limiter is part of the explored state; the model receives the effective letter), which
    bounds the 8-bit counters; the counter itself is compared exhaustively (all 256 values) as a pure function.
Mode B: 32-bit fabrics up to 3x3 / 4x2 with SoCRegion address maps, AXI-legal masters (up to 8 outstanding, data
before/with/after the address, back-pressure) and slaves (any acceptance order, random latency), AXI4 bursts of
1..4 beats; the property monitor is armed.  Runs outside the two hypotheses (and non-AXI garbage) are co-simulated
for the model correspondence only.
"""
import os, json, glob, random, time
from explore import Job, run_jobs, Disagreement, impl_step, replay_with_monitor, shrink, _masked_equal
import axilib as X
from axilib import (make_shared, make_xbar, make_arb, make_dec, make_p2p, make_soc_bus, small_alphabet, small_parts, joint_sample,
                    product_letters, m_part, s_part, split_outs, split_letter, AxiEnv, WalkEnv, AxiMonitor,
                    NM, NS, AWV, AWA, AWP, WV, WP, BR, ARV, ARA, ARP, RR, AWR, WR, BV, BP, ARR, RV, RL, RP)
from wblib import DecAll, DecHi, DecSet, DecRegion
import c08lib
from c08lib import make_soc_axi

FMT = ("per master: aw.valid aw.addr aw.pay w.valid w.pay b.ready ar.valid ar.addr ar.pay r.ready; per slave: aw.ready "
       "w.ready b.valid b.pay ar.ready r.valid r.last r.pay  (outputs: per slave the 10 master-side numbers it sees, "
       "per master the 8 slave-side numbers it sees; *.pay = pass-through payload packed LSB first, see harness/axilib.py)")

F_ADDR = "C08-decoder-second-addr-other-slave"
F_WDATA = "C08-decoder-w-before-aw"
F_GAP = "C08-arbiter-w-then-idle-gap"
F_ID = "C08-axi-interconnect-id-truncated"
F_SAT = c08lib.F_SAT

# address maps on a 2-bit byte address, 8-bit data (word address = byte address)
MAPS = {
    1: [("all", [DecAll()], (0, 2)), ("half", [DecHi(1, 0)], (0, 2))],
    2: [("cover", [DecHi(1, 0), DecHi(1, 1)], (0, 2)), ("hole", [DecSet([0]), DecSet([2, 3])], (0, 1, 2))],
    3: [("cover", [DecSet([0]), DecSet([1]), DecHi(1, 1)], (0, 1, 2)), ("hole", [DecSet([0]), DecSet([1]), DecSet([2])], (0, 1, 2, 3))],
}
OVERLAP = [DecAll(), DecHi(1, 1)]      # not disjoint: outside the theorems' hypothesis, the model must still agree


def _region_map(rng, m):
    """m disjoint SoCRegion-style regions (origin aligned on size_pow2) in a 32-bit space."""
    sizes = [0x1000, 0x2000, 0x3000, 0x10000, 0x800, 0x100000, 0x4000_0000, 0x600]
    out, used = [], []
    while len(out) < m:
        size = rng.choice(sizes)
        p2 = 1 << (size - 1).bit_length()
        origin = rng.randrange(0, (1 << 32) // p2) * p2
        if any(origin < o + s and o < origin + p2 for o, s in used):
            continue
        used.append((origin, p2))
        out.append(DecRegion(origin, size))
    return out


class _Deadline:
    """Relative deadline for `explore.coexplore` (which compares `time.time() > deadline`): the clock starts at the
    first comparison, i.e. when the exploration starts in its worker, not when the job list is built."""
    def __init__(self, budget_s):
        self.budget_s = budget_s
        self.end = None

    def __lt__(self, now):
        if self.end is None:
            self.end = now + self.budget_s
        return self.end < now


def _checked(mk, seed):
    """Build the instance and tie its compiled evaluator to the repository's Evaluator before using it."""
    def make():
        inst = c08lib.arm(mk())      # histories with >= 256 unanswered requests are classified under the open finding
        bad = inst.crosscheck(random.Random(seed), 120 if inst.n * inst.m <= 4 else 60)
        if bad:
            raise RuntimeError("compiled evaluator disagrees with litex.gen.sim.core.Evaluator on %s: %s" % (inst.name, bad))
        return inst
    return make


def _joint_alphabet(n, m, addrs, full, seed, count):
    rng = random.Random(seed * 7 + n * 31 + m)
    core = small_alphabet(n, m, addrs=addrs, direction="w", full=full, level=1) + \
           small_alphabet(n, m, addrs=addrs, direction="r", full=full, level=1)
    if len(core) > 1200:
        core = rng.sample(core, 1200)
    return core + joint_sample(n, m, rng, count, addrs=addrs, full=full)


def jobs(tier, seed=0):
    quick = tier == "quick"
    rng = random.Random(seed * 104729 + 8)
    J = []
    cap = 50000 if quick else 400000
    LIM = 2

    budget = 150 if quick else 300      # no single exploration may run away (it is then recorded as not exhaustive)

    heavy = ("2x2 cover w", "joint", "1->3", "3->1 w", "Crossbar 2x2", "3x3", "3x2", "2x3")
    PRIO = {}

    def A(name, mk, alpha, limit=LIM, **kw):
        J.append(Job("A", _checked(lambda: mk(name=name, alphabet=alpha(), limit=limit, **kw), seed),
                     max_states=cap, deadline=_Deadline(budget)))
        PRIO[id(J[-1])] = 0 if any(h in name for h in heavy) else 1     # long explorations are started first

    def B(name, mk, cycles=None, **kw):
        J.append(Job("B", _checked(lambda: mk(name=name, **kw), seed), cycles=cycles or (3000 if quick else 30000),
                     runs=1 if quick else 3))

    # ---- mode A ---------------------------------------------------------------------------------------------
    A("AXILitePointToPoint joint", lambda **k: make_p2p(**k),
      lambda: _joint_alphabet(1, 1, (0, 2), False, seed, 400))
    A("AXIPointToPoint joint", lambda **k: make_p2p(full=True, **k),
      lambda: _joint_alphabet(1, 1, (0, 2), True, seed, 400))
    for full in (False, True):
        T = X._tag(full)
        for d in ("w", "r"):
            # arbiter alone
            for n in (1, 2, 3):
                if full and n == 3 and quick:
                    continue
                lvl = 2 if (n <= 2 or (not quick) or d == "r") else 1
                A("%sArbiter %d->1 %s a%d" % (T, n, d, lvl), lambda n=n, full=full, **k: make_arb(n, full=full, **k),
                  lambda n=n, d=d, full=full, lvl=lvl: small_alphabet(n, 1, direction=d, full=full, level=lvl))
            # decoder alone
            for m in (1, 2, 3):
                for mapname, decs, addrs in MAPS[m]:
                    if quick and (m == 3 or full) and mapname != MAPS[m][0][0]:
                        continue
                    if quick and full and m == 3:
                        continue
                    A("%sDecoder 1->%d %s %s a2" % (T, m, mapname, d),
                      lambda decs=decs, full=full, **k: make_dec(decs, full=full, **k),
                      lambda m=m, d=d, full=full, addrs=addrs: small_alphabet(1, m, addrs=addrs, direction=d, full=full))
            # shared and crossbar
            for (n, m) in ((1, 2), (2, 1), (2, 2), (3, 2), (2, 3), (3, 3)):
                big = n * m > 4
                if big and (quick or full):
                    continue            # 3x2 / 2x3 / 3x3: thorough tier (AXI-Lite), level 1 / sampled
                for mapname, decs, addrs in MAPS[m]:
                    if mapname != MAPS[m][0][0] and (quick or big):
                        continue
                    for kind, mk in (("Shared", make_shared), ("Crossbar", make_xbar)):
                        if d == "r":
                            lvl = 2 if not big else 1
                        elif n * m <= 2:
                            lvl = 2
                        elif n * m == 4:
                            lvl = 2 if (kind == "Shared" and not full) or not quick else 1
                            if kind == "Crossbar" and mapname == "hole":
                                lvl = 1         # 24576 letters x ~90 states at level 2
                        else:
                            lvl = 1
                        if quick and full and kind == "Crossbar":
                            if d == "w":
                                continue
                            lvl = 1
                        name = "%s%s %dx%d %s %s a%d" % (T, kind, n, m, mapname, d, lvl)
                        if big:
                            # the level-1 product is still large: protocol-shaped sample of it
                            A(name + " sampled", lambda n=n, decs=decs, full=full, mk=mk, **k: mk(n, decs, full=full, **k),
                              lambda n=n, m=m, d=d, full=full, addrs=addrs, lvl=lvl:
                                  random.Random(seed * 13 + n * 5 + m).sample(
                                      small_alphabet(n, m, addrs=addrs, direction=d, full=full, level=lvl),
                                      6000 if mk is make_shared else (1200 if n * m < 9 else 500)))
                        else:
                            A(name, lambda n=n, decs=decs, full=full, mk=mk, **k: mk(n, decs, full=full, **k),
                              lambda n=n, m=m, d=d, full=full, addrs=addrs, lvl=lvl:
                                  small_alphabet(n, m, addrs=addrs, direction=d, full=full, level=lvl))
        # both directions active in the same cycle
        for kind, mk in (("Shared", make_shared), ("Crossbar", make_xbar)):
            if quick and (full or kind == "Crossbar"):
                continue
            _, decs, addrs = MAPS[2][0]
            cnt = 300 if quick else (4000 if kind == "Shared" else 500)
            A("%s%s 2x2 cover joint (single-direction core + %d sampled write x read letters)" % (T, kind, cnt),
              lambda decs=decs, full=full, mk=mk, **k: mk(2, decs, full=full, **k),
              lambda full=full, addrs=addrs, cnt=cnt: _joint_alphabet(2, 2, addrs, full, seed, cnt),
              limit=1 if kind == "Crossbar" else LIM)
    # crossbar given a timeout argument (accepted and ignored by the code), limit 3
    A("AXILiteCrossbar 2x1 all r a2 timeout_cycles=4", lambda **k: make_xbar(2, MAPS[1][0][1], timeout_arg=4, **k),
      lambda: small_alphabet(2, 1, direction="r"))
    A("AXILiteShared 2x2 cover r a2 limit=3", lambda **k: make_shared(2, MAPS[2][0][1], **k),
      lambda: small_alphabet(2, 2, direction="r"), limit=3)

    # ---- mode B ---------------------------------------------------------------------------------------------
    shapes = [(3, 3), (2, 3), (4, 2)] if quick else [(3, 3), (2, 3), (4, 2), (1, 4), (4, 4), (3, 1)]
    for (n, m) in shapes:
        decs = _region_map(rng, m)
        mapw = " ".join(d.word() for d in decs)
        for full in (False, True):
            T = X._tag(full)
            for kind, mk in (("Shared", make_shared), ("Crossbar", make_xbar)):
                B("%s%s %dx%d regions/32b [%s]" % (T, kind, n, m, mapw),
                  lambda n=n, decs=decs, full=full, mk=mk, **k: mk(n, decs, full=full, data_width=32, address_width=32, **k))
                if (n, m) == shapes[0] or not quick:
                    B("%s%s %dx%d regions/32b outside the hypotheses [%s]" % (T, kind, n, m, mapw),
                      lambda n=n, decs=decs, full=full, mk=mk, **k: mk(n, decs, full=full, data_width=32, address_width=32,
                                                                      domain=False, **k))
    # one-slave fabrics: data may be handed over before its address is presented (arbiter-level early-data handling)
    # (one slave owning the whole address space: SoCRegion(0, 4 GiB).decoder is `lambda a: True`)
    d1 = [DecRegion(0, 1 << 32)]
    for (n, full) in ((2, False), (3, False), (2, True)):
        for kind, mk in (("Shared", make_shared), ("Crossbar", make_xbar)):
            B("%s%s %dx1 early data/32b [%s]" % (X._tag(full), kind, n, d1[0].word()),
              lambda n=n, full=full, mk=mk, **k: mk(n, d1, full=full, data_width=32, address_width=32, **k))
    # 64-bit data with 32-bit addresses (byte -> word shift 3), boundary addresses of every region
    d64 = _region_map(rng, 2)
    B("AXILiteShared 2x2 regions/64b [%s]" % " ".join(d.word() for d in d64),
      lambda **k: make_shared(2, d64, data_width=64, address_width=32, **k))
    d64b = _region_map(rng, 3)
    B("AXILiteCrossbar 2x3 regions/64b [%s]" % " ".join(d.word() for d in d64b),
      lambda **k: make_xbar(2, d64b, data_width=64, address_width=32, **k))
    B("AXIShared 3x3 regions/64b [%s]" % " ".join(d.word() for d in d64b),
      lambda **k: make_shared(3, d64b, full=True, data_width=64, address_width=32, **k))
    # ---- parameter corners and glue (hardening audit) -------------------------------------------------------------
    # through soc.SoCBusHandler (class selection, SoCRegion.decoder, interconnect_register=True, timeout=1e6)
    soc_regions = [(0x10000000, 0x1000), (0x40000000, 0x10000), (0x80000000, 0x3000)]
    # (the MODEL of these instances is chosen by the Lean side: `open socaxi` = SocAxi.fabric over b-c06's busTopology,
    # incl. the AXI(Lite)Timeout FSM with timeout_cycles = 1e6 in the shared interconnect)
    B("SoCBusHandler axi-lite shared 2x3/32b", lambda **k: make_soc_axi(2, soc_regions, "shared", **k))
    B("SoCBusHandler axi-lite crossbar 3x2/32b", lambda **k: make_soc_axi(3, soc_regions[:2], "crossbar", **k))
    B("SoCBusHandler axi shared 2x2/64b", lambda **k: make_soc_axi(2, soc_regions[1:], "shared", full=True, data_width=64, **k))
    B("SoCBusHandler axi-lite 1x1 origin 0 (point-to-point)/32b", lambda **k: make_soc_axi(1, [(0, 0x10000)], "shared", **k))
    B("SoCBusHandler axi crossbar 1x1 origin 0x1000 (not point-to-point)/32b",
      lambda **k: make_soc_axi(1, [(0x1000, 0x1000)], "crossbar", full=True, **k))
    B("SoCBusHandler axi 1x1 origin 0 whole space (point-to-point)/32b",
      lambda **k: make_soc_axi(1, [(0, 1 << 32)], "crossbar", full=True, **k))
    B("SoCBusHandler axi-lite shared 1x2 first origin 0 (decoded)/32b",
      lambda **k: make_soc_axi(1, [(0, 0x1000), (0x40000000, 0x2000)], "shared", **k))
    B("SoCBusHandler axi-lite shared 2x1 origin 0 (decoded), no timeout/32b",
      lambda **k: make_soc_axi(2, [(0, 0x10000)], "shared", timeout=None, **k))
    dcor = [DecRegion(0, 0x10000), DecRegion(0x90000000, 0x3000)]
    wcor = " ".join(d.word() for d in dcor)
    # class-default timeout (1e6 cycles: the AXI(Lite)Timeout must stay invisible), register=True (accepted, unused)
    B("AXILiteShared 2x2 default timeout_cycles/32b [%s]" % wcor,
      lambda **k: make_shared(2, dcor, timeout="default", data_width=32, address_width=32, **k))
    B("AXIShared 3x2 default timeout_cycles register=True/32b [%s]" % wcor,
      lambda **k: make_shared(3, dcor, full=True, timeout="default", register=True, data_width=32, address_width=32, **k))
    # small finite bus timeouts on a HEALTHY bus (every slave stall shorter than the timeout; back-to-back reads and
    # writes keep ARVALID/AWVALID high far longer than the timeout): the watchdog must never fire — no SLVERR, every
    # accepted request at its slave (the model has no Timeout: any firing is also a correspondence break)
    for (t, full) in ((4, False), (8, False), (16, False), (8, True)):
        B("%sShared 3x2 timeout_cycles=%d healthy bus/32b [%s]" % (X._tag(full), t, wcor),
          lambda t=t, full=full, **k: make_shared(3, dcor, full=full, timeout=t, data_width=32, address_width=32,
                                                  env_kw={"max_stall": t - 2}, **k))
    # the same fabrics on an UNHEALTHY bus (slaves stall at will: the watchdog fires, fakes handshakes and answers
    # SLVERR / all-ones): model = shared interconnect composed with the Timeout FSM, compared port by port; the routing
    # monitor is off (the fabric answers in place of the slaves by design — property C11)
    for (t, full) in ((4, False), (8, True)):
        B("%sShared 3x2 timeout_cycles=%d firing/32b [%s]" % (X._tag(full), t, wcor),
          lambda t=t, full=full, **k: make_shared(3, dcor, full=full, timeout=t, data_width=32, address_width=32,
                                                  domain=False, monitored=False, **k))
    B("AXILiteCrossbar 2x2 register=True/32b [%s]" % wcor,
      lambda **k: make_xbar(2, dcor, register=True, data_width=32, address_width=32, **k))
    # data widths 16 and 128 (byte -> word shifts 1 and 4), masters with different address widths (bus = the widest)
    B("AXILiteShared 2x2/16b [%s]" % wcor, lambda **k: make_shared(2, dcor, data_width=16, address_width=32, **k))
    B("AXILiteCrossbar 2x2/128b [%s]" % wcor, lambda **k: make_xbar(2, dcor, data_width=128, address_width=32, **k))
    B("AXIShared 2x2/128b [%s]" % wcor, lambda **k: make_shared(2, dcor, full=True, data_width=128, address_width=32, **k))
    B("AXILiteShared 3x2 master address widths 32,20,32/32b [%s]" % wcor,
      lambda **k: make_shared(3, dcor, data_width=32, address_width=32, m_address_widths=[32, 20, 32], **k))
    B("AXILiteCrossbar 3x2 master address widths 20,32,24/32b [%s]" % wcor,
      lambda **k: make_xbar(3, dcor, data_width=32, address_width=32, m_address_widths=[20, 32, 24], **k))
    # id_width > 1: the AXI4 fabrics truncate IDs to the default width of their internal interfaces (finding F_ID, probed
    # below); the instance joins the grid once that finding is recorded as fixed
    from runner import load_known
    if any(e.get("id") == F_ID and e.get("status") == "fixed" for e in load_known("C08")):
        B("AXICrossbar 2x2 id_width=4/32b [%s]" % wcor,
          lambda **k: make_xbar(2, dcor, full=True, id_width=4, data_width=32, address_width=32, **k))
        B("AXIShared 2x2 id_width=4/32b [%s]" % wcor,
          lambda **k: make_shared(2, dcor, full=True, id_width=4, data_width=32, address_width=32, **k))
    B("AXILitePointToPoint/32b", lambda **k: make_p2p(data_width=32, address_width=32, **k))
    B("AXIPointToPoint/64b", lambda **k: make_p2p(full=True, data_width=64, address_width=32, **k))
    B("AXILiteArbiter 3->1/32b", lambda **k: make_arb(3, data_width=32, address_width=32, **k))
    B("AXIDecoder 1->3 regions/32b", lambda **k: make_dec(_region_map(random.Random(seed + 5), 3), full=True, data_width=32,
                                                        address_width=32, **k))
    # the same through the repository's Evaluator itself (no compiled evaluator), shorter
    B("AXILiteShared 2x2 regions/32b (Evaluator)", lambda **k: make_shared(2, d64, data_width=32, address_width=32, fast=False, **k),
      cycles=400 if quick else 3000)
    B("AXICrossbar 2x2 regions/32b (Evaluator)", lambda **k: make_xbar(2, d64, full=True, data_width=32, address_width=32, fast=False, **k),
      cycles=250 if quick else 2000)
    # arbitrary (non-AXI) random letters on shapes too large for exhaustive exploration
    B("AXILiteCrossbar 3x3 cover walk", lambda **k: make_xbar(3, MAPS[3][0][1], domain=False, env=WalkEnv,
                                                             alphabet=_joint_alphabet(3, 3, MAPS[3][0][2], False, seed, 4000), **k),
      cycles=6000 if quick else 60000)
    B("AXIShared 3x3 cover walk", lambda **k: make_shared(3, MAPS[3][0][1], full=True, domain=False, env=WalkEnv,
                                                         alphabet=_joint_alphabet(3, 3, MAPS[3][0][2], True, seed, 4000), **k),
      cycles=6000 if quick else 60000)
    # overlapping decoders (outside every theorem's hypothesis; the per-slave limiter does not bound the counters
    # there, so random walks instead of exhaustive exploration): the model must still agree
    B("AXILiteShared 2x2 overlap walk", lambda **k: make_shared(2, OVERLAP, domain=False, monitored=False, env=WalkEnv,
                                                               alphabet=_joint_alphabet(2, 2, (0, 2), False, seed, 2000), **k),
      cycles=6000 if quick else 60000)
    B("AXICrossbar 2x2 overlap walk", lambda **k: make_xbar(2, OVERLAP, full=True, domain=False, monitored=False, env=WalkEnv,
                                                           alphabet=_joint_alphabet(2, 2, (0, 2), True, seed, 2000), **k),
      cycles=6000 if quick else 60000)
    J.sort(key=lambda j: PRIO.get(id(j), 2))        # stable: heavy mode-A jobs, other mode-A jobs, mode-B jobs
    return J


# ---------------------------------------------------------------------------------------------------------
# pure-function ties

def _counter_cases(ctx):
    """_AXILiteRequestCounter / _AXIRequestCounter against `ctrNext`: every counter value, request and response
    (the saturation branch at 255 is not reachable in mode A)."""
    from migen import Signal
    from netlist import Netlist
    from litex.soc.interconnect.axi import axi_lite, axi_full
    dis = []
    for modname, cls in (("axi_lite._AXILiteRequestCounter", axi_lite._AXILiteRequestCounter),
                         ("axi_full._AXIRequestCounter", axi_full._AXIRequestCounter)):
        rq, rs = Signal(), Signal()
        c = cls(rq, rs)
        nl = Netlist(c)
        root = nl.snapshot()
        lines, expect = [], []
        nontriv = 0
        for val in range(256):
            for a in (0, 1):
                for b in (0, 1):
                    nl.restore(root)
                    nl.ev.signal_values[c.counter] = val
                    nl.set(rq, a)
                    nl.set(rs, b)
                    nl.settle()
                    flags = (nl.getu(c.full), nl.getu(c.empty), nl.getu(c.ready))
                    if flags != (int(val == 255), int(val == 0), int(val == 0)):
                        dis.append({"instance": modname, "kind": "monitor:counter flags", "case": [val, a, b], "impl": flags})
                    nl.tick()
                    v2 = nl.getu(c.counter)
                    lines.append("ctrnext %d %d %d" % (val, a, b))
                    expect.append(v2)
                    nontriv += v2 != val
        res = ctx.lean.call_batch(lines)
        for l, r, e in zip(lines, res, expect):
            if r.strip() != str(e):
                dis.append({"instance": modname, "kind": "correspondence", "case": l, "impl": e, "model": r})
                if len(dis) >= 3:
                    break
        ctx.cov.add_cases(modname + " vs ctrNext (all 256 values x request x response)", len(lines), nontriv, exhaustive=True)
    return dis


def _saturation_case(ctx):
    """The counters inside a fabric up to and beyond their maximum: 258 write addresses accepted without a response
    (the 256th and later are not counted, as coded), then 258 responses — model and code in lock step, every port."""
    dis = []
    for mk, label in ((lambda: make_shared(1, [DecAll()], data_width=32, address_width=32), "AXILiteShared 1x1"),
                      (lambda: make_xbar(2, [DecAll()], full=True, data_width=32, address_width=32), "AXICrossbar 2x1")):
        inst = mk()
        n = inst.n
        idle = [m_part() for _ in range(n - 1)]
        trace = []
        for k in range(258):
            trace.append(tuple(sum([m_part(aw=(4 * k & 0xffff, 1), ar=(8 * k & 0xffff, 2))] + idle, ()) +
                               s_part(aw_ready=1, ar_ready=1)))
        for k in range(258):
            trace.append(tuple(sum([m_part(b_ready=1, r_ready=1)] + idle, ()) + s_part(b=k & 3, r=(1, k & 0xff))))
        trace.append(tuple(sum([m_part(aw=(0x10, 1), w=5)] + [m_part(aw=(0x20, 2))] * (n - 1), ()) + s_part(aw_ready=1, w_ready=1)))
        trace.append(trace[-1])
        ctx.lean.open(inst.lean_open)
        model = ctx.lean.run(trace)
        ctx.lean.close_session()
        for t, l in enumerate(trace):
            outs = impl_step(inst, l)
            if not _masked_equal(inst, outs, model[t]):
                dis.append(Disagreement(inst, trace[:t + 1], t, outs, model[t]))
                break
        ctx.cov.add_cases("counter saturation inside " + label, len(trace), len(trace))
    # the run of the Lean witness `axl_counter_saturation_witness` on the real netlist: master 0 gets 256 read addresses
    # accepted, 255 are answered, master 1 asks, the 256th response arrives
    inst = make_shared(2, [DecAll()], data_width=32, address_width=32)
    idle = m_part()
    trace = [tuple(m_part(ar=(4 * k & 0xffff, 2)) + idle + s_part(ar_ready=1)) for k in range(256)]
    trace += [tuple(m_part(r_ready=1) + idle + s_part(r=(1, k & 0xff))) for k in range(255)]
    trace += [tuple(idle + m_part(ar=(0x40, 2)) + s_part())]
    trace += [tuple(m_part(r_ready=1) + m_part(ar=(0x40, 2), r_ready=1) + s_part(r=(1, 0x99)))]
    ctx.lean.open(inst.lean_open)
    model = ctx.lean.run(trace)
    ctx.lean.close_session()
    outs = None
    for t, l in enumerate(trace):
        outs = impl_step(inst, l)
        if not _masked_equal(inst, outs, model[t]):
            dis.append(Disagreement(inst, trace[:t + 1], t, outs, model[t]))
            break
    else:
        _, to_m = split_outs(outs, 2, 1)
        ctx.cov.notes.append("saturation witness on the real AXILiteInterconnectShared 2x1: after 256 accepted reads of master 0 "
                             "and 255 responses the 256th response is delivered to master %s (r.valid at master 0/1 = %d/%d)"
                             % ("1, not to its issuer" if to_m[1][RV] and not to_m[0][RV] else "0", to_m[0][RV], to_m[1][RV]))
    ctx.cov.add_cases("counter saturation witness (grant moves with one response outstanding)", len(trace), len(trace))
    return dis


def _rr_cases(ctx):
    """Migen RoundRobin(SP_CE) against `RoundRobin.next .ce`, exhaustively for n <= 4."""
    from migen.genlib.roundrobin import RoundRobin, SP_CE
    from netlist import Netlist
    lines, expect = [], []
    nontriv = 0
    for n in (1, 2, 3, 4):
        rr = RoundRobin(n, SP_CE)
        nl = Netlist(rr)
        root = nl.snapshot()
        for g in range(n):
            for req in range(1 << n):
                for ce in (0, 1):
                    nl.restore(root)
                    if n > 1:
                        nl.ev.signal_values[rr.grant] = g
                    nl.set(rr.request, req)
                    nl.set(rr.ce, ce)
                    nl.settle()
                    nl.tick()
                    g2 = nl.getu(rr.grant)
                    lines.append("rrnext %d %d %d %d" % (n, g, ce, req))
                    expect.append(g2)
                    nontriv += g2 != g
    res = ctx.lean.call_batch(lines)
    dis = []
    for l, r, e in zip(lines, res, expect):
        if r.strip() != str(e):
            dis.append({"instance": "migen RoundRobin(SP_CE)", "kind": "correspondence", "case": l, "impl": e, "model": r})
            if len(dis) >= 3:
                break
    ctx.cov.add_cases("migen RoundRobin(SP_CE) vs RoundRobin.next (n<=4)", len(lines), nontriv, exhaustive=True)
    return dis


# ---------------------------------------------------------------------------------------------------------
# corpus

def _make_from_spec(spec):
    decs = []
    for w in spec.get("decs", []):
        p = w.split(":")
        if p[0] == "all":
            decs.append(DecAll())
        elif p[0] == "hi":
            decs.append(DecHi(int(p[1]), int(p[2])))
        elif p[0] == "set":
            decs.append(DecSet([int(x) for x in p[1].split(",")]))
        else:
            decs.append(DecRegion(int(p[1]), int(p[2])))
    kw = dict(full=spec.get("full", False), data_width=spec.get("data_width", 8), address_width=spec.get("address_width", 2),
              domain=spec.get("domain", True))
    kind = spec["kind"]
    if kind == "soc":
        return c08lib.make_from_soc_spec(spec)
    if kind in ("shared", "xbar"):
        kw["id_width"] = spec.get("id_width", 1)
        if spec.get("m_address_widths"):
            kw["m_address_widths"] = spec["m_address_widths"]
    if kind == "shared":
        return make_shared(spec["n"], decs, timeout=spec.get("timeout", "none"), **kw)
    if kind == "xbar":
        return make_xbar(spec["n"], decs, **kw)
    if kind == "arb":
        return make_arb(spec["n"], **kw)
    if kind == "dec":
        return make_dec(decs, **kw)
    return make_p2p(**kw)


def _corpus(ctx):
    """Replay corpus/C08/*.json (finding witnesses / past disagreements): model vs code on the trace, and the
    monitor verdict expected for it (`expect_monitor`: true = the property fails on this trace)."""
    from runner import VERIF
    dis = []
    for path in sorted(glob.glob(os.path.join(VERIF, "corpus", "C08", "*.json"))):
        item = json.load(open(path))
        if item.get("kind") != "trace":
            continue
        inst = _make_from_spec(item["make"])
        trace = [tuple(l) for l in item["trace"]]
        ctx.lean.open(inst.lean_open)
        model = ctx.lean.run(trace)
        ctx.lean.close_session()
        for t, l in enumerate(trace):
            outs = impl_step(inst, l)
            if not _masked_equal(inst, outs, model[t]):
                dis.append(Disagreement(inst, trace[:t + 1], t, outs, model[t]))
                break
        if item.get("expect_monitor") is not None:
            inst2 = _make_from_spec(item["make"])
            r = _replay(inst2, trace, hyp=item.get("hyp", True))
            fired = r is not None
            known = item.get("finding")
            if fired != bool(item["expect_monitor"]) and not (known and any(e.get("id") == known and e.get("status") == "open" for e in ctx.known) and fired):
                if known and not fired:
                    ctx.cov.notes.append("corpus %s: witness of %s no longer violates the property" % (os.path.basename(path), known))
                else:
                    dis.append(Disagreement(inst2, trace, len(trace) - 1, None, None,
                                            kind="monitor:corpus %s: monitor %s" % (os.path.basename(path),
                                                                                     "fired: %s" % (r,) if fired else "did not fire")))
        ctx.cov.add_cases("corpus " + os.path.basename(path), len(trace), len(trace))
    return dis


def _replay(inst, trace, hyp=True):
    mon = c08lib.SatAwareMonitor(inst, hyp=hyp)
    n = inst.netlist
    root = n.snapshot()
    res = None
    for t, letter in enumerate(trace):
        outs = impl_step(inst, letter)
        msg = mon.observe(letter, outs)
        if msg:
            res = (t, msg)
            break
    n.restore(root)
    return res


# ---------------------------------------------------------------------------------------------------------

def _robust_worker(idx):
    import explore, traceback
    try:
        return ("ok", explore._worker(idx))
    except Exception as e:        # building or driving this one instance failed: report it, keep the other jobs' results
        return ("exc", idx, repr(e), traceback.format_exc()[-1500:])


def _run_jobs_robust(ctx, jobs, procs):
    """`explore.run_jobs`, except that an exception inside one job (a changed implementation that no longer builds in
    that shape, a port that disappeared, a compiled-evaluator mismatch, …) becomes a reported disagreement of that
    job instead of aborting the whole correspondence run."""
    import explore, multiprocessing as mp
    explore._JOBS = jobs
    explore._CTXINFO = (ctx.prop, ctx.seed, ctx.tier)
    if procs <= 1 or len(jobs) <= 1:
        raw = [_robust_worker(i) for i in range(len(jobs))]
    else:
        with mp.get_context("fork").Pool(procs) as pool:
            raw = pool.map(_robust_worker, range(len(jobs)), chunksize=1)
    dis, bad_jobs = [], []
    for r in raw:
        if r[0] == "exc":
            _, idx, err, tb = r
            bad_jobs.append(idx)
            dis.append({"kind": "correspondence-exception", "instance": "job %d (%s)" % (idx, jobs[idx].mode),
                        "what": "building / driving this instance raised %s" % err, "traceback": tb})
            continue
        idx, covd, ds = r[1]
        ctx.cov.instances += covd["instances"]
        for smp in covd["samples"]:
            if len(ctx.cov.samples) < 8:
                ctx.cov.samples.append(smp)
        ctx.cov.evaluations += covd["evaluations"]
        ctx.cov.nontrivial += covd["nontrivial"]
        ctx.cov.states += covd["states"]
        ctx.cov.transitions += covd["transitions"]
        for k, v in covd["hist"].items():
            ctx.cov.count(k, v)
        ctx.cov.notes += covd["notes"]
        if ds:
            bad_jobs.append(idx)
            for (trace, cycle, io, mo, kind, iname, lopen) in ds:
                d = Disagreement(None, trace, cycle, io, mo, kind)
                d.inst_name, d.lean_open, d.job = iname, lopen, idx
                dis.append(d)
    return dis, bad_jobs


def correspond(ctx):
    ctx.rule = ("model/implementation correspondence cases; non-trivial = some channel handshake happens at a master or "
                "slave port in that (state, input) pair; counted per distinct pair")
    ctx.assumptions = [
        "axl_route_partial hypotheses: SameSlaveWhileLocked, NoDataBeforeAddr, AXI-legal environment (valid held, "
        "responses only to accepted requests, in order), at most 255 outstanding requests per counter, disjoint address map",
        "first/last lines travel as pass-through payload; finite timeouts are modelled by composition with C11's Timeout FSM",
        "closed-system theorems (axl_closed_*, axl_end_to_end_*): the per-cycle hypotheses are replaced by port-local rules "
        "of legal masters/slaves (LocalOK: a master with unanswered requests stays with the slave of its last accepted "
        "address; a slave answers only held requests and accepts at most 255) — evaluated by the Lean side (open localmon) "
        "on the harness's AXI-legal runs and on the finding witnesses; NoDataBeforeAddr remains (open finding)",
        "SoC glue: SocAxi.fabric (over b-c06's busTopology) chooses the model of every SoCBusHandler instance; Disjoint is "
        "discharged for accepted region lists via b-c06/b-c13's accepted_index_disjoint (RegionsDecodable)",
    ]
    ctx.extra_trusted = ["harness/axilib.py FastNetlist (compiled evaluator of the lowered netlist), cross-checked against "
                         "litex.gen.sim.core.Evaluator on every instance of every run and by two Evaluator-only mode-B instances"]
    ctx.jobs = jobs(ctx.tier, ctx.seed)
    dis = []
    parts = (_corpus, _counter_cases, _rr_cases, _saturation_case, c08lib.soc_fabric_cases, c08lib.soc_directed_cases,
             c08lib.check_params_cases, c08lib.id_width_cases, c08lib.timeout_service_cases,
             lambda c: c08lib.local_rules_cases(c, MAPS, _region_map, quick=c.tier == "quick"))
    for part in parts:
        try:
            dis += part(ctx)
        except Exception as e:
            import traceback
            pname = getattr(part, "__name__", "local_rules_cases")
            dis.append({"kind": "correspondence-exception", "instance": pname,
                        "what": "%s raised %r" % (pname, e), "traceback": traceback.format_exc()[-1500:]})
            try:
                ctx.lean.close_session()
            except Exception:
                pass
    d2, bad = _run_jobs_robust(ctx, ctx.jobs, procs=min(len(ctx.jobs), int(os.environ.get("VERIF_PROCS", "0")) or 6))
    dis += d2
    try:
        dis += _self_test(ctx)
    except Exception as e:
        dis.append({"kind": "correspondence-exception", "instance": "selftest", "what": "self test raised %r" % (e,)})
    return dis


def _self_test(ctx):
    """Sensitivity self-test: the comparison and the monitor must flag deliberately wrong observations."""
    bad = []
    inst = make_shared(2, MAPS[2][0][1], name="selftest")
    # master 0 writes to slave 1 (address 2), master 1 idle; slave 1 ready
    l = m_part(aw=(2, 1), w=0x101, b_ready=1) + m_part() + s_part() + s_part(aw_ready=1, w_ready=1)
    outs = impl_step(inst, l)
    mon = inst.monitor()
    if mon.observe(l, outs) is not None:
        bad.append("monitor fired on a correct cycle")
    wrong = list(outs)
    wrong[NM * 0 + AWV] = 1           # slave 0 sees the address as well
    if _masked_equal(inst, outs, wrong):
        bad.append("comparison did not flag an address presented to a second slave")
    wrong2 = list(outs)
    wrong2[NM * 2 + NS * 1 + AWR] = 1  # master 1 sees aw.ready
    if _masked_equal(inst, outs, wrong2):
        bad.append("comparison did not flag a ready delivered to a non-owner")
    # monitor: response delivered to the wrong master
    inst = make_shared(2, MAPS[2][0][1], name="selftest")
    mon = inst.monitor()
    o0 = impl_step(inst, l)
    mon.observe(l, o0)
    l1 = m_part(b_ready=1) + m_part(b_ready=1) + s_part() + s_part(b=2)
    o1 = impl_step(inst, l1)
    if mon.observe(l1, o1) is not None:
        bad.append("monitor fired on a correct response cycle")
    inst = make_shared(2, MAPS[2][0][1], name="selftest")
    mon = inst.monitor()
    mon.observe(l, impl_step(inst, l))
    o1 = list(impl_step(inst, l1))
    b0, b1 = NM * 2 + NS * 0, NM * 2 + NS * 1
    o1[b0 + BV], o1[b1 + BV], o1[b1 + BP] = 0, 1, o1[b0 + BP]
    if mon.observe(l1, o1) is None:
        bad.append("monitor did not flag a response delivered to a master that did not issue the request")
    ctx.cov.count("selftest_perturbations", 3)
    return [{"instance": "selftest", "kind": "harness-selftest", "what": b} for b in bad]


# ---------------------------------------------------------------------------------------------------------
# failing-input search

def monitor_run(inst, rng, cycles):
    n = inst.netlist
    root = n.snapshot()
    mon = inst.monitor()
    trace = []
    res = None
    for t in range(cycles):
        letter = inst.gen(rng, t)
        outs = impl_step(inst, letter)
        trace.append(tuple(letter))
        m = mon.observe(letter, outs)
        if m:
            res = (trace, m)
            break
    n.restore(root)
    return res


def _search_instances(seed):
    """Instances for the monitor-armed search: small and realistic fabrics, AXI-legal environments inside the domain."""
    rng = random.Random(seed * 31 + 1)
    out = []
    for full in (False, True):
        for mk in (make_shared, make_xbar):
            out.append(lambda mk=mk, full=full: mk(2, MAPS[2][0][1], full=full, env_kw={"max_out": 3}))
            out.append(lambda mk=mk, full=full: mk(3, MAPS[3][0][1], full=full, env_kw={"max_out": 2}))
            decs = _region_map(rng, 3)
            out.append(lambda mk=mk, full=full, decs=decs: mk(3, decs, full=full, data_width=32, address_width=32))
        d64 = _region_map(rng, 3)
        out.append(lambda full=full, d64=d64: make_xbar(2, d64, full=full, data_width=64, address_width=32))
        out.append(lambda full=full, d64=d64: make_shared(3, d64, full=full, data_width=128, address_width=32))
        out.append(lambda full=full: make_shared(2, [DecRegion(0, 1 << 32)], full=full, data_width=32, address_width=32))
        out.append(lambda full=full: make_arb(3, full=full))
        out.append(lambda full=full: make_dec(MAPS[3][0][1], full=full))
    out.append(lambda: make_p2p())
    return out


def search(ctx, disagreements, proof_info):
    """Failing-input search on the real code with the model-independent AxiMonitor: (1) a monitor that fired during
    co-simulation, (2) disagreement traces replayed with the monitor armed, (3) AXI-legal random runs (inside the
    theorem's domain) of small and realistic instances."""
    deadline = time.time() + (60 if ctx.tier == "quick" else 600)
    all_jobs = getattr(ctx, "jobs", None) or jobs(ctx.tier, ctx.seed)
    for d in disagreements:
        kind = getattr(d, "kind", None) or (d.get("kind") if isinstance(d, dict) else "")
        if kind.startswith("monitor:"):
            if isinstance(d, dict):
                return dict(d, letter_format=FMT)
            spec = None
            try:
                if getattr(d, "inst", None) is not None:
                    spec = _spec_of(d.inst)
                elif getattr(d, "job", None) is not None:
                    spec = _spec_of(all_jobs[d.job].make())
            except Exception:
                spec = None
            return {"instance": d.inst_name, "make": spec, "trace": [list(l) for l in d.trace], "monitor": kind[8:],
                    "letter_format": FMT}
    for d in disagreements:
        if isinstance(d, dict) or getattr(d, "job", None) is None:
            continue
        try:
            inst = all_jobs[d.job].make()
        except Exception:
            continue
        # exhaustive-exploration and walk traces are not AXI-legal: only the environment-independent part of the
        # property (same-cycle, payload-equal pairing of the handshakes) may be judged on them
        if all_jobs[d.job].mode == "A" or inst.env_factory is WalkEnv:
            inst.domain = False
        r = replay_with_monitor(inst, d.trace)
        if r:
            return {"instance": inst.name, "make": _spec_of(inst), "trace": [list(l) for l in d.trace[:r[0] + 1]],
                    "monitor": r[1], "letter_format": FMT}
    rng = ctx.rng
    makers = _search_instances(ctx.seed)
    rnd = 0
    while time.time() < deadline:
        for mk in makers:
            if time.time() > deadline:
                break
            try:
                inst = c08lib.arm(mk())
                r = monitor_run(inst, rng, 1500 if rnd else 600)
            except Exception as e:          # a changed implementation may not even build / drive in this shape
                ctx.cov.notes.append("search instance raised %r" % (e,))
                continue
            if r:
                trace, msg = r
                return {"instance": inst.name, "make": _spec_of(inst), "trace": [list(l) for l in trace], "monitor": msg,
                        "letter_format": FMT,
                        "note": "AXI-legal random run inside the domain of axl_route_partial; not shrunk (feedback environment)"}
        rnd += 1
        if rnd > (3 if ctx.tier == "quick" else 30):
            break
    return None


def _spec_of(inst):
    return {"kind": inst.kind, "n": inst.n, "decs": [d.word() for d in inst.decs], "full": inst.full,
            "data_width": inst.data_width, "address_width": inst.address_width, "domain": inst.domain,
            "m_address_widths": inst.m_address_widths, "id_width": inst.id_width,
            "timeout": getattr(inst, "timeout", "none")}


# ---------------------------------------------------------------------------------------------------------
# known findings

def _probe_addr(full, kind):
    """Second address decoding to another slave while a response is outstanding (write and read)."""
    decs = MAPS[2][0][1]
    res = []
    for d in ("w", "r"):
        inst = make_dec(decs, full=full) if kind == "dec" else make_shared(1, decs, full=full)
        mon = AxiMonitor(inst, hyp=False)
        if d == "w":
            l0 = m_part(aw=(0, 1)) + s_part(aw_ready=1) + s_part(aw_ready=1)
            l1 = m_part(aw=(2, 1)) + s_part(aw_ready=1) + s_part(aw_ready=1)
        else:
            l0 = m_part(ar=(0, 1)) + s_part(ar_ready=1) + s_part(ar_ready=1)
            l1 = m_part(ar=(2, 1)) + s_part(ar_ready=1) + s_part(ar_ready=1)
        msgs = []
        for l in (l0, l1):
            o = impl_step(inst, l)
            msgs.append(mon.observe(l, o))
        to_s, _ = split_outs(o, 1, 2)
        v = AWV if d == "w" else ARV
        res.append((bool(msgs[1]) and to_s[0][v] == 1 and to_s[1][v] == 0, msgs[1]))
    return res


def _probe_wdata(full, kind):
    """Write data handed over before its address: routed by the idle aw.addr lines (0 -> slave 0), address to slave 1."""
    decs = MAPS[2][0][1]
    inst = make_dec(decs, full=full) if kind == "dec" else make_shared(1, decs, full=full)
    mon = AxiMonitor(inst, hyp=False)
    wpay = 0x155 if not full else (1 << (inst.monitor().wlast_bit)) | 0x55
    l0 = m_part(w=wpay, idle_aw=(0, 0)) + s_part(w_ready=1) + s_part(w_ready=1)
    l1 = m_part(aw=(2, 1)) + s_part(aw_ready=1) + s_part(aw_ready=1)
    msgs = []
    seen = []
    for l in (l0, l1):
        o = impl_step(inst, l)
        msgs.append(mon.observe(l, o))
        seen.append(split_outs(o, 1, 2)[0])
    fails = bool(msgs[1]) and seen[0][0][WV] == 1 and seen[1][1][AWV] == 1
    return fails, msgs[1]


def _probe_gap(full, kind):
    """Lone W beat accepted, one idle cycle, then its AW: the write grant moves in the idle cycle to a requesting
    second master, whose AW the slave pairs with the first master's data (2 masters x 1 slave)."""
    import wblib
    inst = make_shared(2, [wblib.DecAll()], full=full) if kind == "shared" else make_xbar(2, [wblib.DecAll()], full=full)
    mon = AxiMonitor(inst, hyp=False)
    last = (1 << mon.wlast_bit) if full else 0
    w0, w1 = 0xA0 | last, 0xB1 | last
    tr = [m_part(w=w0) + m_part(aw=(1, 2), w=w1) + s_part(w_ready=1),
          m_part() + m_part(aw=(1, 2), w=w1) + s_part(aw_ready=1, w_ready=1),
          m_part(aw=(0, 1)) + m_part(aw=(1, 2), w=w1) + s_part(aw_ready=1, w_ready=1)]
    msg = None
    for l in tr:
        o = impl_step(inst, l)
        msg = msg or mon.observe(l, o)
    return bool(msg) and msg.startswith("E:"), msg


def _probe_id(full, kind):
    """AXI4 fabric with id_width=4: aw.id = 0xE driven by the master, what does the slave see?"""
    if not full:
        return []
    mk = make_xbar if kind == "dec" else make_shared
    inst = mk(1, [DecAll()], full=True, id_width=4, data_width=32, address_width=32)
    sh, wd = X.pay_field(True, "aw", "id", 32, 32, 4)
    pay = 0xE << sh
    o = impl_step(inst, m_part(aw=(0x40, pay)) + s_part(aw_ready=1))
    seen = split_outs(o, 1, 1)[0][0]
    got = (seen[AWP] >> sh) & 0xF
    return [(seen[AWV] == 1 and got != 0xE, "%s 1x1 id_width=4: master drives aw.id=0xe, slave sees aw.id=%#x" % (
        "crossbar" if kind == "dec" else "shared", got))]


def probes(ctx):
    out = []
    notes = []
    for fid, fn in ((F_ADDR, _probe_addr), (F_WDATA, _probe_wdata), (F_GAP, _probe_gap), (F_ID, _probe_id)):
        fails, whats = [], []
        for full in (False, True):
            for kind in ("dec", "shared"):
                r = fn(full, kind)
                for f, msg in (r if isinstance(r, list) else [r]):
                    fails.append(f)
                    if f and not whats:
                        whats.append("%s %s: %s" % (X._tag(full), "crossbar" if (fid == F_GAP and kind == "dec") else kind, msg))
        still = any(fails)
        what = "%d/%d witnesses reproduce; %s" % (sum(fails), len(fails), whats[0] if whats else "none")
        if any(e.get("id") == fid for e in ctx.known):
            out.append((fid, still, what))
        else:
            msg = "finding %s (not yet listed in known_findings.json) %s: %s" % (fid, "reproduces" if still else "does not reproduce", what)
            ctx.cov.notes.append(msg)
            ctx.log("note: " + msg)
    # counter saturation: 2x1 witness (256 accepted reads, 255 answered, grant moves, 256th response mis-delivered)
    r = c08lib.probe_saturation()
    still = any(f for f, _ in r)
    what = "%d/%d witnesses reproduce; %s" % (sum(f for f, _ in r), len(r), next((w for f, w in r if f), r[0][1]))
    if any(e.get("id") == F_SAT for e in ctx.known):
        out.append((F_SAT, still, what))
    else:
        ctx.cov.notes.append("finding %s (not listed): %s" % (F_SAT, what))
    return out


def replay(ctx, payload):
    fi = payload.get("failing_input") or {}
    if "trace" not in fi:
        print("replay file carries no failing trace; content:", {k: fi.get(k) for k in fi} or payload.get("disagreements", [])[:2])
        return 1
    trace = [tuple(l) for l in fi["trace"]]
    inst = None
    if fi.get("make"):
        inst = _make_from_spec(fi["make"])
    else:
        for tier in ("quick", "thorough"):
            for job in jobs(tier, payload.get("seed", 0)):
                try:
                    cand = job.make()
                except Exception:
                    continue
                if cand.name == fi.get("instance"):
                    inst = cand
                    break
            if inst is not None:
                break
    if inst is None:
        print("instance %r not found" % fi.get("instance"))
        return 2
    if fi.get("monitor_kind") == "timeout-service":
        r = c08lib.replay_timeout_service(inst, trace)
    else:
        r = _replay(inst, trace, hyp=fi.get("hyp", True))
    if r:
        print("cycle %d: %s" % r)
        print("VIOLATION property=%s replay=(replayed)" % ctx.prop)
        return 1
    print("trace no longer violates the property on the current tree")
    return 0
