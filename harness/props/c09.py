"""C09 — bus bridges and AXI-Lite converters preserve memory semantics and protocol rules."""
import time, os, json, glob
from explore import Job, run_jobs, replay_with_monitor, impl_step, Disagreement, _masked_equal
import c09lib as L
import c09adapt
from c09lib import (PortInst, MonitorOnlyInst, AxiSinglePartner, Env, AxlMaster, WbMaster, WbPartner, AxlPartner, CsrPartner, BridgeMonitor, AxiMaster,
                    AhbMaster)
from migen import Module
from litex.soc.interconnect import wishbone
from litex.soc.interconnect import csr_bus, ahb
from litex.soc.interconnect.axi import (AXILiteInterface, AXILite2Wishbone, Wishbone2AXILite, AXILiteSRAM, AXILite2CSR,
                                        AXILiteDownConverter, AXILiteUpConverter, AXILiteConverter, AXIInterface,
                                        AXI2AXILite, AXILite2AXI, AXI2Wishbone, Wishbone2AXI)

FMT = ("letter = master-driven signals of the master-side bus ++ slave-driven signals of the slave-side bus; "
       "AXI-Lite master: awvalid awaddr wvalid wdata wstrb bready arvalid araddr rready; AXI-Lite slave: awready "
       "wready bvalid bresp arready rvalid rresp rdata; Wishbone master: cyc stb we adr sel datw; Wishbone slave: "
       "ack datr err (see harness/c09lib.py)")

MAKERS = {}

# timing policies of the memory partners: (name, kwargs)
WB_POL = {"fast": dict(p_ack=1.0), "slow": dict(p_ack=0.15), "mixed": dict(p_ack=0.5)}
AXL_POL = {"accept-early": dict(p_ready=1.0, p_exec=0.5, p_resp=0.5),
           "accept-late": dict(p_ready=0.15, p_exec=0.8, p_resp=0.8),
           "respond-late": dict(p_ready=0.8, p_exec=0.2, p_resp=0.15),
           "pipeline2": dict(p_ready=0.9, p_exec=0.4, p_resp=0.4, depth=2),
           "fast": dict(p_ready=1.0, p_exec=1.0, p_resp=1.0)}


def log2(n):
    return n.bit_length() - 1


# ---------------------------------------------------------------------------------------------------------
# instance constructors

def mk_axl2wb(dw, aw, base=0, addressing="word", pol=None, small=False, master=None, p_err=0.0, tag=""):
    nb = dw // 8
    shift = log2(nb) if addressing == "word" else 0
    axl = AXILiteInterface(data_width=dw, address_width=aw)
    wb = wishbone.Interface(data_width=dw, adr_width=aw - log2(nb), addressing=addressing)
    m = AXILite2Wishbone(axl, wb, base_address=base)
    name = "AXILite2Wishbone(dw=%d,aw=%d,base=0x%x,%s)%s" % (dw, aw, base, addressing, tag)
    env = mon = None
    if pol is not None:
        s_amap = lambda adr: (adr << shift) & ~(nb - 1)
        env = Env(master or AxlMaster(aw, nb), WbPartner(nb, p_err=p_err, amap=s_amap, **WB_POL[pol]), "wb")
        name += "/" + pol
        mask = (1 << aw) - 1
        mon = lambda inst: BridgeMonitor(inst, "axl", "wb", nb, nb,
                                         lambda a: (((a - base) & mask) >> log2(nb)) << log2(nb), s_amap, errs=True,
                                         fair=True, b_order=True)
    dom = None
    if small:
        amax = (1 << aw) - 1
        dom = {"awaddr": (0, amax), "araddr": (1 % (amax + 1), amax - 1), "wdata": (0, (1 << dw) - 1),
               "wstrb": (0, (1 << nb) - 1), "datr": (0, (1 << dw) - 2)}
    return PortInst(name, m, "axl2wb %d %d %d %d" % (aw, nb, shift, base), "axl", axl, "wb", wb, dom=dom, env=env,
                    monitor=mon, m_par=dict(dw=dw, aw=aw), s_par=dict(dw=dw, aw=aw, adr=aw - shift))


def mk_wb2axl(dw, aw, base=0, addressing="word", pol=None, small=False, p_err=0.0, tag=""):
    nb = dw // 8
    shift = log2(nb) if addressing == "word" else 0
    axl = AXILiteInterface(data_width=dw, address_width=aw)
    wb = wishbone.Interface(data_width=dw, adr_width=aw - log2(nb), addressing=addressing)
    m = Wishbone2AXILite(wb, axl, base_address=base)
    name = "Wishbone2AXILite(dw=%d,aw=%d,base=0x%x,%s)%s" % (dw, aw, base, addressing, tag)
    env = mon = None
    mask = (1 << aw) - 1
    if pol is not None:
        env = Env(WbMaster(aw - shift, nb), AxlPartner(nb, p_err=p_err, **AXL_POL[pol]), "axl")
        name += "/" + pol
        mon = lambda inst: BridgeMonitor(inst, "wb", "axl", nb, nb,
                                         lambda adr: (((adr << shift) - base) & mask) & ~(nb - 1),
                                         lambda a: a & ~(nb - 1), errs=True)
    dom = None
    if small:
        amax = (1 << (aw - shift)) - 1
        dom = {"adr": (0, amax), "datw": (0, (1 << dw) - 1), "sel": (0, (1 << nb) - 1), "rdata": (0, (1 << dw) - 2),
               "bresp": (0, 2), "rresp": (0, 3)}
    return PortInst(name, m, "wb2axl %d %d %d" % (aw - shift, shift, base), "wb", wb, "axl", axl, dom=dom, env=env,
                    monitor=mon, m_par=dict(dw=dw, aw=aw, adr=aw - shift), s_par=dict(dw=dw, aw=aw))


MASTERS = {"single": dict(max_out=1), "pipelined": dict(max_out=3, max_delay=2),
           "w-first": dict(max_out=1, order="w_first"), "aw-first": dict(max_out=2, order="aw_first"),
           "busy": dict(max_out=2, p_wr=0.9, p_rd=0.9, p_bready=0.9, p_rready=0.9, max_delay=0),
           "lazy": dict(max_out=1, p_wr=0.1, p_rd=0.1, p_bready=0.15, p_rready=0.15),
           # address first or together with the data, one transaction per direction at a time
           "aw-then-w": dict(max_out=1, order="aw_first"), "aw-with-w": dict(max_out=1, order="same"),
           "unaligned": dict(max_out=1, align=False),
           "aw-then-w-busy": dict(max_out=1, order="aw_first", p_wr=0.9, p_rd=0.9, p_bready=0.9, p_rready=0.9, max_delay=1)}


def mk_axlsram(dw, aw, depth, read_only=False, master=None, small=False, tag="", variant=None):
    """variant: None (size given), "memory" (a Memory object is handed over), "default-bus" (bus=None: the SRAM
    creates its own 32-bit/32-bit interface)."""
    nb = dw // 8
    shift = log2(nb)
    abits = max((depth - 1).bit_length(), 1)          # Migen: bits_for(depth - 1)
    bus = AXILiteInterface(data_width=dw, address_width=aw)
    init = [sum(L.init_byte(k * nb + i) << (8 * i) for i in range(nb)) for k in range(depth)]
    if small:
        init = [((1 << dw) - 1) * (k % 2) for k in range(depth)]
    if variant == "memory":
        from migen import Memory
        m = AXILiteSRAM(Memory(dw, depth, init=init), bus=bus, read_only=read_only)
    elif variant == "default-bus":
        assert (dw, aw) == (32, 32)
        m = AXILiteSRAM(depth * nb, init=init, read_only=read_only)
        bus = m.bus
    else:
        m = AXILiteSRAM(depth * nb, bus=bus, init=init, read_only=read_only)
    name = "AXILiteSRAM(dw=%d,aw=%d,depth=%d%s%s)%s" % (dw, aw, depth, ",ro" if read_only else "",
                                                       "," + variant if variant else "", tag)
    env = mon = None
    if master is not None:
        kw = dict(MASTERS[master])
        if read_only:
            kw["p_wr"] = 0.0
        if depth & (depth - 1):
            # not a power of two: only words inside the memory are addressed (beyond it nothing is specified)
            kw["addrs"] = [((k * 7919) % depth) << shift for k in range(12)] + [(depth - 1) << shift, 0]
            kw["p_pool"] = 1.0
        env = Env(AxlMaster(aw, nb, **kw), None, None)
        name += "/" + master
        mon = lambda inst: BridgeMonitor(inst, "axl", None, nb, None, lambda a: ((a >> shift) % (1 << abits)) << shift,
                                         None, fair=True)
    dom = None
    if small:
        amax = (1 << aw) - 1
        dom = {"awaddr": (0, amax), "araddr": (0, amax), "wdata": (0, (1 << dw) - 1), "wstrb": (0, (1 << nb) - 1)}
    return PortInst(name, m, "axlsram %d %d %d %d %s" % (shift, abits, nb, 1 if read_only else 0,
                                                        " ".join(map(str, init))),
                    "axl", bus, dom=dom, env=env, monitor=mon, m_par=dict(dw=dw, aw=aw))


def mk_axl2csr(dw, aw, csr_aw=14, master=None, small=False, tag="", defaults=False):
    nb = dw // 8
    shift = log2(nb)
    if defaults == "axl":
        # default-argument path 1: the bridge creates its AXI-Lite interface itself (32-bit data, 32-bit address)
        assert (dw, aw) == (32, 32)
        csr = csr_bus.Interface(data_width=dw, address_width=csr_aw)
        m = AXILite2CSR(bus_csr=csr)
        bus = m.axi_lite
    elif defaults == "csr":
        # default-argument path 2: the bridge creates its CSR bus itself (8-bit data, 14-bit address; fixed d779792)
        assert (dw, csr_aw) == (8, 14)
        bus = AXILiteInterface(data_width=dw, address_width=aw)
        m = AXILite2CSR(axi_lite=bus)
        csr = m.csr
    else:
        bus = AXILiteInterface(data_width=dw, address_width=aw)
        csr = csr_bus.Interface(data_width=dw, address_width=csr_aw)
        m = AXILite2CSR(bus, csr)
    name = "AXILite2CSR(dw=%d,aw=%d,csr_aw=%d%s)%s" % (dw, aw, csr_aw, ",default-" + defaults if defaults else "", tag)
    env = mon = None
    if master is not None:
        full = (1 << nb) - 1
        env = Env(AxlMaster(aw, nb, strbs=(full, full, 0), **MASTERS[master]), CsrPartner(nb=nb), "csr")
        name += "/" + master
        mon = lambda inst: BridgeMonitor(inst, "axl", None, nb, None,
                                         lambda a: ((a >> shift) % (1 << csr_aw)) << shift, None, fair=True)
    dom = None
    if small:
        amax = (1 << aw) - 1
        dom = {"awaddr": (0, amax), "araddr": (0, amax), "wdata": (0, (1 << dw) - 1), "wstrb": (0, (1 << nb) - 1),
               "datr": (0, (1 << dw) - 2)}
    s_ports = (("datr",), [csr.dat_r], ("adr", "we", "re", "datw"), [csr.adr, csr.we, csr.re, csr.dat_w])
    return PortInst(name, m, "axl2csr %d %d %d" % (shift, csr_aw, nb), "axl", bus, s_ports=s_ports, dom=dom,
                    env=env, monitor=mon, m_par=dict(dw=dw, aw=aw),
                    s_par={"widths": dict(datr=dw, adr=csr_aw, we=1, re=1, datw=dw)})


def mk_axldown(dw_from, dw_to, aw, pol=None, master="single", small=None, p_err=0.0, tag="", cls=None, s_aw=None):
    """`s_aw`: address width of the narrow side when it differs from the master's (the address is truncated)."""
    nbf, nbt = dw_from // 8, dw_to // 8
    ratio = dw_from // dw_to
    s_aw = s_aw or aw
    mi = AXILiteInterface(data_width=dw_from, address_width=aw)
    si = AXILiteInterface(data_width=dw_to, address_width=s_aw)
    m = (cls or AXILiteDownConverter)(mi, si)
    name = "%s(%d->%d,aw=%d%s)%s" % ((cls or AXILiteDownConverter).__name__, dw_from, dw_to, aw,
                                      "->%d" % s_aw if s_aw != aw else "", tag)
    env = mon = None
    if pol is not None:
        env = Env(AxlMaster(aw, nbf, **MASTERS[master]), AxlPartner(nbt, p_err=p_err, **AXL_POL[pol]), "axl")
        name += "/%s/%s" % (master, pol)
        smask = (1 << s_aw) - 1
        mon = lambda inst: BridgeMonitor(inst, "axl", "axl", nbf, nbt, lambda a: a & smask & ~(nbf - 1),
                                         lambda a: a & ~(nbt - 1), errs=True)
    dom = None
    amax = (1 << aw) - 1
    fullw = (1 << dw_from) - 1
    if small in ("w", "w6"):
        strbs = tuple(range(1 << nbf)) if small == "w" else (0, 1, 8, 15)
        dom = {"m.awaddr": (0, amax), "m.wdata": (0xA5C3 & fullw,), "m.wstrb": strbs,
               "m.arvalid": (0,), "m.araddr": (0,), "m.rready": (0,),
               "s.arready": (0,), "s.rvalid": (0,), "s.rresp": (0,), "s.rdata": (0,), "s.bresp": (0, 2)}
    elif small == "r":
        dom = {"m.awvalid": (0,), "m.awaddr": (0,), "m.wvalid": (0,), "m.wdata": (0,), "m.wstrb": (0,), "m.bready": (0,),
               "m.araddr": (0, amax), "s.awready": (0,), "s.wready": (0,), "s.bvalid": (0,), "s.bresp": (0,),
               "s.rresp": (0, 2), "s.rdata": (0, (1 << dw_to) - 2)}
    return PortInst(name, m, "axldown %d %d %d" % (ratio, nbt, s_aw), "axl", mi, "axl", si, dom=dom, env=env,
                    monitor=mon, m_par=dict(dw=dw_from, aw=aw), s_par=dict(dw=dw_to, aw=s_aw))


def mk_axlup(dw_from, dw_to, aw, pol=None, master="single", small=False, p_err=0.0, tag="", cls=None, s_aw=None):
    nbf, nbt = dw_from // 8, dw_to // 8
    ratio = dw_to // dw_from
    s_aw = s_aw or aw
    mi = AXILiteInterface(data_width=dw_from, address_width=aw)
    si = AXILiteInterface(data_width=dw_to, address_width=s_aw)
    m = (cls or AXILiteUpConverter)(mi, si)
    name = "%s(%d->%d,aw=%d%s)%s" % ((cls or AXILiteUpConverter).__name__, dw_from, dw_to, aw,
                                      "->%d" % s_aw if s_aw != aw else "", tag)
    env = mon = None
    if pol is not None:
        env = Env(AxlMaster(aw, nbf, **MASTERS[master]), AxlPartner(nbt, p_err=p_err, **AXL_POL[pol]), "axl")
        name += "/%s/%s" % (master, pol)
        smask = (1 << s_aw) - 1
        mon = lambda inst: BridgeMonitor(inst, "axl", "axl", nbf, nbt, lambda a: a & smask & ~(nbf - 1),
                                         lambda a: a & ~(nbt - 1), errs=True, b_order=True)
    dom = None
    if small:
        amax = (1 << aw) - 1
        dom = {"m.awaddr": (0, amax), "m.araddr": (0, amax), "m.wdata": ((1 << dw_from) - 2,), "m.wstrb": (1,),
               "s.bresp": (2,), "s.rresp": (0,), "s.rdata": (0x3C5A & ((1 << dw_to) - 1),)}
    return PortInst(name, m, "axlup %d %d %d" % (ratio, nbf, s_aw), "axl", mi, "axl", si, dom=dom, env=env,
                    monitor=mon, m_par=dict(dw=dw_from, aw=aw), s_par=dict(dw=dw_to, aw=s_aw))


# partner behaviour AXI2AXILite is proved for (everything else is a known finding): one read outstanding, a W
# beat only after its AW, reads ordered after accepted writes, no error answers
AXI2AXL_PARTNER = dict(depth=1, aw_before_w=True, ordered=True)


def mk_axi2axl(dw, aw, pol=None, master=None, small=None, tag="", partner=None, p_err=0.0, mon_kw=None, idw=2,
               version="axi4"):
    nb = dw // 8
    axi = AXIInterface(data_width=dw, address_width=aw, id_width=idw, version=version)
    axl = AXILiteInterface(data_width=dw, address_width=aw)
    m = AXI2AXILite(axi, axl)
    lenw, sizew = {"axi4": (8, 3), "axi3": (4, 4)}[version]
    name = "AXI2AXILite(dw=%d,aw=%d%s%s)%s" % (dw, aw, ",id%d" % idw if idw != 2 else "",
                                               "," + version if version != "axi4" else "", tag)
    env = mon = None
    if pol is not None:
        kw = dict(AXL_POL[pol])
        kw.update(AXI2AXL_PARTNER if partner is None else partner)
        mkw = dict(ids=1 << idw)
        mkw.update(master or {})
        env = Env(AxiMaster(aw, nb, **mkw), AxlPartner(nb, p_err=p_err, **kw), "axl")
        name += "/" + pol
        mon = lambda inst: BridgeMonitor(inst, "axi", "axl", nb, nb, lambda a: a, lambda a: a & ~(nb - 1),
                                         **(mon_kw or dict(errs=True, fair=True)))
    dom = None
    amax = (1 << aw) - 1
    idle_w = {"m.awvalid": (0,), "m.awaddr": (0,), "m.awburst": (0,), "m.awlen": (0,), "m.awsize": (0,), "m.awid": (0,),
              "m.wvalid": (0,), "m.wdata": (0,), "m.wstrb": (0,), "m.wlast": (0,), "m.bready": (0,),
              "s.awready": (0,), "s.wready": (0,), "s.bvalid": (0,), "s.bresp": (0,)}
    idle_r = {"m.arvalid": (0,), "m.araddr": (0,), "m.arburst": (0,), "m.arlen": (0,), "m.arsize": (0,), "m.arid": (0,),
              "m.rready": (0,), "s.arready": (0,), "s.rvalid": (0,), "s.rresp": (0,), "s.rdata": (0,)}
    act_w = {"m.awaddr": (1, amax - 1), "m.awburst": (0, 1, 2), "m.awlen": (0, 1), "m.awsize": (log2(nb),), "m.awid": (2,),
             "m.wdata": ((1 << dw) - 2,), "m.wstrb": (1,), "m.wlast": (0, 1), "s.bresp": (2,)}
    if small == "w":
        act_w["m.awburst"] = (1,)
    act_r = {"m.araddr": (1, amax - 1), "m.arburst": (0, 1, 2), "m.arlen": (0, 1), "m.arsize": (log2(nb),), "m.arid": (1,),
             "s.rresp": (2,), "s.rdata": ((1 << dw) - 3,)}
    if small == "r":
        dom = dict(idle_w, **act_r)
    elif small == "w":
        dom = dict(idle_r, **act_w)
    elif small == "rw":
        dom = {"m.awaddr": (2,), "m.awburst": (1,), "m.awlen": (1,), "m.awsize": (0,), "m.awid": (2,),
               "m.wdata": (5,), "m.wstrb": (1,), "m.wlast": (1,), "s.bresp": (0,), "s.bvalid": (0,),
               "m.araddr": (1,), "m.arburst": (1,), "m.arlen": (1,), "m.arsize": (0,), "m.arid": (1,),
               "s.rresp": (0,), "s.rdata": (9,), "m.bready": (1,), "m.rready": (1,)}
    return PortInst(name, m, "axi2axl %d" % aw, "axi", axi, "axl", axl, dom=dom, env=env, monitor=mon,
                    m_par=dict(dw=dw, aw=aw, idw=idw, lenw=lenw, sizew=sizew), s_par=dict(dw=dw, aw=aw))


def mk_axl2axi(dw, aw, small=False, tag="", defaults=False, wid=1, rid=2, prot=5, burst="INCR", idw=2):
    nb = dw // 8
    axl = AXILiteInterface(data_width=dw, address_width=aw)
    axi = AXIInterface(data_width=dw, address_width=aw, id_width=idw)
    if defaults:
        m = AXILite2AXI(axl, axi)
        wid, rid, prot, burst = 0, 0, 0, "INCR"
    else:
        m = AXILite2AXI(axl, axi, write_id=wid, read_id=rid, prot=prot, burst_type=burst)
    extra = [axi.aw.prot, axi.aw.cache, axi.ar.prot, axi.ar.cache, axi.aw.lock, axi.aw.qos, axi.ar.lock, axi.ar.qos]
    xn = ("x_awprot", "x_awcache", "x_arprot", "x_arcache", "x_awlock", "x_awqos", "x_arlock", "x_arqos")
    s_ports = (L.AXI_S, L.axi_s_sigs(axi), L.AXI_M + xn, L.axi_m_sigs(axi) + extra)
    fw = L.field_widths("axi", dw=dw, aw=aw, idw=idw)
    fw.update(x_awprot=3, x_awcache=4, x_arprot=3, x_arcache=4, x_awlock=1, x_awqos=4, x_arlock=1, x_arqos=4)
    dom = None
    if small:
        amax = (1 << aw) - 1
        dom = {"awaddr": (0, amax), "araddr": (0, amax), "wdata": (0, (1 << dw) - 1), "wstrb": (0, (1 << nb) - 1),
               "bresp": (0, 2), "rresp": (0, 2), "rdata": (0, (1 << dw) - 2), "bid": (1,), "rid": (2,), "rlast": (0, 1)}
    code = {"FIXED": 0, "INCR": 1, "WRAP": 2}[burst]
    name = "AXILite2AXI(dw=%d,aw=%d,%s,ids %d/%d,prot %d%s)%s" % (dw, aw, burst, wid, rid, prot,
                                                                ",defaults" if defaults else "", tag)
    mon = lambda inst: L.AxiAttrMonitor(inst, nb, full=True, wrap_len_free=True)
    return PortInst(name, m, "axl2axi %d %d %d %d %d" % (dw, code, prot, wid, rid), "axl", axl,
                    s_ports=s_ports, dom=dom, monitor=mon, m_par=dict(dw=dw, aw=aw), s_par={"widths": fw})


def mk_ahb2wb(dw, aw, addressing="word", pol=None, small=False, p_err=0.0, tag=""):
    nb = dw // 8
    lg = log2(nb)
    shift = lg if addressing == "word" else 0
    hb = ahb.AHBInterface(data_width=dw, address_width=aw)
    wb = wishbone.Interface(data_width=dw, adr_width=aw - lg, addressing=addressing)
    m = ahb.AHB2Wishbone(hb, wb)
    name = "AHB2Wishbone(dw=%d,aw=%d,%s)%s" % (dw, aw, addressing, tag)
    env = mon = None
    if pol is not None:
        s_amap = lambda adr: (adr << shift) & ~(nb - 1)
        env = Env(AhbMaster(aw, nb), WbPartner(nb, p_err=p_err, amap=s_amap, **WB_POL[pol]), "wb")
        name += "/" + pol
        mon = lambda inst: BridgeMonitor(inst, "ahb", "wb", nb, nb, lambda a: a, s_amap, errs=True)
    dom = None
    if small:
        dom = {"haddr": tuple(range(nb)) + ((1 << aw) - 1,), "hsize": (0, 1, 2, 3),
               "htrans": (2, 3), "hwdata": ((1 << dw) - 2,), "datr": ((1 << dw) - 3,)}
        if small == "q":
            dom.update(haddr=tuple(range(nb)), htrans=(2,))
    return PortInst(name, m, "ahb2wb %d %d" % (lg, shift), "ahb", hb, "wb", wb, dom=dom, env=env, monitor=mon,
                    m_par=dict(dw=dw, aw=aw), s_par=dict(dw=dw, aw=aw, adr=aw - shift))


def mk_axlconv_same(dw, aw, pol):
    """AXILiteConverter with equal widths: the selection code connects master and slave directly."""
    nb = dw // 8
    mi = AXILiteInterface(data_width=dw, address_width=aw)
    si = AXILiteInterface(data_width=dw, address_width=aw)
    m = AXILiteConverter(mi, si)
    env = Env(AxlMaster(aw, nb, **MASTERS["pipelined"]), AxlPartner(nb, p_err=0.1, **AXL_POL[pol]), "axl")
    mon = lambda inst: BridgeMonitor(inst, "axl", "axl", nb, nb, lambda a: a & ~(nb - 1), lambda a: a & ~(nb - 1),
                                     errs=True, b_order=True)
    return MonitorOnlyInst("AXILiteConverter(%d->%d,aw=%d)/pipelined/%s" % (dw, dw, aw, pol), m, "unit", "axl", mi,
                           "axl", si, env=env, monitor=mon, m_par=dict(dw=dw, aw=aw), s_par=dict(dw=dw, aw=aw))


def mk_axi2wb(dw, aw, base=0, pol=None, small=False, tag=""):
    nb = dw // 8
    shift = log2(nb)
    axi = AXIInterface(data_width=dw, address_width=aw, id_width=2)
    wb = wishbone.Interface(data_width=dw, adr_width=aw - shift, addressing="word")
    m = AXI2Wishbone(axi, wb, base_address=base)
    name = "AXI2Wishbone(dw=%d,aw=%d,base=0x%x)%s" % (dw, aw, base, tag)
    env = mon = None
    mask = (1 << aw) - 1
    if pol is not None:
        s_amap = lambda adr: (adr << shift) & ~(nb - 1)
        env = Env(AxiMaster(aw, nb), WbPartner(nb, amap=s_amap, **WB_POL[pol]), "wb")
        name += "/" + pol
        mon = lambda inst: BridgeMonitor(inst, "axi", "wb", nb, nb, lambda a: (a - base) & mask, s_amap, errs=True,
                                         fair=True)
    dom = None
    if small:
        dom = {"m.awaddr": (2,), "m.awburst": (1,), "m.awlen": (1,), "m.awsize": (0,), "m.awid": (2,),
               "m.wdata": (5,), "m.wstrb": (1,), "m.wlast": (0, 1), "m.araddr": (1,), "m.arburst": (1,), "m.arlen": (1,),
               "m.arsize": (0,), "m.arid": (1,), "m.bready": (1,), "s.datr": (9,), "s.err": (0,)}
    return PortInst(name, m, "axi2wb %d %d %d %d" % (aw, nb, shift, base), "axi", axi, "wb", wb, dom=dom, env=env,
                    monitor=mon, m_par=dict(dw=dw, aw=aw, idw=2), s_par=dict(dw=dw, aw=aw, adr=aw - shift))


def mk_wb2axi(dw, aw, base=0, pol=None, small=False, tag=""):
    nb = dw // 8
    shift = log2(nb)
    wb = wishbone.Interface(data_width=dw, adr_width=aw - shift, addressing="word")
    axi = AXIInterface(data_width=dw, address_width=aw, id_width=1)
    m = Wishbone2AXI(wb, axi, base_address=base)
    name = "Wishbone2AXI(dw=%d,aw=%d,base=0x%x)%s" % (dw, aw, base, tag)
    env = mon = None
    mask = (1 << aw) - 1
    if pol is not None:
        env = Env(WbMaster(aw - shift, nb), AxiSinglePartner(nb, **AXL_POL[pol]), "axi")
        name += "/" + pol
        mon = lambda inst: BridgeMonitor(inst, "wb", "axi", nb, nb, lambda adr: (((adr << shift) - base) & mask) & ~(nb - 1),
                                         lambda a: a, errs=True)
    dom = None
    if small:
        amax = (1 << (aw - shift)) - 1
        dom = {"adr": (0, amax), "datw": ((1 << dw) - 1,), "sel": ((1 << nb) - 1,), "rdata": ((1 << dw) - 2,),
               "bresp": (0, 2), "rresp": (0, 3), "bid": (0,), "rid": (0,), "rlast": (1,)}
    return PortInst(name, m, "wb2axi %d %d %d %d" % (aw - shift, shift, base, dw), "wb", wb, "axi", axi, dom=dom,
                    env=env, monitor=mon, m_par=dict(dw=dw, aw=aw, adr=aw - shift), s_par=dict(dw=dw, aw=aw, idw=1))


def mk_axi2wb_sram(dw, aw=16, p_wgap=0.6, max_len=15, tag=""):
    """AXI2Wishbone in front of the repo's own `wishbone.SRAM` (registered ack), closed: a protocol-following AXI
    master that leaves gaps between the W beats of its bursts (W valid, once raised, is held until taken - AXI
    A3.2.1) and delays AW / W against each other; flat-memory, burst, stability and progress monitors on the AXI port.
    (A master that WITHDRAWS w.valid before w.ready is outside the protocol: the bridge then pairs the registered ack
    with the next beat and hangs - observed by the C10 builder's first driver; not a defect of the bridge.)"""
    nb = dw // 8
    shift = log2(nb)
    axi = AXIInterface(data_width=dw, address_width=aw, id_width=2)
    wb = wishbone.Interface(data_width=dw, adr_width=aw - shift, addressing="word")
    top = Module()
    top.submodules.bridge = AXI2Wishbone(axi, wb)
    init = [sum(L.init_byte(nb * i + j) << (8 * j) for j in range(nb)) for i in range((1 << 12) // nb)]
    top.submodules.sram = wishbone.SRAM(1 << 12, bus=wb, init=init)   # the monitors' reference memory content
    name = "AXI2Wishbone(dw=%d)+wishbone.SRAM/w-gaps%s" % (dw, tag)
    master = AxiMaster(12, nb, max_len=max_len, p_wgap=p_wgap, p_wr=0.5, p_rd=0.2, max_delay=4, w_early=True)
    env = Env(master, None, None)
    mon = lambda inst: BridgeMonitor(inst, "axi", None, nb, nb, lambda a: a & 0xfff, None, errs=False, hang=400)
    return MonitorOnlyInst(name, top, "unit", "axi", axi, env=env, monitor=mon, m_par=dict(dw=dw, aw=aw, idw=2))


def mk_adapter(master_kind, master_dw, bus_std, bus_dw, direction, pol, aw=32, tag=""):
    """The adapter chain `SoCBusHandler.add_adapter` inserts between an interface of one standard/width and a bus of
    another (direction m2s: the interface is a master of the bus; s2m: it is a slave of the bus).  The harness
    drives the master end and plays the memory at the slave end; monitors only."""
    from litex.soc.integration.soc import SoCBusHandler
    mk_if = {"wishbone": lambda dw: wishbone.Interface(data_width=dw, adr_width=aw - log2(dw // 8), addressing="word"),
             "wishbone-byte": lambda dw: wishbone.Interface(data_width=dw, adr_width=aw - log2(dw // 8),
                                                            addressing="byte"),
             "axi-lite": lambda dw: AXILiteInterface(data_width=dw, address_width=aw),
             "axi": lambda dw: AXIInterface(data_width=dw, address_width=aw, id_width=1),
             "ahb": lambda dw: ahb.AHBInterface(data_width=dw, address_width=aw)}
    kind = {"wishbone": "wb", "wishbone-byte": "wb", "axi-lite": "axl", "axi": "axi", "ahb": "ahb"}
    byte_m = master_kind == "wishbone-byte" and direction == "m2s"
    bus = SoCBusHandler(standard=bus_std, data_width=bus_dw, address_width=aw)
    itf = mk_if[master_kind](master_dw)
    other = bus.add_adapter("probe", itf, direction)
    if direction == "m2s":
        m_itf, m_k, m_dw, s_itf, s_k, s_dw = itf, kind[master_kind], master_dw, other, kind[bus_std], bus_dw
    else:
        m_itf, m_k, m_dw, s_itf, s_k, s_dw = other, kind[bus_std], bus_dw, itf, kind[master_kind], master_dw
    mnb, snb = m_dw // 8, s_dw // 8
    name = "add_adapter(%s/%d %s %s/%d)/%s%s" % (master_kind, master_dw, "->" if direction == "m2s" else "<-", bus_std,
                                                 bus_dw, pol, tag)
    serial = dict(max_out=1, order="aw_first")
    master = {"wb": lambda: WbMaster(aw if byte_m else aw - log2(mnb), mnb),
              "axl": lambda: AxlMaster(aw, mnb, **serial),
              "axi": lambda: AxiMaster(aw, mnb, max_len=3, ids=2),
              "ahb": lambda: AhbMaster(aw, mnb)}[m_k]()
    if s_k == "wb":
        s_amap = lambda adr: (adr * snb)
        partner = WbPartner(snb, amap=s_amap, **WB_POL[{"fast": "fast", "slow": "slow"}.get(pol, "mixed")])
    elif s_k == "axl":
        s_amap = lambda a: a & ~(snb - 1)
        partner = AxlPartner(snb, **dict(AXL_POL[pol], **AXI2AXL_PARTNER))
    else:
        s_amap = lambda a: a
        partner = AxiSinglePartner(snb, **dict(AXL_POL[pol], **AXI2AXL_PARTNER))
    m_amap = {"wb": (lambda adr: adr & ~(mnb - 1)) if byte_m else (lambda adr: adr * mnb), "axl": lambda a: a & ~(mnb - 1), "axi": lambda a: a, "ahb": lambda a: a}[m_k]
    env = Env(master, partner, s_k)
    mon = lambda inst: BridgeMonitor(inst, m_k, s_k, mnb, snb, m_amap, s_amap, errs=False)
    par = lambda k, dw: dict(dw=dw, aw=aw, adr=aw if (byte_m and dw == m_dw and k == m_k) else aw - log2(dw // 8)) \
        if k == "wb" else \
        (dict(dw=dw, aw=aw, idw=1) if k == "axi" else dict(dw=dw, aw=aw))
    # the widths of the interface the glue created are checked against the bus parameters the user asked for
    if master_kind == "axi-lite" and bus_std == "wishbone" and direction == "m2s" and master_dw > bus_dw:
        # chain with a Lean composite (Chain.machine = AXILiteDownConverter ; AXILite2Wishbone): every output of every
        # cycle of the chain add_adapter built is compared with the composed model, monitors armed as well
        lean_open = "chaindw %d %d %d %d %d %d 0" % (master_dw // bus_dw, snb, aw, aw, snb, log2(snb))
        return PortInst(name, bus, lean_open, m_k, m_itf, s_k, s_itf, env=env, monitor=mon, m_par=par(m_k, m_dw),
                        s_par=par(s_k, s_dw))
    return MonitorOnlyInst(name, bus, "unit", m_k, m_itf, s_k, s_itf, env=env, monitor=mon, m_par=par(m_k, m_dw),
                           s_par=par(s_k, s_dw))


MAKERS.update(mk_axl2wb=mk_axl2wb, mk_wb2axl=mk_wb2axl, mk_axlsram=mk_axlsram, mk_axl2csr=mk_axl2csr,
               mk_axldown=mk_axldown, mk_axlup=mk_axlup, mk_axi2axl=mk_axi2axl, mk_ahb2wb=mk_ahb2wb,
               mk_axi2wb=mk_axi2wb, mk_wb2axi=mk_wb2axi)

ADAPTER_GRID = [
    # (interface standard, width, bus standard, width, direction, partner policy)
    ("axi-lite", 32, "wishbone", 32, "m2s", "mixed"), ("axi-lite", 64, "wishbone", 32, "m2s", "fast"),
    ("axi-lite", 32, "wishbone", 64, "m2s", "slow"), ("wishbone", 32, "axi-lite", 32, "m2s", "accept-early"),
    ("wishbone", 32, "axi-lite", 32, "s2m", "respond-late"), ("axi-lite", 32, "wishbone", 32, "s2m", "accept-late"),
    ("axi-lite", 64, "axi-lite", 32, "m2s", "fast"), ("axi-lite", 32, "axi-lite", 64, "m2s", "accept-early"),
    ("axi", 32, "wishbone", 32, "m2s", "mixed"), ("axi", 32, "axi-lite", 32, "m2s", "fast"),
    ("ahb", 32, "wishbone", 32, "m2s", "mixed"), ("wishbone", 32, "axi", 32, "m2s", "accept-early"),
    ("axi-lite", 32, "axi", 32, "m2s", "respond-late"), ("wishbone", 64, "axi-lite", 32, "m2s", "fast"),
    ("axi-lite", 32, "axi-lite", 64, "s2m", "fast"), ("axi-lite", 64, "axi-lite", 32, "s2m", "accept-late"),
    # corners: byte-addressed Wishbone master, 128-bit interface (ratio 4 + bridge), 64-bit address bus
    ("wishbone-byte", 32, "axi-lite", 32, "m2s", "fast"), ("axi-lite", 128, "wishbone", 32, "m2s", "mixed"),
    ("axi-lite", 32, "axi-lite", 128, "m2s", "accept-early"), ("axi", 64, "wishbone", 64, "m2s", "fast"),
]


def jobs(tier):
    quick = tier == "quick"
    J = []
    A = lambda mk, **kw: J.append(Job("A", mk, max_states=kw.pop("max_states", 50000 if quick else 1000000), **kw))
    B = lambda mk, **kw: J.append(Job("B", mk, cycles=kw.pop("cycles", 3000 if quick else 12000),
                                      runs=1 if quick else 2, **kw))
    # ---- AXILite2Wishbone
    A(lambda: mk_axl2wb(8, 2, base=1, small=True))
    A(lambda: mk_axl2wb(16, 3, base=0, small=True))
    for pol in WB_POL:
        B(lambda pol=pol: mk_axl2wb(32, 32, base=0x1000, pol=pol))
    B(lambda: mk_axl2wb(64, 32, base=0x40000000, pol="mixed"))
    B(lambda: mk_axl2wb(32, 16, base=0x30, addressing="byte", pol="mixed"))
    B(lambda: mk_axl2wb(32, 32, base=0x2000, tag="/garbage"))
    B(lambda: mk_axl2wb(128, 32, base=0x100000, pol="fast"))
    B(lambda: mk_axl2wb(32, 32, base=0x1000, pol="mixed", master=AxlMaster(32, 4, **MASTERS["busy"]), tag="/busy"))
    B(lambda: mk_axl2wb(64, 64, base=0x100000000, pol="fast", master=AxlMaster(64, 8, **MASTERS["pipelined"]),
                        tag="/pipelined"))
    # ---- AXILiteSRAM / AXILite2CSR (axi_lite_to_simple)
    A(lambda: mk_axlsram(8, 1, 2, small=True))
    if not quick:
        A(lambda: mk_axlsram(16, 3, 2, small=True))
    A(lambda: mk_axlsram(8, 2, 2, read_only=True, small=True))
    A(lambda: mk_axl2csr(8, 2, csr_aw=1, small=True))
    for ms in ("single", "pipelined", "w-first", "aw-first", "busy", "lazy"):
        B(lambda ms=ms: mk_axlsram(32, 32, 64, master=ms))
    B(lambda: mk_axlsram(64, 16, 16, master="pipelined"))
    B(lambda: mk_axlsram(32, 16, 32, read_only=True, master="busy"))
    B(lambda: mk_axlsram(32, 16, 32, tag="/garbage"))
    B(lambda: mk_axlsram(128, 32, 8, master="busy"))
    B(lambda: mk_axlsram(32, 32, 48, master="pipelined"))                 # depth not a power of two
    B(lambda: mk_axlsram(32, 32, 16, master="w-first", variant="memory"))
    B(lambda: mk_axlsram(32, 32, 32, master="aw-first", variant="default-bus"))
    B(lambda: mk_axl2csr(32, 32, master="lazy", defaults="axl"))
    B(lambda: mk_axl2csr(8, 32, master="busy", defaults="csr"))
    for ms in ("single", "pipelined", "busy"):
        B(lambda ms=ms: mk_axl2csr(32, 32, master=ms))
    B(lambda: mk_axl2csr(8, 16, csr_aw=10, master="w-first"))
    B(lambda: mk_axl2csr(32, 32, tag="/garbage"))
    # ---- AXI-Lite down-converter
    A(lambda: mk_axldown(16, 8, 2, small="w", tag="/write-path"))
    A(lambda: mk_axldown(16, 8, 2, small="r", tag="/read-path"))
    A(lambda: mk_axldown(32, 8, 3, small="w6" if quick else "w", tag="/write-path"))
    A(lambda: mk_axldown(32, 8, 3, small="r", tag="/read-path"))
    for (f, t) in ((64, 32), (32, 8), (64, 8)):
        for k, pol in enumerate(AXL_POL):
            ms = list(MASTERS)[(k + f) % 6]
            if quick and (f, t) != (64, 32) and k % 2:
                continue
            B(lambda f=f, t=t, pol=pol, ms=ms: mk_axldown(f, t, 32, pol=pol, master=ms, p_err=0.1))
    B(lambda: mk_axldown(64, 16, 16, tag="/garbage"))
    B(lambda: mk_axldown(128, 32, 32, pol="fast", master="busy", p_err=0.1))
    B(lambda: mk_axldown(128, 64, 64, pol="accept-late", master="unaligned", p_err=0.1))
    B(lambda: mk_axldown(64, 32, 32, pol="respond-late", master="pipelined", s_aw=16))        # narrower slave address
    B(lambda: mk_axldown(64, 32, 32, pol="accept-early", master="w-first", cls=AXILiteConverter, p_err=0.1))
    B(lambda: mk_axldown(64, 8, 32, cls=AXILiteConverter, s_aw=12, tag="/garbage"))
    # ---- AXI-Lite up-converter (a master that issues a new address while a transfer of the same direction is
    #      open is outside the proved domain: finding C09-axil-upconv-lane-follows-address)
    A(lambda: mk_axlup(8, 16, 2, small=True))
    for (f, t) in ((32, 64), (8, 32), (8, 64)):
        for k, pol in enumerate(AXL_POL):
            ms = ("aw-then-w", "aw-with-w", "aw-then-w-busy")[(k + t) % 3]
            if quick and (f, t) != (32, 64) and k % 2:
                continue
            B(lambda f=f, t=t, pol=pol, ms=ms: mk_axlup(f, t, 32, pol=pol, master=ms, p_err=0.1))
    B(lambda: mk_axlup(16, 64, 16, tag="/garbage"))
    B(lambda: mk_axlup(32, 128, 32, pol="fast", master="aw-then-w-busy", p_err=0.1))
    B(lambda: mk_axlup(64, 128, 64, pol="respond-late", master="aw-with-w", p_err=0.1))
    B(lambda: mk_axlup(32, 64, 32, pol="accept-late", master="aw-then-w", s_aw=16))
    B(lambda: mk_axlup(32, 64, 32, pol="accept-early", master="aw-then-w", cls=AXILiteConverter, p_err=0.1))
    B(lambda: mk_axlup(8, 64, 32, cls=AXILiteConverter, s_aw=12, tag="/garbage"))
    B(lambda: mk_axlconv_same(32, 32, "pipeline2"))
    # ---- AXI2AXILite / AXILite2AXI
    A(lambda: mk_axi2axl(16, 3, small="r", tag="/read-path"))
    A(lambda: mk_axi2axl(16, 3, small="w", tag="/write-path"), max_states=30000 if quick else 1000000)
    A(lambda: mk_axi2axl(8, 2, small="rw", tag="/arbitration"))
    for k, pol in enumerate(AXL_POL):
        if pol == "pipeline2":
            continue
        B(lambda pol=pol: mk_axi2axl(32, 32, pol=pol))
    B(lambda: mk_axi2axl(64, 32, pol="accept-early", master=dict(max_len=7, max_out=2)))
    B(lambda: mk_axi2axl(32, 16, pol="fast", master=dict(p_wr=0.8, p_rd=0.8, p_bready=0.9, p_rready=0.9, max_delay=0)))
    B(lambda: mk_axi2axl(32, 32, tag="/garbage"))
    B(lambda: mk_axi2axl(32, 32, pol="accept-early", version="axi3", master=dict(max_len=7)))
    B(lambda: mk_axi2axl(128, 32, pol="fast", idw=4, master=dict(max_len=5, max_out=2)))
    B(lambda: mk_axi2axl(64, 64, pol="respond-late", idw=1))
    B(lambda: mk_axl2axi(32, 32))
    B(lambda: mk_axl2axi(32, 32, defaults=True))
    B(lambda: mk_axl2axi(64, 32, wid=3, rid=0, prot=2, burst="FIXED"))
    B(lambda: mk_axl2axi(128, 64, wid=0, rid=3, prot=7, burst="WRAP"))
    # ---- AHB2Wishbone
    A(lambda: mk_ahb2wb(32, 3, small=True))
    A(lambda: mk_ahb2wb(64, 4, small="q" if quick else True))
    for pol in WB_POL:
        B(lambda pol=pol: mk_ahb2wb(32, 32, pol=pol))
    B(lambda: mk_ahb2wb(64, 32, pol="mixed"))
    B(lambda: mk_ahb2wb(32, 16, addressing="byte", pol="mixed"))
    B(lambda: mk_ahb2wb(64, 32, tag="/garbage"))
    # ---- AXI2Wishbone / Wishbone2AXI (compositions of the models above)
    A(lambda: mk_axi2wb(8, 2, base=1, small=True))
    A(lambda: mk_wb2axi(8, 2, base=0, small=True))
    for pol in ("fast", "mixed"):
        B(lambda pol=pol: mk_axi2wb(32, 32, base=0x1000, pol=pol))
    B(lambda: mk_axi2wb(64, 32, base=0, pol="slow"))
    for pol in ("accept-early", "respond-late"):
        B(lambda pol=pol: mk_wb2axi(32, 32, base=0x1000, pol=pol))
    B(lambda: mk_wb2axi(64, 32, base=0x2000, pol="fast"))
    # ---- adapter chains inserted by SoCBusHandler.add_adapter: monitors; the wide-AXI-Lite -> Wishbone chains are also
    #      co-simulated against the composed Lean machine (Chain.machine); the selection glue itself is compared with
    #      the Lean function for ALL combinations in c09adapt.differential
    for g in ADAPTER_GRID:
        B(lambda g=g: mk_adapter(*g))
    # ---- Wishbone2AXILite
    B(lambda: mk_wb2axl(128, 32, base=0x4000, pol="accept-early", p_err=0.1))
    B(lambda: mk_wb2axl(64, 64, base=0x200000000, pol="fast", p_err=0.1))
    A(lambda: mk_wb2axl(8, 2, base=4, small=True))
    if not quick:
        A(lambda: mk_wb2axl(16, 3, base=2, small=True))
    for pol in AXL_POL:
        B(lambda pol=pol: mk_wb2axl(32, 32, base=0x1000, pol=pol, p_err=0.1))
    B(lambda: mk_wb2axl(64, 32, base=0x1000, pol="pipeline2", p_err=0.1))
    B(lambda: mk_wb2axl(32, 16, base=0x30, addressing="byte", pol="accept-early", p_err=0.1))
    B(lambda: mk_wb2axl(32, 32, base=0x2000, tag="/garbage"))
    # ---- wide buses (256 / 512 / 1024 bits) for every bridge that takes a data width: short runs (the width-dependent
    #      constants - AxSIZE, select/strobe widths, address shifts - show in the first transactions)
    W = lambda mk: J.append(Job("B", mk, cycles=400 if quick else 1500, runs=1))
    for dw in (256, 512, 1024):
        W(lambda dw=dw: mk_axl2axi(dw, 32))
        W(lambda dw=dw: mk_axl2axi(dw, 64, defaults=True))
        W(lambda dw=dw: mk_wb2axi(dw, 32, base=0x1000, pol="fast"))
        W(lambda dw=dw: mk_axi2axl(dw, 32, pol="fast", master=dict(max_len=3)))
        W(lambda dw=dw: mk_axl2wb(dw, 32, base=0x1000, pol="fast"))
        W(lambda dw=dw: mk_wb2axl(dw, 32, base=0x1000, pol="fast"))
        if quick and dw != 512:
            continue
        W(lambda dw=dw: mk_axi2wb(dw, 32, base=0, pol="fast"))
        W(lambda dw=dw: mk_axlsram(dw, 32, 8, master="busy"))
        W(lambda dw=dw: mk_axldown(dw, dw // 2, 32, pol="fast", master="busy"))
        W(lambda dw=dw: mk_axlup(dw // 2, dw, 32, pol="fast", master="aw-then-w-busy"))
    B(lambda: mk_axi2wb_sram(32), cycles=2500 if quick else 10000)
    W(lambda: mk_adapter("axi-lite", 256, "axi", 256, "m2s", "fast"))
    W(lambda: mk_adapter("wishbone", 512, "axi", 512, "m2s", "fast"))
    return J


CORPUS = os.path.join(os.path.dirname(os.path.dirname(os.path.dirname(os.path.abspath(__file__)))), "corpus", "C09")


def corpus_run(ctx):
    """corpus/C09/*.json: hand-made witnesses (findings, fixed findings, corner cases).  Each is replayed on the real
    code and on the Lean model (every output of every cycle must agree: the model is the code as it is) and judged
    by the property monitor; `monitor_fires` records the expected verdict on the current tree."""
    dis = []
    n = 0
    for path in sorted(glob.glob(os.path.join(CORPUS, "*.json"))):
        w = json.load(open(path))
        inst = MAKERS[w["make"]["fn"]](*w["make"].get("args", []), **w["make"].get("kwargs", {}))
        inst.strict_env = False
        trace = [tuple(l) for l in w["trace"]]
        ctx.lean.open(inst.lean_open)
        mouts = ctx.lean.run([list(l) for l in trace])
        ctx.lean.close_session()
        mon = inst.monitor()
        fired = None
        for t, letter in enumerate(trace):
            outs = impl_step(inst, letter)
            if not _masked_equal(inst, outs, mouts[t]):
                dis.append(Disagreement(inst, trace[:t + 1], t, outs, mouts[t], kind="correspondence"))
                break
            m = mon.observe(letter, outs)
            if m and fired is None:
                fired = (t, m)
        n += 1
        exp = w.get("monitor_fires", False)
        if fired and not exp:
            dis.append(Disagreement(inst, trace[:fired[0] + 1], fired[0], None, None,
                                    kind="monitor:corpus %s: %s" % (os.path.basename(path), fired[1])))
        elif exp and not fired:
            ctx.cov.notes.append("corpus %s: the monitor no longer fires (finding %s)" % (os.path.basename(path),
                                                                                       w.get("finding")))
        ctx.cov.add_cases("corpus " + os.path.basename(path), len(trace), len(trace), exhaustive=False, mode="corpus")
    ctx.log("corpus: %d witnesses replayed on code and model" % n)
    return dis


def adapter_args(combo):
    """Arguments of `mk_adapter` for a combination of the selection-glue grid (None if it cannot be expressed)."""
    std, dw, aw, ba, bstd, bdw, baw, m2s = combo
    if aw != baw:
        return None
    kind = "wishbone-byte" if (std == "wishbone" and ba) else std
    pol = "mixed" if (bstd == "wishbone" if m2s else std == "wishbone") else "fast"
    return [kind, dw, bstd, bdw, "m2s" if m2s else "s2m", pol, aw]


def correspond(ctx):
    dis = corpus_run(ctx)
    # selection glue of SoCBusHandler.add_adapter and of the converter wrappers against the Lean function (all
    # combinations of the grid), before the worker pool of the machine jobs is started
    dis += c09adapt.differential(ctx)
    ctx.jobs = jobs(ctx.tier)
    try:
        d2, bad = run_jobs(ctx, ctx.jobs)
    except Exception as ex:
        # an instance of the grid can no longer be built / driven on this tree: a disagreement by itself; what the
        # corpus and the selection-glue / constant differential found is kept (it usually names the cause)
        d = Disagreement(None, [], 0, None, None, kind="correspondence-exception: the machine jobs raised %r" % (ex,))
        d.inst_name = "jobs"
        return dis + [d]
    # mode A has to reach the complete reachable product on the unchanged tree; an exploration that runs into the
    # state bound (state explosion of a changed implementation) is a disagreement, not a silent loss of coverage
    for i in ctx.cov.instances:
        if i.get("mode") == "A" and not i.get("exhaustive") and not any(d.inst_name == i["instance"] for d in d2):
            d = Disagreement(None, [], 0, None, None, kind="exploration of %s stopped at %d states without covering the "
                             "reachable product" % (i["instance"], i.get("states", 0)))
            d.inst_name = i["instance"]
            d2.append(d)
    return dis + d2


def closed_loop_search(inst, rng, cycles):
    """Run the instance's own protocol environment with the property monitor armed."""
    n = inst.netlist
    root = n.snapshot()
    mon = inst.monitor()
    trace = []
    res = None
    for t in range(cycles):
        letter = inst.gen(rng, t)
        outs = impl_step(inst, letter)
        trace.append(letter)
        m = mon.observe(letter, outs)
        if m:
            res = (trace, m)
            break
    n.restore(root)
    return res


def search(ctx, disagreements, proof_info):
    """Failing-input search on the real code: (1) a monitor that fired during co-simulation, (2) disagreement
    traces replayed with the monitor armed, (3) fresh closed-loop runs (protocol environments + monitors) of
    every instance that has an environment, the disagreeing ones first and longest."""
    deadline = time.time() + (90 if ctx.tier == "quick" else 600)
    all_jobs = getattr(ctx, "jobs", None) or jobs(ctx.tier)
    for d in disagreements:
        if getattr(d, "kind", "").startswith("monitor:"):
            return {"instance": d.inst_name, "trace": [list(l) for l in d.trace], "monitor": d.kind[8:],
                    "letter_format": FMT, "combo": getattr(d, "combo", None), "axsize": getattr(d, "axsize", None)}
    # a difference in the selection glue: drive the chain the real glue built for that combination, monitors armed
    for d in disagreements:
        args = adapter_args(d.combo) if getattr(d, "combo", None) else None
        if args is None:
            continue
        try:
            inst = mk_adapter(*args)
            r = closed_loop_search(inst, ctx.rng, 4000)
        except Exception as ex:
            return {"instance": d.inst_name, "trace": [], "combo": d.combo, "letter_format": FMT,
                    "monitor": "the chain add_adapter built cannot be elaborated / driven: %r" % (ex,)}
        if r:
            return {"instance": inst.name, "trace": [list(l) for l in r[0]], "monitor": r[1], "letter_format": FMT,
                    "adapter_args": args}
    bad = [d.job for d in disagreements if getattr(d, "job", None) is not None]
    bad_names = {d.inst_name.split("/")[0] for d in disagreements if d.inst_name}
    order = sorted(range(len(all_jobs)), key=lambda j: (j not in bad,))
    rounds = 0
    while time.time() < deadline and rounds < 6:
        rounds += 1
        for j in order:
            if time.time() > deadline:
                break
            try:
                inst = all_jobs[j].make()
            except Exception:
                continue
            if inst.env is None:
                for d in disagreements:
                    if d.job == j and rounds == 1:
                        r = replay_with_monitor(inst, [tuple(l) for l in d.trace])
                        if r:
                            return {"instance": inst.name, "trace": [list(l) for l in d.trace[:r[0] + 1]],
                                    "monitor": r[1], "letter_format": FMT}
                continue
            related = inst.name.split("/")[0] in bad_names or not bad_names
            if not related and rounds < 2:
                continue
            try:
                r = closed_loop_search(inst, ctx.rng, 4000 if related else 1500)
            except Exception as ex:      # a changed implementation may crash or wedge the environment
                return {"instance": inst.name, "trace": [], "monitor": "exception while driving: %r" % (ex,),
                        "letter_format": FMT}
            if r:
                trace, msg = r
                return {"instance": inst.name, "trace": [list(l) for l in trace], "monitor": msg,
                        "letter_format": FMT}
    return None


# ---------------------------------------------------------------------------------------------------------
# finding probes (witnesses replayed on the real code with the property oracle armed)

F_ERR = "C09-axil2wb-err-ignored"
F_BASE = "C09-wb2axil-base-address-dw64"            # fixed 8039af6
F_UPLANE = "C09-axil-upconv-lane-follows-address-lines"
F_RLAST = "C09-axi2axil-rlast-pipelined-slave"
F_RESP = "C09-axi2axil-resp-swallowed"
F_WAW = "C09-axi2axil-w-accepted-before-aw"
F_AHBERR = "C09-ahb2wb-error-response-malformed"
F_CSRDEF = "C09-axil2csr-default-csr-bus-nameerror"   # fixed d779792
F_HANG = "C09-axil-downconv-write-hang"              # fixed f8f7de0
F_UNAL = "C09-axil-downconv-unaligned-addr"          # fixed a1e11a3


def word_at(base, nb):
    return sum(L.init_byte(base + k) << (8 * k) for k in range(nb))


def run_witness(inst, dicts):
    """Replay a hand-written witness (list of {signal name: value}, missing inputs 0) with the monitor armed."""
    inst.strict_env = False
    trace = [inst.letter_of(d) for d in dicts]
    r = replay_with_monitor(inst, trace)
    return (r is not None), ("cycle %d: %s" % r if r else "witness passes")


def closed_loop_probe(inst, seed, cycles):
    import random
    r = closed_loop_search(inst, random.Random(seed), cycles)
    return (r is not None), ("cycle %d: %s" % (len(r[0]) - 1, r[1]) if r else "%d cycles pass" % cycles)


def all_probes():
    out = []
    # -- AXILite2Wishbone answers OKAY although the Wishbone slave terminated the cycle with ack & err
    inst = mk_axl2wb(32, 32, base=0, pol="fast")
    rd = {"m.arvalid": 1, "m.araddr": 0x10, "m.rready": 1}
    w = [rd, dict(rd, **{"s.ack": 1, "s.err": 1, "s.datr": 0xDEAD}), {"m.rready": 1}, {}]
    fails, what = run_witness(inst, w)
    out.append((F_ERR, fails, "AXILite2Wishbone: read of 0x10, Wishbone answers ack & err; " + what))
    # -- Wishbone2AXILite, 64-bit bus, base 0x1000: byte address 0x1018 must reach AXI-Lite address 0x18
    inst = mk_wb2axl(64, 32, base=0x1000, pol="fast")
    rq = {"m.cyc": 1, "m.stb": 1, "m.adr": 0x203, "m.sel": 0xff}
    seen = inst.peek({})
    tr, addr = [rq], None
    inst.strict_env = False
    n = inst.netlist
    snap = n.snapshot()
    impl_step(inst, inst.letter_of(rq))
    o = inst.peek({"m." + k[2:]: v for k, v in rq.items()})
    addr = o["s.araddr"]
    n.restore(snap)
    w = [rq, dict(rq, **{"s.arready": 1}), dict(rq, **{"s.rvalid": 1, "s.rdata": word_at(addr & ~7, 8)}), {}]
    fails, what = run_witness(inst, w)
    out.append((F_BASE, fails, "Wishbone2AXILite(64-bit, base 0x1000): read of byte address 0x1018 issued as "
                               "ar.addr 0x%x; %s" % (addr, what)))
    # -- AXILiteUpConverter: the byte-lane group follows the address lines, not the transaction
    #    (a) a second AR is presented while the R of the first is outstanding
    inst = mk_axlup(32, 64, 32, pol="fast")
    w64 = word_at(0, 8)
    w = [{"m.arvalid": 1, "m.araddr": 0x0, "s.arready": 1},
         {"m.arvalid": 1, "m.araddr": 0x4, "m.rready": 1, "s.rvalid": 1, "s.rdata": w64},
         {"m.arvalid": 1, "m.araddr": 0x4, "s.arready": 1}]
    fa, wa = run_witness(inst, w)
    #    (b) W presented before its AW (previous write went to the other lane)
    inst = mk_axlup(32, 64, 32, pol="fast")
    w = [{"m.awvalid": 1, "m.awaddr": 0x4, "m.wvalid": 1, "m.wdata": 0x11111111, "m.wstrb": 0xf, "s.awready": 1,
          "s.wready": 1},
         {"m.bready": 1, "s.bvalid": 1},
         {"m.wvalid": 1, "m.wdata": 0x22222222, "m.wstrb": 0xf},
         {"m.awvalid": 1, "m.awaddr": 0x0, "m.wvalid": 1, "m.wdata": 0x22222222, "m.wstrb": 0xf, "s.awready": 1,
          "s.wready": 1}]
    fb, wb_ = run_witness(inst, w)
    out.append((F_UPLANE, fa or fb, "AXILiteUpConverter(32->64): (a) AR 0x0 accepted, AR 0x4 presented while its R is "
                                    "outstanding: %s; (b) W for address 0x0 presented one cycle before its AW, previous "
                                    "write to 0x4: %s" % (wa, wb_)))
    # -- AXI2AXILite: r.last from _cmd_done with a slave that accepts the ARs of a burst before answering
    inst = mk_axi2axl(32, 32, pol="pipeline2", partner=dict(depth=4, aw_before_w=True, ordered=True, p_resp=0.2),
                      master=dict(p_wr=0.0, max_len=3, bursts=(1,), narrow=False))
    fails, what = closed_loop_probe(inst, 21, 800)
    out.append((F_RLAST, fails, "AXI2AXILite: INCR read bursts, AXI-Lite slave accepting up to 4 ARs before answering; " + what))
    # -- AXI2AXILite: error responses swallowed / B answered before the AXI-Lite B responses
    inst = mk_axi2axl(32, 32, pol="accept-early", p_err=0.5, master=dict(p_wr=0.0))
    f1, w1 = closed_loop_probe(inst, 22, 800)
    inst = mk_axi2axl(32, 32, pol="respond-late", master=dict(p_rd=0.0), mon_kw=dict(errs=True, b_order=True))
    f2, w2 = closed_loop_probe(inst, 23, 800)
    out.append((F_RESP, f1 or f2, "AXI2AXILite: (a) AXI-Lite slave answering SLVERR on reads: %s; (b) writes, slave "
                                  "answering B late: %s" % (w1, w2)))
    # -- AXI2AXILite: AXI-Lite slave that takes W beats before the AW beats
    inst = mk_axi2axl(32, 32, pol="accept-late", partner=dict(depth=1, ordered=True), master=dict(p_rd=0.0, max_len=3))
    fails, what = closed_loop_probe(inst, 24, 1500)
    out.append((F_WAW, fails, "AXI2AXILite: write bursts, AXI-Lite slave free to accept W before AW; " + what))
    # -- AHB2Wishbone: hresp is high only while hreadyout is low; the completing cycle shows OKAY
    inst = mk_ahb2wb(32, 32, pol="mixed", p_err=0.4)
    fails, what = closed_loop_probe(inst, 25, 800)
    out.append((F_AHBERR, fails, "AHB2Wishbone: Wishbone slave answering ack & err; " + what))
    # -- fixed: AXILite2CSR with its default CSR bus (8-bit) must elaborate (csr_bus was not imported)
    try:
        AXILite2CSR(axi_lite=AXILiteInterface(data_width=8, address_width=32))
        fails, what = False, "elaborates"
    except Exception as ex:
        fails, what = True, "raises %r" % (ex,)
    out.append((F_CSRDEF, fails, "AXILite2CSR(axi_lite=<8-bit>) with the default bus_csr: " + what))
    # -- fixed: down-converter write whose first sub-word is unstrobed, slave with aw/w.ready high while idle
    inst = mk_axldown(64, 32, 32, pol="fast", master="single")
    inst.env.master.strbs = inst.env._pristine[0].strbs = (0xf0, 0xf0, 0x0f, 0xc0)
    inst._monitor = lambda i: BridgeMonitor(i, "axl", "axl", 8, 4, lambda a: a & ~7, lambda a: a & ~3, hang=60)
    fails, what = closed_loop_probe(inst, 11, 600)
    out.append((F_HANG, fails, "AXILiteDownConverter(64->32): writes with strb 0xf0 to a slave whose aw/w.ready are "
                               "high while idle; " + what))
    # -- fixed: down-converter access with low address bits set must hit the aligned wide word
    inst = mk_axldown(64, 32, 32, pol="fast", master="unaligned")
    fails, what = closed_loop_probe(inst, 12, 600)
    out.append((F_UNAL, fails, "AXILiteDownConverter(64->32): accesses with addr[2:0] != 0; " + what))
    return out


def probes(ctx):
    """Probes of findings that are not (yet) listed in known_findings.json are run and logged as notes only."""
    listed = {e.get("id") for e in ctx.known}
    out = []
    for fid, fails, what in all_probes():
        if fid in listed:
            out.append((fid, fails, what))
        else:
            note = "probe %s (not listed in known_findings.json): %s: %s" % (fid, "REPRODUCES" if fails else "passes", what)
            ctx.log(note)
            ctx.cov.notes.append(note)
    return out


def replay(ctx, payload):
    """`./check C09 --replay FILE`: re-execute the failing input on the real code with the property monitor armed."""
    fi = payload.get("failing_input") or {}
    name = fi.get("instance")
    trace = [tuple(l) for l in fi.get("trace", [])]
    if fi.get("axsize") and not trace:
        msg, _ = c09adapt.axsize_check(*fi["axsize"])
        if msg:
            print(msg)
            print("VIOLATION property=%s replay=(replayed)" % ctx.prop)
            return 1
        print("the configuration no longer violates the property on the current tree")
        return 0
    if fi.get("combo") and not trace:
        import logging
        logging.disable(logging.CRITICAL)
        combo = tuple(fi["combo"])
        try:
            msg = c09adapt.replay_combo(combo)
        except Exception as ex:
            msg = "add_adapter raised %r" % (ex,)
        if msg:
            print("%s: %s" % (c09adapt.combo_name(combo), msg))
            print("VIOLATION property=%s replay=(replayed)" % ctx.prop)
            return 1
        print("the combination no longer violates the property on the current tree")
        return 0
    if fi.get("adapter_args"):
        inst = mk_adapter(*fi["adapter_args"])
        inst.strict_env = False
        r = replay_with_monitor(inst, trace)
        if r:
            print("cycle %d: %s" % r)
            print("VIOLATION property=%s replay=(replayed)" % ctx.prop)
            return 1
        print("trace no longer violates the property on the current tree")
        return 0
    if not name:
        print("replay file carries no failing input (no-failing-input-found); disagreements were:")
        for d in payload.get("disagreements", [])[:3]:
            print("  ", d)
        return 1
    for tier in ("quick", "thorough"):
        for job in jobs(tier):
            inst = job.make()
            if inst.name != name:
                continue
            inst.strict_env = False
            r = replay_with_monitor(inst, trace)
            if r:
                print("cycle %d: %s" % r)
                print("VIOLATION property=%s replay=(replayed)" % ctx.prop)
                return 1
            print("trace no longer violates the property on the current tree")
            return 0
    print("instance %r not found" % name)
    return 2
