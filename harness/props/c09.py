"""C09 — bus bridges and AXI-Lite converters preserve memory semantics and protocol rules."""
import time
from explore import Job, run_jobs, replay_with_monitor, impl_step, Disagreement
import c09lib as L
from c09lib import PortInst, Env, AxlMaster, WbMaster, WbPartner, AxlPartner, CsrPartner, BridgeMonitor
from migen import Module
from litex.soc.interconnect import wishbone
from litex.soc.interconnect import csr_bus
from litex.soc.interconnect.axi import (AXILiteInterface, AXILite2Wishbone, Wishbone2AXILite, AXILiteSRAM, AXILite2CSR)

FMT = ("letter = master-driven signals of the master-side bus ++ slave-driven signals of the slave-side bus; "
       "AXI-Lite master: awvalid awaddr wvalid wdata wstrb bready arvalid araddr rready; AXI-Lite slave: awready "
       "wready bvalid bresp arready rvalid rresp rdata; Wishbone master: cyc stb we adr sel datw; Wishbone slave: "
       "ack datr err (see harness/c09lib.py)")

# timing policies of the memory partners: (name, kwargs)
WB_POL = {"fast": dict(p_ack=1.0), "slow": dict(p_ack=0.15), "mixed": dict(p_ack=0.5)}
AXL_POL = {"accept-early": dict(p_ready=1.0, p_exec=0.5, p_resp=0.5),
           "accept-late": dict(p_ready=0.15, p_exec=0.8, p_resp=0.8),
           "respond-late": dict(p_ready=0.8, p_exec=0.2, p_resp=0.15),
           "pipeline2": dict(p_ready=0.9, p_exec=0.4, p_resp=0.4, depth=2),
           "fast": dict(p_ready=1.0, p_exec=1.0, p_resp=1.0)}


def log2(n):
    return n.bit_length() - 1


# ---------------------------------------------------------------------------------------------------------
# instance constructors

def mk_axl2wb(dw, aw, base=0, addressing="word", pol=None, small=False, master=None, p_err=0.0, tag=""):
    nb = dw // 8
    shift = log2(nb) if addressing == "word" else 0
    axl = AXILiteInterface(data_width=dw, address_width=aw)
    wb = wishbone.Interface(data_width=dw, adr_width=aw - log2(nb), addressing=addressing)
    m = AXILite2Wishbone(axl, wb, base_address=base)
    name = "AXILite2Wishbone(dw=%d,aw=%d,base=0x%x,%s)%s" % (dw, aw, base, addressing, tag)
    env = mon = None
    if pol is not None:
        s_amap = lambda adr: (adr << shift) & ~(nb - 1)
        env = Env(master or AxlMaster(aw, nb), WbPartner(nb, p_err=p_err, amap=s_amap, **WB_POL[pol]), "wb")
        name += "/" + pol
        mask = (1 << aw) - 1
        mon = lambda inst: BridgeMonitor(inst, "axl", "wb", nb, nb,
                                         lambda a: (((a - base) & mask) >> log2(nb)) << log2(nb), s_amap, errs=True)
    dom = None
    if small:
        amax = (1 << aw) - 1
        dom = {"awaddr": (0, amax), "araddr": (1 % (amax + 1), amax - 1), "wdata": (0, (1 << dw) - 1),
               "wstrb": (0, (1 << nb) - 1), "datr": (0, (1 << dw) - 2)}
    return PortInst(name, m, "axl2wb %d %d %d %d" % (aw, nb, shift, base), "axl", axl, "wb", wb, dom=dom, env=env,
                    monitor=mon)


def mk_wb2axl(dw, aw, base=0, addressing="word", pol=None, small=False, p_err=0.0, tag=""):
    nb = dw // 8
    shift = log2(nb) if addressing == "word" else 0
    axl = AXILiteInterface(data_width=dw, address_width=aw)
    wb = wishbone.Interface(data_width=dw, adr_width=aw - log2(nb), addressing=addressing)
    m = Wishbone2AXILite(wb, axl, base_address=base)
    name = "Wishbone2AXILite(dw=%d,aw=%d,base=0x%x,%s)%s" % (dw, aw, base, addressing, tag)
    env = mon = None
    mask = (1 << aw) - 1
    if pol is not None:
        env = Env(WbMaster(len(wb.adr), nb), AxlPartner(nb, p_err=p_err, **AXL_POL[pol]), "axl")
        name += "/" + pol
        mon = lambda inst: BridgeMonitor(inst, "wb", "axl", nb, nb,
                                         lambda adr: (((adr << shift) - base) & mask) & ~(nb - 1),
                                         lambda a: a & ~(nb - 1), errs=True)
    dom = None
    if small:
        amax = (1 << len(wb.adr)) - 1
        dom = {"adr": (0, amax), "datw": (0, (1 << dw) - 1), "sel": (0, (1 << nb) - 1), "rdata": (0, (1 << dw) - 2),
               "bresp": (0, 2), "rresp": (0, 3)}
    return PortInst(name, m, "wb2axl %d %d %d" % (len(wb.adr), shift, base), "wb", wb, "axl", axl, dom=dom, env=env,
                    monitor=mon)


MASTERS = {"single": dict(max_out=1), "pipelined": dict(max_out=3, max_delay=2),
           "w-first": dict(max_out=1, order="w_first"), "aw-first": dict(max_out=2, order="aw_first"),
           "busy": dict(max_out=2, p_wr=0.9, p_rd=0.9, p_bready=0.9, p_rready=0.9, max_delay=0),
           "lazy": dict(max_out=1, p_wr=0.1, p_rd=0.1, p_bready=0.15, p_rready=0.15)}


def mk_axlsram(dw, aw, depth, read_only=False, master=None, small=False, tag=""):
    nb = dw // 8
    shift = log2(nb)
    abits = max(log2(depth), 1) if depth > 1 else 1
    bus = AXILiteInterface(data_width=dw, address_width=aw)
    init = [sum(L.init_byte(k * nb + i) << (8 * i) for i in range(nb)) for k in range(depth)]
    if small:
        init = [((1 << dw) - 1) * (k % 2) for k in range(depth)]
    m = AXILiteSRAM(depth * nb, bus=bus, init=init, read_only=read_only)
    name = "AXILiteSRAM(dw=%d,aw=%d,depth=%d%s)%s" % (dw, aw, depth, ",ro" if read_only else "", tag)
    env = mon = None
    if master is not None:
        kw = dict(MASTERS[master])
        if read_only:
            kw["p_wr"] = 0.0
        env = Env(AxlMaster(aw, nb, **kw), None, None)
        name += "/" + master
        mon = lambda inst: BridgeMonitor(inst, "axl", None, nb, None, lambda a: ((a >> shift) % depth) << shift, None)
    dom = None
    if small:
        amax = (1 << aw) - 1
        dom = {"awaddr": (0, amax), "araddr": (0, amax), "wdata": (0, (1 << dw) - 1), "wstrb": (0, (1 << nb) - 1)}
    return PortInst(name, m, "axlsram %d %d %d %d %s" % (shift, len(m.mem.get_port().adr) if False else abits, nb,
                                                        1 if read_only else 0, " ".join(map(str, init))),
                    "axl", bus, dom=dom, env=env, monitor=mon)


def mk_axl2csr(dw, aw, csr_aw=14, master=None, small=False, tag=""):
    nb = dw // 8
    shift = log2(nb)
    bus = AXILiteInterface(data_width=dw, address_width=aw)
    csr = csr_bus.Interface(data_width=dw, address_width=csr_aw)
    m = AXILite2CSR(bus, csr)
    name = "AXILite2CSR(dw=%d,aw=%d,csr_aw=%d)%s" % (dw, aw, csr_aw, tag)
    env = mon = None
    if master is not None:
        full = (1 << nb) - 1
        env = Env(AxlMaster(aw, nb, strbs=(full, full, 0), **MASTERS[master]), CsrPartner(nb=nb), "csr")
        name += "/" + master
        mon = lambda inst: BridgeMonitor(inst, "axl", None, nb, None,
                                         lambda a: ((a >> shift) % (1 << csr_aw)) << shift, None)
    dom = None
    if small:
        amax = (1 << aw) - 1
        dom = {"awaddr": (0, amax), "araddr": (0, amax), "wdata": (0, (1 << dw) - 1), "wstrb": (0, (1 << nb) - 1),
               "datr": (0, (1 << dw) - 2)}
    s_ports = (("datr",), [csr.dat_r], ("adr", "we", "re", "datw"), [csr.adr, csr.we, csr.re, csr.dat_w])
    return PortInst(name, m, "axl2csr %d %d %d" % (shift, csr_aw, nb), "axl", bus, s_ports=s_ports, dom=dom,
                    env=env, monitor=mon)


def jobs(tier):
    quick = tier == "quick"
    J = []
    A = lambda mk, **kw: J.append(Job("A", mk, max_states=kw.pop("max_states", 50000 if quick else 1000000), **kw))
    B = lambda mk, **kw: J.append(Job("B", mk, cycles=kw.pop("cycles", 3000 if quick else 30000),
                                      runs=1 if quick else 3, **kw))
    # ---- AXILite2Wishbone
    A(lambda: mk_axl2wb(8, 2, base=1, small=True))
    A(lambda: mk_axl2wb(16, 3, base=0, small=True))
    for pol in WB_POL:
        B(lambda pol=pol: mk_axl2wb(32, 32, base=0x1000, pol=pol))
    B(lambda: mk_axl2wb(64, 32, base=0x40000000, pol="mixed"))
    B(lambda: mk_axl2wb(32, 16, base=0x30, addressing="byte", pol="mixed"))
    B(lambda: mk_axl2wb(32, 32, base=0x2000, tag="/garbage"))
    # ---- AXILiteSRAM / AXILite2CSR (axi_lite_to_simple)
    A(lambda: mk_axlsram(8, 1, 2, small=True))
    A(lambda: mk_axlsram(16, 3, 2, small=True))
    A(lambda: mk_axlsram(8, 2, 2, read_only=True, small=True))
    A(lambda: mk_axl2csr(8, 2, csr_aw=1, small=True))
    for ms in MASTERS:
        B(lambda ms=ms: mk_axlsram(32, 32, 64, master=ms))
    B(lambda: mk_axlsram(64, 16, 16, master="pipelined"))
    B(lambda: mk_axlsram(32, 16, 32, read_only=True, master="busy"))
    B(lambda: mk_axlsram(32, 16, 32, tag="/garbage"))
    for ms in ("single", "pipelined", "busy"):
        B(lambda ms=ms: mk_axl2csr(32, 32, master=ms))
    B(lambda: mk_axl2csr(8, 16, csr_aw=10, master="w-first"))
    B(lambda: mk_axl2csr(32, 32, tag="/garbage"))
    # ---- Wishbone2AXILite
    A(lambda: mk_wb2axl(8, 2, base=4, small=True))
    A(lambda: mk_wb2axl(16, 3, base=0, small=True))
    for pol in AXL_POL:
        B(lambda pol=pol: mk_wb2axl(32, 32, base=0x1000, pol=pol, p_err=0.1))
    B(lambda: mk_wb2axl(64, 32, base=0, pol="pipeline2", p_err=0.1))
    B(lambda: mk_wb2axl(32, 32, base=0x2000, tag="/garbage"))
    return J


def correspond(ctx):
    ctx.jobs = jobs(ctx.tier)
    dis, bad = run_jobs(ctx, ctx.jobs)
    return dis


def closed_loop_search(inst, rng, cycles):
    """Run the instance's own protocol environment with the property monitor armed."""
    n = inst.netlist
    root = n.snapshot()
    mon = inst.monitor()
    trace = []
    res = None
    for t in range(cycles):
        letter = inst.gen(rng, t)
        outs = impl_step(inst, letter)
        trace.append(letter)
        m = mon.observe(letter, outs)
        if m:
            res = (trace, m)
            break
    n.restore(root)
    return res


def search(ctx, disagreements, proof_info):
    """Failing-input search on the real code: (1) a monitor that fired during co-simulation, (2) disagreement
    traces replayed with the monitor armed, (3) fresh closed-loop runs (protocol environments + monitors) of
    every instance that has an environment, the disagreeing ones first and longest."""
    deadline = time.time() + (90 if ctx.tier == "quick" else 600)
    all_jobs = getattr(ctx, "jobs", None) or jobs(ctx.tier)
    for d in disagreements:
        if getattr(d, "kind", "").startswith("monitor:"):
            return {"instance": d.inst_name, "trace": [list(l) for l in d.trace], "monitor": d.kind[8:],
                    "letter_format": FMT}
    bad = [d.job for d in disagreements if getattr(d, "job", None) is not None]
    bad_names = {d.inst_name.split("/")[0] for d in disagreements if d.inst_name}
    order = sorted(range(len(all_jobs)), key=lambda j: (j not in bad,))
    rounds = 0
    while time.time() < deadline and rounds < 6:
        rounds += 1
        for j in order:
            if time.time() > deadline:
                break
            try:
                inst = all_jobs[j].make()
            except Exception:
                continue
            if inst.env is None:
                for d in disagreements:
                    if d.job == j and rounds == 1:
                        r = replay_with_monitor(inst, [tuple(l) for l in d.trace])
                        if r:
                            return {"instance": inst.name, "trace": [list(l) for l in d.trace[:r[0] + 1]],
                                    "monitor": r[1], "letter_format": FMT}
                continue
            related = inst.name.split("/")[0] in bad_names or not bad_names
            if not related and rounds < 2:
                continue
            r = closed_loop_search(inst, ctx.rng, 4000 if related else 1500)
            if r:
                trace, msg = r
                return {"instance": inst.name, "trace": [list(l) for l in trace], "monitor": msg,
                        "letter_format": FMT}
    return None


def probes(ctx):
    return []


def replay(ctx, payload):
    from explore import generic_replay
    return generic_replay(ctx, payload, jobs("thorough"))
