"""C02 — Verilog identifiers are unique, legal and reproducible.

Tie (mode C + D): the real `build_signal_namespace` / `SignalNamespace.get_name` / `verilog.convert` against the
Lean model (`LitexModel/Namer`) through `call`; names compared exactly.  The reserved-keyword table is
regenerated from /repo into `LitexModel/Generated/Keywords.lean`.  Reproducibility across interpreters
(PYTHONHASHSEED) is validated, not proved."""
import os, re, json, glob, itertools, random, shutil, collections, subprocess

import c02lib as L
import c02emit as E

VERIF = L.VERIF
CORPUS = os.path.join(VERIF, "corpus", "C02")
FINDING_SUFFIX = "C02-suffix-collision"
FINDING_BLANKS = "C02-keyword-blanks"
FINDING_HIER = "C02-hierarchy-order"


def regen(ctx):
    changed = L.regen_keywords()
    if changed:
        ctx.log("regen: Generated/Keywords.lean CHANGED (keyword table of /repo differs from the committed one)")
    ctx.regen_changed = changed


# ----------------------------------------------------------------------------------------------------------
# case runners: each returns (disagreement | None, oracle failures, in_known_region, nontrivial)
# ----------------------------------------------------------------------------------------------------------

def _kw(ctx):
    if not hasattr(ctx, "_kwset"):
        ctx._kwset = L.real_keywords()
    return ctx._kwset


def variant(ctx):
    """Which model the real code is compared with: the code as it is, or — once known_findings.json lists
    C02-suffix-collision as fixed (i.e. the proposed get_name fix has been committed) — `getNameFixed`."""
    forced = os.environ.get("C02_MODEL_VARIANT")          # "asis" | "fixed": for trials of the fix in a scratch copy
    if forced in ("asis", "fixed"):
        return "_fixed" if forced == "fixed" else ""
    fixed = any(e.get("id") == FINDING_SUFFIX and e.get("status") == "fixed" for e in ctx.known)
    return "_fixed" if fixed else ""


def _listed_open(ctx):
    return any(e.get("id") == FINDING_SUFFIX and e.get("status") == "open" for e in ctx.known)


def _oracle(ctx, kind, payload, pairs, bases, kwset, dis, exempt_known=True):
    """Model-independent monitors on the real answers.  A uniqueness failure inside the region of the open
    known finding is counted, anything else is reported as a disagreement of kind `monitor`."""
    fails = L.check_names(pairs)
    if not kwset:
        fails = [f for f in fails if f[0] != "reserved"]      # no keyword set was handed to this namespace
    if not fails:
        return
    region = L.suffix_shaped_region(bases, kwset)
    listed = exempt_known and _listed_open(ctx)
    for f in fails:
        if f[0] == "unique" and region and listed:
            ctx.cov.count("collisions inside known region (C02-suffix-collision)")
            continue
        dis.append({"kind": "monitor", "case": kind, "payload": payload, "oracle": list(f),
                    "in_suffix_region": region})


CASE_TIMEOUT = 5.0
MAX_HANGS = 2          # after that many hangs the remaining real-code jobs are skipped (each costs CASE_TIMEOUT)


def too_many_hangs(ctx):
    return getattr(ctx, "c02_hangs", 0) >= MAX_HANGS


LIMITS = {"getname": 5.0, "namespace": 5.0, "convert": 20.0, "convert-platform": 20.0, "convert-soc": 90.0, "repro": 120.0}


def guarded(ctx, dis, kind, payload, fn):
    """Run the real code for one case; an exception or a hang becomes a disagreement that carries the concrete
    input (returns None then)."""
    import traceback
    if too_many_hangs(ctx):
        return None
    try:
        with L.time_limit(LIMITS.get(kind, CASE_TIMEOUT)):
            return fn()
    except L.Hang as e:
        ctx.c02_hangs = getattr(ctx, "c02_hangs", 0) + 1
        dis.append({"kind": "hang", "case": kind, "payload": payload, "what": str(e)})
    except Exception as e:
        dis.append({"kind": "exception", "case": kind, "payload": payload, "what": repr(e),
                    "traceback": traceback.format_exc()[-1500:]})
    return None


def run_getname_cases(ctx, cases, name, exhaustive=False, cls=None, var=None):
    """`cls`/`var` given: the harness-side patched namespace class against `getNameFixed` (proposed fix)."""
    kwset = _kw(ctx)
    dis = []
    v = variant(ctx) if var is None else var
    outs = ctx.lean.call_batch([L.lean_getname_line(c, v) for c in cases])
    nontriv = 0
    with L.fast_signals():
        for c, o in zip(cases, outs):
            real = guarded(ctx, dis, "getname", c, lambda: L.run_real_getname(c, kwset, cls))
            if real is None:
                if len(dis) > 50 or too_many_hangs(ctx) or (dis and dis[-1].get("kind") == "hang"):
                    break
                continue
            model = L.unq_list(o)
            if model != real:
                dis.append({"kind": "getname" if cls is None else "getname-proposed-fix", "payload": c, "real": real, "model": o})
            bases = [c["bases"][i] for i in c["reqs"]]
            if any(r != b for r, b in zip(real, bases)):
                nontriv += 1
                ctx.cov.count("getname: suffix issued")
            if any(b in kwset for b in bases):
                ctx.cov.count("getname: keyword base")
            if cls is None:
                _oracle(ctx, "getname", c, list(zip(c["reqs"], real)), bases, kwset if c["kw"] else set(), dis)
            else:
                _oracle(ctx, "getname-proposed-fix", c, list(zip(c["reqs"], real)), bases, kwset if c["kw"] else set(),
                        dis, exempt_known=False)
    ctx.cov.add_cases(name, len(cases), nontriv, exhaustive)
    ctx.log("%s: %d cases, %d disagreements" % (name, len(cases), len(dis)))
    return dis


def classify_spec(ctx, spec, dnames, answers):
    import re
    nt = False
    names = [d for d in dnames if d is not None]
    if len(set(names)) < len(names):
        ctx.cov.count("dict: equal dictionary names (resolved by get_name)")
    if any(e["rel"] is not None for e in spec["sigs"]):
        ctx.cov.count("dict: related chain")
    leafs = [e["bt"][-1][0] for e, d in zip(spec["sigs"], dnames) if d is not None and e["bt"]]
    if any(d != l for d, l in zip(names, leafs)):
        nt = True
        ctx.cov.count("dict: hierarchy/number/duid disambiguation")
    for e, d in zip(spec["sigs"], dnames):
        if d is None or e["rel"] is not None or len(e["bt"]) < 2:
            continue
        leaf = e["bt"][-1][0]
        if any(re.search(r"(^|_)%s[0-9]+_" % re.escape(n), d) for n, k in e["bt"][:-1]):
            ctx.cov.count("dict: numbered module element (use_number second pass)")
            break
    for e, d in zip(spec["sigs"], dnames):
        if d is not None and e["rel"] is None and len(e["bt"]) >= 2 and d.startswith(e["bt"][-2][0] + "_"):
            ctx.cov.count("dict: module name prefixed (use_name by conflict)")
            break
    if any(re.search(r"[^0-9][0-9]+\Z", d) and not re.search(r"[0-9]\Z", e["bt"][-1][0])
           for e, d in zip(spec["sigs"], dnames) if d is not None and e["bt"]):
        ctx.cov.count("dict: DUID rank or leaf number appended")
    if any(e["ovr"] is not None for e in spec["sigs"]):
        ctx.cov.count("namespace: name_override")
    if any(re.search(r"_[0-9]+\Z", a) for a in answers):
        nt = True
        ctx.cov.count("namespace: suffix issued")
    return nt


def run_spec_cases(ctx, specs, name, exhaustive=False, mode="C"):
    """Synthetic / real-hierarchy specs through `_build_signal_name_dict` + `get_name` and the model."""
    kwset = _kw(ctx)
    dis = []
    lines, orders = [], []
    for sp in specs:
        order = L.closure(sp)
        ctx.rng.shuffle(order)
        orders.append(order)
        lines.append(L.lean_dict_line(sp, order))
        lines.append(L.lean_namespace_line(sp, order, variant(ctx)))
    outs = ctx.lean.call_batch(lines)
    nontriv = 0
    with L.fast_signals():
        for k, (sp, order) in enumerate(zip(specs, orders)):
            res = guarded(ctx, dis, "namespace", sp, lambda: L.run_real(sp, kwset))
            if res is None:
                if len(dis) > 50 or too_many_hangs(ctx) or (dis and dis[-1].get("kind") == "hang"):
                    break
                continue
            dn, ans = res
            md, ma = L.unq_list(outs[2 * k]), L.unq_list(outs[2 * k + 1])
            if md != [dn[i] for i in order]:
                dis.append({"kind": "dict", "payload": sp, "order": order, "real": [dn[i] for i in order],
                            "model": outs[2 * k]})
            if ma != ans:
                dis.append({"kind": "namespace", "payload": sp, "order": order, "real": ans, "model": outs[2 * k + 1]})
            if classify_spec(ctx, sp, dn, ans):
                nontriv += 1
            if mode == "C-real":
                ctx.cov.count("real hierarchies: hypothesis LegalSigs %s" % ("holds" if L.legal_inputs(sp) else "does NOT hold"))
            nsig = len(sp["sigs"])
            bases = []
            for i in sp["reqs"]:
                bases.append(sp["extra"][i - nsig] if i >= nsig else (sp["sigs"][i]["ovr"] or dn[i]))
            _oracle(ctx, "namespace", sp, list(zip(sp["reqs"], ans)), bases, kwset if sp.get("kw", True) else set(), dis)
    ctx.cov.add_cases(name, len(specs), nontriv, exhaustive, mode=mode)
    ctx.log("%s: %d cases, %d disagreements" % (name, len(specs), len(dis)))
    return dis


def run_convert_case(ctx, src, seed, regular_comb, dis):
    payload = {"src": src, "seed": seed, "regular_comb": regular_comb}
    return run_converted(ctx, "convert", payload, lambda: L.convert_design(src, seed, regular_comb), dis)


def run_platform_case(ctx, seed, dis):
    return run_converted(ctx, "convert-platform", {"platform_seed": seed}, lambda: L.convert_platform(seed), dis)


def run_soc_case(ctx, k, dis):
    return run_converted(ctx, "convert-soc", {"soc_variant": k}, lambda: L.convert_soc(k), dis)


def produce_converted(kind, payload):
    if kind == "convert":
        return L.convert_design(payload["src"], payload["seed"], payload.get("regular_comb", True))
    if kind == "convert-platform":
        return L.convert_platform(payload["platform_seed"])
    if kind == "convert-soc":
        return L.convert_soc(payload["soc_variant"])
    raise ValueError(kind)


def run_converted(ctx, kind, payload, produce, dis):
    kwset = _kw(ctx)
    res = guarded(ctx, dis, kind, payload, produce)
    if res is None:
        return 0, False
    r, log = res
    spec, keys = L.spec_from_convert(r, log)
    ans = [n for o, n in log]
    order = L.closure(spec)
    out = ctx.lean.call(L.lean_namespace_line(spec, order, variant(ctx)))
    if L.unq_list(out) != ans:
        dis.append({"kind": kind, "payload": payload, "real": ans, "model": out})
    nsig = len(spec["sigs"])
    nd = r.ns.name_dict
    bases = []
    for (obj, n), i in zip(log, spec["reqs"]):
        bases.append(obj.name_override if obj.name_override is not None else nd[obj])
    _oracle(ctx, kind, payload, list(zip(keys, ans)), bases, kwset, dis)
    for f in L.data_file_failures(r, log) + L.undeclared_namespace_failures(r, log) + L.text_usage_failures(r, log) + \
            [["pad identifier is not a declared port"] + x for x in L.pad_name_failures(r)]:
        dis.append({"kind": "monitor", "case": "convert-text", "payload": dict(payload, producer=kind), "oracle": f})
    # declarations in the emitted text: no identifier declared twice (same region rule)
    decl = L.declared_identifiers(r.main_source)
    dup = [n for n, c in collections.Counter(decl).items() if c > 1]
    if dup:
        if not (_listed_open(ctx) and L.suffix_shaped_region(bases, kwset)):
            dis.append({"kind": "monitor", "case": "convert-text", "payload": dict(payload, producer=kind), "oracle": ["declared-twice", dup]})
    for f in L.io_override_failures(r):
        dis.append({"kind": "monitor", "case": "convert-text", "payload": dict(payload, producer=kind), "oracle": ["io name_override"] + f})
    for f in L.emission_order_failures(r, log):
        dis.append({"kind": "monitor", "case": "convert-text", "payload": dict(payload, producer=kind), "oracle": f})
    emit_ties(ctx, kind, payload, r, log, dis)
    if L.legal_inputs(spec):
        ctx.cov.count("convert: hypothesis LegalSigs holds on the real back-traces")
    else:
        ctx.cov.count("convert: hypothesis LegalSigs does NOT hold")
    ctx.cov.count("convert: get_name requests", len(ans))
    ctx.cov.count("convert: memories/instances/internal registers named", len(spec["extra"]))
    return len(ans), any(a != b for a, b in zip(ans, bases))


# ----------------------------------------------------------------------------------------------------------
# ordered emission, IO naming step, identifier classes: the real conversion against the Lean models
# ----------------------------------------------------------------------------------------------------------

def _tok_ok(s):
    return s is not None and s != "" and not re.search(r"[\s|;]", s)


def emit_ties(ctx, kind, payload, r, log, dis):
    from migen.fhdl.specials import Memory, Instance, WRITE_FIRST
    from migen.fhdl.structure import Signal
    rng = random.Random(len(log))
    text = r.main_source
    pl = dict(payload, producer=kind)

    def bad(what, real, model):
        dis.append({"kind": "emit-tie", "case": kind, "payload": pl, "what": what, "real": real, "model": model})
    # (a) ports and signal declarations: sorted(objs, key=get_name)  ~  declOrder
    head = text[text.index("module top"):]
    ports = [m.group(1) for m in (L.DECL_RE.match(l) for l in head[:head.index(");")].splitlines()[1:]) if m]
    body = text[text.index("// Signals"):text.index("// Combinatorial Logic")]
    decls = [m.group(1) for m in (L.DECL_RE.match(l) for l in body.splitlines()) if m]
    # (b) specials: sorted(specials, key=duid)  ~  duidOrder
    first = {}
    for obj, name in log:
        first.setdefault(id(obj), (obj, name))
    specials = [(o, n) for o, n in first.values() if isinstance(o, (Memory, Instance))]
    blocks = re.findall(r"^// (?:Memory|Instance) (\S+?):? ", text, flags=re.M)
    lines, checks = [], []
    for what, names in (("ports", ports), ("signal declarations", decls)):
        if names and all(_tok_ok(n) for n in names):
            sh = names[:]
            rng.shuffle(sh)
            lines.append("declorder " + " ".join("=" + n for n in sh))
            checks.append((what, sh, names))
    if specials:
        sh = specials[:]
        rng.shuffle(sh)
        lines.append("duidorder " + " ".join(str(o.duid) for o, n in sh))
        checks.append(("specials", [n for o, n in sh], blocks))
    # (a') default-assignment lines of multi-target always blocks: sorted(g[0], key=get_name)  ~  declOrder
    comb = text[text.index("// Combinatorial Logic"):text.index("// Synchronous Logic")]
    for blk in re.findall(r"^always @\(\*\) begin\n(.*?)^end$", comb, flags=re.S | re.M):
        blines = blk.splitlines()
        lhs = [m.group(1) for m in (re.match(r"^\s+([A-Za-z_]\w*)(?:\[[^\]]*\])?\s*<=", l) for l in blines) if m]
        targets = sorted(set(lhs))
        if len(targets) < 2 or not all(_tok_ok(n) for n in targets):
            continue
        defaults = [m.group(1) for m in (re.match(r"^    ([A-Za-z_]\w*) <= ", l) for l in blines[:len(targets)]) if m]
        sh = targets[:]
        rng.shuffle(sh)
        lines.append("declorder " + " ".join("=" + n for n in sh))
        checks.append(("default-assignment lines of a multi-target always block", sh, defaults))
        if defaults != sorted(defaults) or set(defaults) != set(targets):
            dis.append({"kind": "monitor", "case": "convert-text", "payload": pl,
                        "oracle": ["default-assignment lines of an always block are not its targets in sorted order", defaults, targets]})
    # (c) IO naming step
    pre = [(io, before) for io, before in getattr(r, "c02_ios_pre", []) if io.backtrace and
           all(_tok_ok(n) or n == "" for n, k in io.backtrace) and ":" not in "".join(n for n, k in io.backtrace) and
           (before is None or _tok_ok(before))]
    if pre:
        sigs = " ; ".join("%d - %s %s" % (io.duid, "-" if before is None else "=" + before,
                                          " ".join("%s:%d" % (n, k) for n, k in io.backtrace)) for io, before in pre)
        lines.append("iostep %s | %s" % (sigs, " ".join(str(i) for i in range(len(pre)))))
        checks.append(("io name_override step", None, ["-" if io.name_override is None else "=" + io.name_override for io, before in pre]))
    # (d) identifier classes: helper registers of memories, clock-domain signals, memories, instances
    nd = r.ns.name_dict
    cds = {}
    for cd in (r.ns.clock_domains or []):
        if cd.clk is not None and cd.clk.name_override == cd.name + "_clk":
            cds[id(cd.clk)] = ("c", cd.name)
        if cd.rst is not None and cd.rst.name_override == cd.name + "_rst":
            cds[id(cd.rst)] = ("r", cd.name)
    helpers = [(o, n) for o, n in first.values() if isinstance(o, Signal) and o not in nd and id(o) not in cds]
    exp_help, hclass = [], []
    mems = sorted([(o, n) for o, n in specials if isinstance(o, Memory)], key=lambda x: x[0].duid)
    hlines = []
    for mem, mname in mems:
        kinds = []
        for n, port in enumerate(mem.ports):
            k = "a" if port.async_read else ("w" if port.mode == WRITE_FIRST else "d")
            kinds.append(k)
            if k != "a":
                hclass.append(("a" if k == "w" else "d", mname, n))
        hlines.append("helpers =%s %s" % (mname, " ".join(kinds)))
    outs = ctx.lean.call_batch(lines + hlines) if (lines or hlines) else []
    for (what, sh, want), o in zip(checks, outs):
        if what == "io name_override step":
            if (o or "").split() != want:
                bad(what, want, o)
            ctx.cov.count("emit: IO naming step compared (ios)", len(want))
            continue
        try:
            got = [sh[int(i)] for i in o.split()]
        except Exception:
            got = None
        if got != want:
            bad("order of %s in the text vs sorted-emission model" % what, want, got if got is not None else o)
        ctx.cov.count("emit: %s order compared" % what, len(want))
    for o in outs[len(lines):]:
        exp_help += L.unq_list(o) or []
    if exp_help != [o.name_override for o, n in helpers]:
        bad("helper registers created by memory.py vs memHelpers", [o.name_override for o, n in helpers], exp_help)
    elif all(_tok_ok(n) for o, n in first.values()):
        ctx.cov.count("emit: memory helper registers compared", len(helpers))
        idx, objs = {}, []
        hpos = {id(o): k for k, (o, n) in enumerate(helpers)}
        for o, n in first.values():
            idx[id(o)] = len(objs)
            if id(o) in cds:
                objs.append("%s =%s 0" % cds[id(o)])
            elif id(o) in hpos:
                objs.append("%s =%s %d" % hclass[hpos[id(o)]])
            elif isinstance(o, Memory):
                objs.append("m =%s 0" % o.name_override)
            elif isinstance(o, Instance):
                objs.append("i =%s 0" % o.name_override)
            else:
                objs.append("s =%s 0" % (o.name_override if o.name_override is not None else nd[o]))
        if variant(ctx) == "_fixed" and all(_tok_ok(x.split()[1][1:]) for x in objs):
            out = ctx.lean.call("classanswers 1 %s | %s" % (" ".join(objs), " ".join(str(idx[id(o)]) for o, n in log)))
            if L.unq_list(out) != [n for o, n in log]:
                bad("identifiers of all classes (signals, memories, instances, helper registers, clock-domain signals) vs classAnswers",
                    [n for o, n in log][:60], (out or "")[:900])
            ctx.cov.count("emit: identifier-class requests compared", len(log))
            ctx.cov.count("emit: clock-domain signals classified", len(cds))


def attr_differential(ctx, dis, n):
    """`_generate_attribute` on random attribute sets with real platform tables against `emitAttrs`; the set is
    handed to the model in its iteration order, so a generator that stops sorting is caught in this process too."""
    rng = random.Random(ctx.rng.randrange(1 << 30))
    tables = E.real_tables()
    nt, ncases = run_attr_cases(ctx, [E.gen_attr_case(rng, tables) for _ in range(n)], dis)
    ctx.cov.add_cases("_generate_attribute vs emitAttrs: random attribute sets (strings + tuples), %d real attr_translate tables" % len(tables),
                      ncases, nt, False, mode="C")
    ctx.cov.count("emit: attr_translate tables imported from litex.build", len(tables))
    ctx.log("_generate_attribute: %d cases (%d with >= 2 emitted attributes)" % (ncases, nt))


def run_attr_cases(ctx, allcases, dis):
    cases, reals = [], []
    for c in allcases:
        res = guarded(ctx, dis, "emitattrs", c, lambda: E.real_emit_attrs(c))
        if res is None:
            continue
        cases.append(c)
        reals.append(res)
    outs = ctx.lean.call_batch([E.lean_emitattrs_line(c, order) for c, (txt, order) in zip(cases, reals)])
    nt = 0
    for c, (txt, order), o in zip(cases, reals, outs):
        if E.dec(o) != txt:
            dis.append({"kind": "emitattrs", "payload": c, "real": txt, "model": o, "set_iteration_order": [list(a) if isinstance(a, tuple) else a for a in order]})
        if E.independent_attr_text(c) != txt:
            dis.append({"kind": "monitor", "case": "emitattrs", "payload": c, "oracle": ["attribute prefix is not the sorted one", txt, E.independent_attr_text(c)]})
        if txt.count(",") >= 1:
            nt += 1
    return nt, len(cases)


def nscd_differential(ctx, dis, n):
    """ClockSignal / ResetSignal requests: the real get_name (clock_domains as the dict its docstring names) against
    `namespaceAnswersCd`; unknown and reset-less domains must raise on both sides."""
    import types
    from migen.fhdl.structure import ClockSignal, ResetSignal
    from litex.gen.fhdl import namer
    if variant(ctx) != "_fixed":
        return
    rng = random.Random(ctx.rng.randrange(1 << 30))
    kwset = _kw(ctx)
    lines, reals, payloads = [], [], []
    with L.fast_signals():
        for _ in range(n):
            sp = L.gen_synthetic(rng)
            order = L.closure(sp)
            body, pos = L.encode_sigs(sp, order)
            cdnames = rng.sample(["sys", "por", "a", "sys_1", "if"], rng.randint(1, 3))
            cds = [(c, rng.choice(order), rng.choice(order + [None])) for c in cdnames]
            nsig = len(sp["sigs"])
            reqs = []
            for i in sp["reqs"]:
                reqs.append(("o", i))
                if rng.random() < 0.4:
                    reqs.append((rng.choice("cr"), rng.choice(cdnames + ["nodomain"] * (rng.random() < 0.1))))
            payload = {"spec": sp, "cds": cds, "reqs": reqs}

            def real():
                objs = L.materialise(sp)
                inset = {s for s, e in zip(objs, sp["sigs"]) if e["inset"]}
                ns = namer.build_signal_namespace(inset, kwset if sp.get("kw", True) else set())
                ns.clock_domains = {c: types.SimpleNamespace(name=c, clk=objs[k], rst=None if rr is None else objs[rr]) for c, k, rr in cds}
                allobjs = objs + [L._Extra(x) for x in sp.get("extra", [])]
                out = []
                for kind_, v in reqs:
                    try:
                        out.append(ns.get_name(allobjs[v] if kind_ == "o" else (ClockSignal(v) if kind_ == "c" else ResetSignal(v))))
                    except (ValueError, AttributeError, KeyError):
                        return "!raise"
                return out
            res = guarded(ctx, dis, "nscd", payload, real)
            if res is None:
                continue
            rs = " ".join(str(pos[v] if v < nsig else len(order) + (v - nsig)) if k == "o" else "%s=%s" % (k, v) for k, v in reqs)
            lines.append("nscd %d %s | %s | %s | %s" % (1 if sp.get("kw", True) else 0, body, " ".join("=" + x for x in sp.get("extra", [])),
                                                      " ; ".join("=%s %d %s" % (c, pos[k], "-" if rr is None else pos[rr]) for c, k, rr in cds), rs))
            reals.append(res)
            payloads.append(payload)
    outs = ctx.lean.call_batch(lines)
    nraise = 0
    for p, res, o in zip(payloads, reals, outs):
        model = "!raise" if o == "!raise" else L.unq_list(o)
        if model != res:
            dis.append({"kind": "nscd", "payload": p, "real": res, "model": o})
        if res == "!raise":
            nraise += 1
        else:
            # aliases of one signal get one identifier, different signals different ones (oracle)
            keys = [("o", v) if k == "o" else ("o", dict((c, (ck, rr)) for c, ck, rr in p["cds"])[v][0 if k == "c" else 1]) for k, v in p["reqs"]]
            fails = [f for f in L.check_names(list(zip(keys, res))) if f[0] in ("unique", "stable")]
            for f in fails:
                dis.append({"kind": "monitor", "case": "nscd", "payload": p, "oracle": [str(x) for x in f]})
    ctx.cov.add_cases("get_name with ClockSignal/ResetSignal requests vs namespaceAnswersCd", len(payloads), len(payloads) - nraise, False, mode="C")
    ctx.cov.count("nscd: unknown / reset-less domain raised on both sides", nraise)
    # base names of clock-domain signals: Migen's ClockDomain against cdClkBase / cdRstBase
    from migen.fhdl.structure import ClockDomain
    names = ["sys", "por", "a", "sys_1", "if", "clk", "x_clk", "idelay", "eth_rx", "sys4x_dqs"]
    outs = ctx.lean.call_batch(["cdbase =" + c for c in names])
    for c, o in zip(names, outs):
        cd = ClockDomain(c)
        if L.unq_list(o) != [cd.clk.name_override, cd.rst.name_override]:
            dis.append({"kind": "cdbase", "payload": c, "real": [cd.clk.name_override, cd.rst.name_override], "model": o})
    ctx.cov.add_cases("ClockDomain(name).clk/.rst name_override vs cdClkBase/cdRstBase", len(names), len(names), True, mode="D")


def tie_order_fixed(ctx):
    return any(e.get("id") == "C02-tie-order" and e.get("status") == "fixed" for e in ctx.known)


def emission_corpus_start(ctx):
    rng = random.Random(ctx.rng.randrange(1 << 30))
    corpus = E.emission_corpus(rng, ctx.tier == "quick") + E.tie_corpus(rng, ctx.tier == "quick")
    return corpus, E.start_corpus_procs(corpus)


def emission_corpus_finish(ctx, dis, started):
    corpus, handle = started
    res = E.collect(handle)
    errs, diffs = E.corpus_differences(corpus, res)
    for e in errs:
        dis.append({"kind": "repro-machinery", "payload": {"emission_corpus": e.get("design")}, "out": e})
    for label, src, s0, s1, diff in diffs:
        dis.append({"kind": "monitor", "case": "reproducibility", "payload": {"emit_src": src, "design": label, "hashseeds": [s0, s1]},
                    "oracle": ["text of the emission-corpus design %s differs between PYTHONHASHSEED=%s and %s" % (label, s0, s1)] + diff})
    # DUID-offset dimension: every design rebuilt in the same interpreter after k extra objects
    odiffs = E.offset_differences(corpus, res)
    fixed = tie_order_fixed(ctx)
    ncand = 0
    for label, src, hs, k, diff in odiffs:
        if label.startswith(E.CANDIDATE_LABELS) and not fixed:
            ncand += 1
            continue
        dis.append({"kind": "monitor", "case": "reproducibility", "payload": {"emit_src": src, "design": label, "hashseeds": [hs], "duid_offset": k},
                    "oracle": ["text of the emission-corpus design %s differs when the same design is built again in the same interpreter "
                               "(PYTHONHASHSEED=%s) after %s extra objects (DUID offset)" % (label, hs, k)] + diff})
    nreb = sum(len(x) for hs in (res.later or {}) for x in res.later[hs])
    ctx.cov.add_cases("emission corpus, DUID-offset dimension: every design rebuilt in the same fresh interpreter after k in %s extra "
                      "objects gives the first build's text (validated)" % (list(E.DUID_OFFSETS),), nreb, nreb - len(odiffs), False, mode="repro")
    if ncand:
        ctx.cov.count("emission corpus: DUID-offset differences inside the candidate region C02-tie-order (not a violation yet)", ncand)
        ctx.cov.notes.append("candidate C02-tie-order (reported, not listed): on the unchanged tree the text depends on the absolute DUIDs "
                             "(a) when >= 2 signals among the IOs, or among the other signals, share a base name (which one is issued x / x_1 "
                             "follows the iteration order of a set of Signals) and (b) with regular_comb=False when a comb statement has >= 2 "
                             "targets (order of the always blocks); %d rebuilds of the tie/simcomb corpus designs differed" % ncand)
    good = [hs for hs in res if not isinstance(res[hs], str)]
    nattr = sum(E.attr_line_count(t) for t in res[good[0]]) if good else 0
    ctx.cov.add_cases("emission corpus (multi-attribute signals/ports/memories/instances, vendor attr_translate tables, real platforms "
                      "with special overrides, multi-clock, sim-style comb, SoC hierarchy) in fresh interpreters under PYTHONHASHSEED=%s: "
                      "one text (validated)" % (",".join(map(str, E.HASHSEEDS)),), len(corpus) * len(E.HASHSEEDS),
                      (len(corpus) - len(diffs) - len(errs)) * len(E.HASHSEEDS), False, mode="repro")
    ctx.cov.count("emission corpus: declarations carrying >= 2 emitted attributes", nattr)
    if good and nattr < 8:
        dis.append({"kind": "repro-machinery", "payload": {"emission_corpus": "coverage"}, "out": "only %d multi-attribute prefixes emitted" % nattr})
    ctx.log("emission corpus: %d designs x %d hash seeds, %d differing, %d errors" % (len(corpus), len(E.HASHSEEDS), len(diffs), len(errs)))


# ----------------------------------------------------------------------------------------------------------
# exhaustive small domains
# ----------------------------------------------------------------------------------------------------------

def exhaustive_getname_cases(nmax, alpha=("x", "x_1", "if", "if_1")):
    """All base assignments over the alphabet for up to nmax signals, all request orders (each signal
    requested once, then the first one again)."""
    cases = []
    for n in range(1, nmax + 1):
        for bases in itertools.product(alpha, repeat=n):
            for perm in itertools.permutations(range(n)):
                cases.append({"kw": True, "bases": list(bases), "ovr": [(i + len(perm)) % 2 == 0 for i in range(n)],
                              "reqs": list(perm) + [perm[0]]})
    return cases


def exhaustive_dict_specs(nsig):
    """All multisets of `nsig` back-traces of length 1..2 over names {a, b} x numbers {0, 1}."""
    steps = [[n, k] for n in ("a", "b") for k in (0, 1)]
    bts = [[s] for s in steps] + [[s, t] for s in steps for t in steps]
    specs = []
    for combo in itertools.combinations_with_replacement(range(len(bts)), nsig):
        sigs = [{"bt": bts[c], "rel": None, "ovr": None, "inset": True} for c in combo]
        specs.append({"kw": True, "sigs": sigs, "extra": [], "reqs": list(range(nsig))})
    return specs


# ----------------------------------------------------------------------------------------------------------
# correspondence
# ----------------------------------------------------------------------------------------------------------

def corpus_cases():
    out = []
    for p in sorted(glob.glob(os.path.join(CORPUS, "*.json"))):
        out.append((os.path.basename(p), json.load(open(p))))
    return out


def run_payload(ctx, kind, payload):
    """Re-run one stored case (corpus / replay); returns the list of disagreements."""
    dis = []
    if kind == "getname":
        dis += run_getname_cases(ctx, [payload], "corpus/getname")
    elif kind in ("dict", "namespace"):
        dis += run_spec_cases(ctx, [payload], "corpus/spec")
    elif kind in ("convert", "convert-platform", "convert-soc"):
        run_converted(ctx, kind, payload, lambda: produce_converted(kind, payload), dis)
    elif kind == "emitattrs":
        run_attr_cases(ctx, [payload], dis)
    return dis


def keyword_table_check(ctx, dis):
    kwset = _kw(ctx)
    ks = sorted(kwset)
    n = int(ctx.lean.call("kwcount"))
    if n != len(ks):
        dis.append({"kind": "keywords", "real": len(ks), "model": n})
    probes = ks + [k + "_1" for k in ks[:20]] + [k.strip() for k in ks] + L.IEEE_1364_2005 + ["x", "top", "Wire"]
    probes = [p for p in probes if p and " " not in p]
    outs = ctx.lean.call_batch(["iskw =" + p for p in probes])
    for p, o in zip(probes, outs):
        if (o == "1") != (p in kwset):
            dis.append({"kind": "keywords", "word": p, "real": p in kwset, "model": o})
    ctx.cov.add_cases("keyword table membership (regenerated table vs imported set)", len(probes), len(ks), True, mode="D")
    # the standard's list against the real set (model-independent monitor)
    missing = [k for k in L.IEEE_1364_2005 if k not in kwset]
    malformed = [k for k in ks if not L.IDENT_RE.match(k)]
    if missing or malformed:
        dis.append({"kind": "monitor", "case": "keywords", "oracle": ["keyword-table", missing, malformed]})


def reproducibility_check(ctx, dis, nmods):
    """convert() twice in fresh interpreters with different PYTHONHASHSEED; text compared modulo date lines."""
    rng = random.Random(ctx.rng.randrange(1 << 30))
    jobs = []
    if too_many_hangs(ctx):
        return
    for k in range(nmods):
        src = L.gen_design_source(rng)
        seed = rng.randrange(1 << 30)
        jobs.append((src, seed, [L.convert_in_fresh_interpreter(src, seed, hs) for hs in (1, 4242 + k)]))
    ok = 0
    for src, seed, procs in jobs:
        outs = []
        for p in procs:
            try:
                o, e = p.communicate(timeout=60)
            except subprocess.TimeoutExpired:
                p.kill()
                o, e = p.communicate()
                dis.append({"kind": "hang", "case": "convert", "payload": {"src": src, "seed": seed},
                            "what": "convert() in a fresh interpreter did not finish within 60 s"})
            shutil.rmtree(p._c02_dir, ignore_errors=True)
            outs.append(o if p.returncode == 0 else "ERROR rc=%s %s" % (p.returncode, e[-400:]))
        if outs[0].startswith("ERROR") or "module top" not in outs[0]:
            dis.append({"kind": "repro-machinery", "payload": {"src": src, "seed": seed}, "out": outs[0][-600:]})
        elif outs[0] != outs[1]:
            dis.append({"kind": "monitor", "case": "reproducibility", "payload": {"src": src, "seed": seed},
                        "oracle": ["text differs between PYTHONHASHSEED values"]})
        else:
            ok += 1
    ctx.cov.add_cases("convert() in 2 fresh interpreters, different PYTHONHASHSEED (validated, not proved)", 2 * nmods, ok,
                      False, mode="repro")


def region_tie(ctx, dis, cases):
    """The known-finding region used by the monitors (Python) against the theorem's hypothesis (Lean)."""
    lines = ["noshape " + " ".join("=" + c["bases"][i] for i in c["reqs"]) for c in cases]
    outs = ctx.lean.call_batch(lines)
    n_in = 0
    for c, o in zip(cases, outs):
        py_region = L.suffix_shaped_region([c["bases"][i] for i in c["reqs"]])
        n_in += 1 if py_region else 0
        if o not in ("0", "1") or (o == "0" and not py_region):
            dis.append({"kind": "region", "payload": c, "python_region": py_region, "lean_noSuffixShapedBase": o})
        if o == "1" and py_region:
            ctx.cov.count("region: python predicate wider than the Lean hypothesis (k beyond the request count)")
    ctx.cov.add_cases("known-finding region (Python) vs noSuffixShapedBase (Lean)", len(cases), n_in, False, mode="C")


def repro_modes(src, rng, n_inproc=2, n_shift=3, fresh=False):
    """Generate one tie-design several times and compare the texts (modulo the date lines) with the first one:
    (b) repeated generations in this interpreter, (c) generations after creating extra dummy objects first
    (shifts DUIDs and heap addresses), (a) fresh interpreters with different PYTHONHASHSEED (with and without
    shift).  Returns a failure description (mode, shift, differing lines) or None."""
    procs = []
    if fresh:
        procs = [("a: fresh interpreter PYTHONHASHSEED=1", 0, L.repro_fresh(src, 0, 1)),
                 ("a: fresh interpreter PYTHONHASHSEED=4242", 0, L.repro_fresh(src, 0, 4242))]
        sh = rng.randint(1, 30)
        procs.append(("a+c: fresh interpreter PYTHONHASHSEED=77, %d dummy rounds first" % sh, sh, L.repro_fresh(src, sh, 77)))
    base = L.repro_generate(src, 0)
    fail = None
    plan = [("b: repeated generation in one interpreter", 0)] * n_inproc + \
           [("c: generation after creating extra dummy objects", rng.randint(1, 40)) for _ in range(n_shift)]
    for mode, shift in plan:
        t = L.repro_generate(src, shift)
        if t != base and fail is None:
            fail = {"mode": mode, "shift": shift, "diff": L.text_diff(base, t)}
    for mode, shift, p in procs:
        try:
            o, e = p.communicate(timeout=60)
        except subprocess.TimeoutExpired:
            p.kill()
            o, e = p.communicate()
            e = "did not finish within 60 s " + (e or "")
        shutil.rmtree(p._c02_dir, ignore_errors=True)
        if p.returncode != 0:
            if fail is None:
                fail = {"mode": mode, "shift": shift, "machinery": e[-400:]}
        elif o != base and fail is None:
            fail = {"mode": mode, "shift": shift, "diff": L.text_diff(base, o)}
    return fail


def repro_ties_check(ctx, dis, ndesigns, nfresh, rng=None):
    """Designs with >= 2 memories / >= 2 instances sharing a base name and >= 2 signals with indistinguishable
    hierarchical names: the text must be a function of the design alone."""
    rng = rng or random.Random(ctx.rng.randrange(1 << 30))
    ok = gens = 0
    for k in range(ndesigns):
        if too_many_hangs(ctx) or len(dis) > 200:
            break
        src = L.gen_repro_source(rng)
        fresh = k < nfresh
        f = guarded(ctx, dis, "repro", {"repro_src": src}, lambda: repro_modes(src, rng, fresh=fresh) or {})
        if f is None:
            continue
        f = f or None
        gens += 6 + (3 if fresh else 0)
        if f is None:
            ok += 1
        elif "machinery" in f:
            dis.append({"kind": "repro-machinery", "payload": {"repro_src": src}, "out": f})
        else:
            dis.append({"kind": "monitor", "case": "reproducibility", "payload": {"repro_src": src, "mode": f["mode"], "shift": f["shift"]},
                        "oracle": ["text differs between two generations of the same design (%s)" % f["mode"]] + f["diff"]})
    ctx.cov.add_cases("tie designs (>=2 memories, >=2 instances sharing a base name, >=2 indistinguishable signals): repeated / "
                      "DUID-shifted / fresh-interpreter generations give one text (validated, not proved)", gens, ok * 5, False, mode="repro")
    ctx.log("reproducibility tie designs: %d designs, %d generations, %d differing" % (ndesigns, gens, ndesigns - ok))


def text_monitor_selftest(ctx, dis):
    """The text monitors must flag a doctored text: the helper register of the corpus memory design replaced by
    the user's signal of the requested name."""
    entry = json.load(open(os.path.join(CORPUS, "memory_helper_names.json")))
    res = guarded(ctx, dis, "convert", entry["payload"], lambda: produce_converted("convert", entry["payload"]))
    if res is None:
        return
    r, log = res
    names = {n for o, n in log}
    if not {"mem_adr0", "mem_adr0_1", "mem_adr0_2", "mem_dat1_1"} <= names or L.text_usage_failures(r, log):
        return          # the ordinary corpus run reports whatever is wrong here
    good = r.main_source
    doctored = good.replace("mem[mem_adr0_2]", "mem[mem_adr0]")
    r.main_source = doctored
    flagged = L.text_usage_failures(r, log)
    r.main_source = good
    if doctored == good or not flagged:
        dis.append({"kind": "selftest", "what": "text monitor did not flag a doctored memory block", "flagged": flagged})


def sensitivity_selftest(ctx, dis):
    """The comparison must flag a perturbed model answer."""
    c = {"kw": True, "bases": ["x", "x"], "ovr": [False, True], "reqs": [0, 1]}
    with L.fast_signals():
        real = guarded(ctx, dis, "getname", c, lambda: L.run_real_getname(c, _kw(ctx)))
    if real is None:
        return
    model = L.unq_list(ctx.lean.call(L.lean_getname_line(c, variant(ctx))))
    if model != real or model[:1] + ["x_2"] == real or L.check_names([(0, "x"), (1, "x")]) == [] \
            or L.check_names([(0, "wire")]) == [] or L.check_names([(0, "a b")]) == [] \
            or L.check_names([(0, "x"), (0, "y")]) == []:
        dis.append({"kind": "selftest", "real": real, "model": model})


class Dis:
    """A disagreement as an object (the runner hands only non-dict disagreements to `search`)."""

    def __init__(self, d):
        self.d = d

    def get(self, k, default=None):
        return self.d.get(k, default)

    def __getitem__(self, k):
        return self.d[k]

    def to_json(self):
        return self.d


def correspond(ctx):
    quick = ctx.tier == "quick"
    rng = ctx.rng
    dis = []
    ctx.rule = ("one case = one signal set + request order run through the real namer and the model; non-trivial = "
                "some issued name differs from the signal's leaf/base name (hierarchy, number, DUID or _n suffix applied)")
    ctx.assumptions = [
        "identifier = [A-Za-z_][A-Za-z0-9_]*; reserved = IEEE 1364-2005 Annex B keyword list (fixed list, also in Lean)",
        "Python set/dict iteration order is not modelled: the dictionary stage is order-independent (buildDict_perm) and "
        "the get_name request order is an explicit input; cross-process reproducibility is validated by re-running convert()",
    ]
    ctx.extra_trusted = [
        "C02: the request order of get_name inside verilog.convert() is observed through a harness-side recording wrapper "
        "around SignalNamespace.get_name (restored after each conversion); base names are read from the real objects",
        "C02: IEEE 1364-2005 Annex B keyword list transcribed by hand (Lean: Namer.ieee1364_2005, Python: c02lib.IEEE_1364_2005)",
        "C02: cross-process reproducibility (PYTHONHASHSEED, set/dict order) is validated by re-running convert(), not proved; "
        "the sorted-emission steps themselves (attributes, ports, declarations, specials, sync blocks) are modelled (Emit.lean) and "
        "proved permutation-invariant",
    ]
    started = emission_corpus_start(ctx)       # fresh interpreters run while the rest of the correspondence goes on
    sensitivity_selftest(ctx, dis)
    text_monitor_selftest(ctx, dis)
    hierarchy_tie(ctx, dis, 6 if quick else 40)
    ctx.cov.notes.append("note (outside the property statement, no probe): SignalNamespace.get_name(ClockSignal/ResetSignal) raises "
                         "AttributeError on the namespace convert() returns (ns.clock_domains is a _ClockDomainList without .get); the "
                         "resolution is modelled and tied with dict-typed clock_domains")
    attr_differential(ctx, dis, 1500 if quick else 15000)
    nscd_differential(ctx, dis, 600 if quick else 6000)
    keyword_table_check(ctx, dis)
    if getattr(ctx, "regen_changed", False):
        dis.append({"kind": "regen", "what": "Generated/Keywords.lean was not byte-identical to the committed table"})
    if ctx.lean.call("wellformed") != "1":
        dis.append({"kind": "keywords", "what": "kwWellformed keywords = false on the regenerated table"})
    # corpus first
    for fname, entry in corpus_cases():
        d = run_payload(ctx, entry["kind"], entry["payload"])
        for x in d:
            x["corpus"] = fname
        dis += d
    # exhaustive small domains
    dis += run_getname_cases(ctx, exhaustive_getname_cases(4 if quick else 5),
                             "get_name: all bases over {x,x_1,if,if_1}, n<=%d, all request orders" % (4 if quick else 5), True)
    for n in ((1, 2, 3, 4) if quick else (1, 2, 3, 4, 5)):
        dis += run_spec_cases(ctx, exhaustive_dict_specs(n),
                              "name dict: all %d-signal multisets, back-traces len<=2 over {a,b}x{0,1}" % n, True)
    # second exhaustive alphabet: chained / higher suffixes (several skipped candidates in a row)
    dis += run_getname_cases(ctx, exhaustive_getname_cases(4 if quick else 5, ["x", "x_1", "x_2", "x_1_1"]),
                             "get_name: all bases over {x,x_1,x_2,x_1_1}, n<=%d, all request orders" % (4 if quick else 5), True)
    # corners named by the quantifier: 10-30 signals on one base (two-digit suffixes), look-alike names
    dis += run_getname_cases(ctx, [L.gen_getname_corner(rng) for _ in range(600 if quick else 6000)],
                             "get_name corners: 10-30 signals per base, two-digit / chained / leading-zero look-alikes")
    dis += run_spec_cases(ctx, [L.gen_synthetic_corner(rng) for _ in range(600 if quick else 6000)],
                          "namespace corners: >=11 numbered siblings, >=11 identical names, sparse numbers, related chains of 3")
    # random
    dis += run_getname_cases(ctx, [L.gen_getname_case(rng) for _ in range(8000 if quick else 60000)],
                             "get_name: random bases (suffix-shaped, keywords), shuffled/repeated requests")
    region_tie(ctx, dis, [L.gen_getname_case(rng) for _ in range(1500 if quick else 15000)])
    # the proposed fix: the real method's source text with the fix applied, against `getNameFixed`; the
    # uniqueness/legality/stability oracles are applied without any exempted region
    cls = L.fixed_namespace_class() if variant(ctx) == "" else None
    if cls is not None:
        dis += run_getname_cases(ctx, exhaustive_getname_cases(4),
                                 "proposed fix (patched copy of get_name) vs getNameFixed: all bases over {x,x_1,if,if_1}, n<=4",
                                 True, cls=cls, var="_fixed")
        dis += run_getname_cases(ctx, [L.gen_getname_case(rng) for _ in range(2000 if quick else 20000)],
                                 "proposed fix (patched copy of get_name) vs getNameFixed: random", False, cls=cls, var="_fixed")
    else:
        ctx.cov.notes.append("proposed-fix job skipped: get_name no longer contains the lines the fix replaces")
    dis += run_spec_cases(ctx, [L.gen_synthetic(rng) for _ in range(8000 if quick else 60000)],
                          "namespace: random synthetic back-traces depth<=5, related<=3, overrides")
    dis += run_spec_cases(ctx, [L.gen_synthetic(rng, nsig=rng.randint(10, 24)) for _ in range(500 if quick else 5000)],
                          "namespace: random synthetic back-traces, 10-24 signals")
    # real Migen hierarchies (tracer-derived back-traces)
    specs = []
    for _ in range(400 if quick else 4000):
        g = L.exec_real_source(L.gen_real_source(rng))
        reg = g["REG"]
        cap = 60 if quick else 150
        if len(reg) > cap:
            reg = rng.sample(reg, cap)
        sp = L.spec_from_signals(reg, rng, kw=True, inset_prob=0.9)
        if L.spec_ok_for_lean(sp):
            specs.append(sp)
    dis += run_spec_cases(ctx, specs, "namespace: real Module hierarchies (exec'd classes, depth<=5, tracer back-traces)",
                          mode="C-real")
    # end-to-end convert()
    nreq = nt = ncases = 0
    for _ in range(120 if quick else 1500):
        src = L.gen_design_source(rng)
        seed = rng.randrange(1 << 30)
        n, t = run_convert_case(ctx, src, seed, rng.random() < 0.8, dis)
        ncases += 1
        nreq += n
        nt += 1 if t else 0
    ctx.cov.add_cases("verilog.convert(): random designs with memories/instances/tristates/MultiRegs/IOs, recorded get_name order", ncases, nt)
    # the user path: platform.get_verilog() with IOs from the constraint manager, and whole SoCs
    np_ = nt_ = 0
    for _ in range(60 if quick else 800):
        n, t = run_platform_case(ctx, rng.randrange(1 << 30), dis)
        np_ += 1
        nt_ += 1 if t else 0
        nreq += n
    ctx.cov.add_cases("platform.get_verilog(): pads requested from the constraint manager (Generic/SimPlatform), internal "
                      "signals named like pads", np_, nt_)
    ns_ = 0
    for k in range(len(L.SOC_VARIANTS)):
        n, t = run_soc_case(ctx, k, dis)
        ns_ += 1
        nreq += n
    ctx.cov.add_cases("SoCMini through SimPlatform.get_verilog() (timer/uart/ctrl, csr 8/32 bit, wishbone/axi-lite)", ns_, ns_)
    ctx.log("platform/SoC glue: %d platform designs, %d SoCs" % (np_, ns_))
    if ctx.cov.samples is not None:
        ctx.cov.samples.append({"convert_cases": ncases, "get_name_requests_compared": nreq})
    ctx.log("convert(): %d designs, %d get_name requests compared" % (ncases, nreq))
    reproducibility_check(ctx, dis, 4 if quick else 24)
    repro_ties_check(ctx, dis, 16 if quick else 150, 3 if quick else 20)
    emission_corpus_finish(ctx, dis, started)
    ctx.log("reproducibility check done; %d disagreements in total" % len(dis))
    ex = L.gen_getname_case(random.Random(1))
    ctx.cov.samples.append({"getname_case": ex, "lean_line": L.lean_getname_line(ex)})
    ex = L.gen_synthetic(random.Random(2))
    ctx.cov.samples.append({"namespace_case": ex, "lean_line": L.lean_namespace_line(ex, L.closure(ex))})
    # store minimised disagreements
    for k, d in enumerate(dis[:3]):
        d["shrunk"] = shrink(ctx, d)
    ctx.c02_dis = dis
    return [Dis(d) for d in dis]


# ----------------------------------------------------------------------------------------------------------
# shrinking
# ----------------------------------------------------------------------------------------------------------

def _still(ctx, kind, payload):
    try:
        saved, saved_log = ctx.cov, ctx.log
        import runner
        ctx.cov = runner.Coverage()
        ctx.log = lambda *a: None
        try:
            return bool(run_payload(ctx, kind, payload))
        finally:
            ctx.cov, ctx.log = saved, saved_log
    except Exception:
        return False


def shrink(ctx, d):
    kind = d.get("kind")
    if kind == "monitor":
        kind = d.get("case")
    p = d.get("payload")
    if kind == "getname" and p:
        cur = json.loads(json.dumps(p))
        changed = True
        while changed:
            changed = False
            for k in range(len(cur["reqs"])):
                t = dict(cur, reqs=cur["reqs"][:k] + cur["reqs"][k + 1:])
                if t["reqs"] and _still(ctx, "getname", t):
                    cur, changed = t, True
                    break
        return cur
    if kind in ("dict", "namespace") and p:
        cur = json.loads(json.dumps(p))
        changed = True
        while changed:
            changed = False
            n = len(cur["sigs"])
            for k in reversed(range(n)):
                if any(e["rel"] == k for e in cur["sigs"]):
                    continue
                t = json.loads(json.dumps(cur))
                del t["sigs"][k]
                for e in t["sigs"]:
                    if e["rel"] is not None and e["rel"] > k:
                        e["rel"] -= 1
                t["reqs"] = [(i - 1 if i > k else i) for i in t["reqs"] if i != k]
                if t["sigs"] and any(e["inset"] for e in t["sigs"]) and _still(ctx, "namespace", t):
                    cur, changed = t, True
                    break
        return cur
    return None


# ----------------------------------------------------------------------------------------------------------
# probes for known / fixed findings
# ----------------------------------------------------------------------------------------------------------

def _convert_named(names, as_ios=True):
    """One module whose signals carry the given names; returns (text, [(signal, issued name)])."""
    from migen import Module, Signal, Cat
    from litex.gen.fhdl import verilog
    m = Module()
    sigs = [Signal(name=n) for n in names]
    o = Signal(len(sigs), name="o")
    m.comb += o.eq(Cat(*sigs))
    r = verilog.convert(m, ios=set(sigs) | {o} if as_ios else {o}, name="top")
    return r.main_source, [(s, r.ns.get_name(s)) for s in sigs]


def _convert_specials():
    """Memories / instances reach get_name through name_override: two memories `mem` next to a signal `mem_1`,
    an instance `FOO` next to a signal named `FOO_1` while `FOO` ... (same class of collision)."""
    from migen import Module, Signal, Memory, Instance, ClockDomain
    from litex.gen.fhdl import verilog
    m = Module()
    m.clock_domains.cd_sys = ClockDomain("sys")
    s = Signal(8, name="mem_1")
    o = Signal(8, name="o")
    mems = []
    for k in range(2):
        mem = Memory(8, 4, name="mem")
        p = mem.get_port(async_read=True)
        m.specials += mem, p
        m.comb += p.adr.eq(s[:2])
        mems.append((mem, p))
    m.comb += o.eq(mems[0][1].dat_r ^ mems[1][1].dat_r)
    i1 = Instance("FOO", name="u", i_a=s)
    i2 = Instance("FOO", name="u", i_a=s)
    u1 = Signal(name="u_1")
    m.specials += i1, i2
    m.comb += u1.eq(s[0])
    r = verilog.convert(m, ios={s, o, u1, m.cd_sys.clk, m.cd_sys.rst}, name="top")
    objs = [("signal mem_1", s), ("memory mem #0", mems[0][0]), ("memory mem #1", mems[1][0]),
            ("signal u_1", u1), ("instance u #0", i1), ("instance u #1", i2)]
    return r.main_source, [(k, r.ns.get_name(x)) for k, x in objs]


def probe_suffix_collision():
    text, named = _convert_named(["x", "x", "x_1"])
    names = [n for s, n in named]
    collide = len(set(names)) < len(names)
    decl = L.declared_identifiers(text)
    twice = [n for n, c in collections.Counter(decl).items() if c > 1]
    what = "signals named x, x, x_1 as ios of one module -> identifiers %s; declared twice in the text: %s" % (names, twice)
    try:
        text2, named2 = _convert_specials()
        n2 = [n for k, n in named2]
        if len(set(n2)) < len(n2):
            collide = True
            what += "; memories/instances: %s" % named2
    except Exception as e:      # the second witness is informative only
        what += "; (memory/instance witness not run: %r)" % (e,)
    return collide, what


def probe_keyword_blanks():
    bad = []
    for w in ("repeat", "union", "uwire"):
        text, named = _convert_named([w])
        if named[0][1] == w:
            bad.append(w)
    return bool(bad), "signal named repeat/union/uwire emitted verbatim: %s" % (bad or "none")


def probe_hierarchy_order():
    """Deterministic witness: a module whose black boxes lie on heap addresses in an order different from their
    creation order (forced and checked on the objects); the `[CELL]` lines must follow the creation (DUID) order, in
    the explorer's text and in the hierarchy comment of the converted design."""
    from litex.gen import LiteXContext
    from litex.gen.fhdl import verilog
    forced, cells, cd, text = E.hierarchy_case(random.Random(5))
    want = [c for c, d in sorted(cd, key=lambda x: x[1])]
    bad = cells != want
    what = "module with 8 black boxes of different cells, heap-address order %s creation order: [CELL] lines %s (creation order %s)" % (
        "forced different from" if forced else "NOT forced different from", cells, want)
    if not forced:                      # fall back to the two-process comparison under fixed PYTHONHASHSEED values
        errs, diffs = E.hierarchy_witness()
        bad = bad or bool(diffs)
        what += "; two-process comparison under PYTHONHASHSEED=%s: %s" % (E.HASHSEEDS, "differs" if diffs else "one text")
    return bad, what


def hierarchy_tie(ctx, dis, n):
    """The `[CELL]` lines of the hierarchy comment (`sorted(specials, key=duid)`) against the Lean `duidOrder`."""
    rng = random.Random(ctx.rng.randrange(1 << 30))
    nforced = 0
    for k in range(n):
        res = guarded(ctx, dis, "hierarchy", {"hierarchy_case": k}, lambda: E.hierarchy_case(rng, ncells=rng.randint(3, 8)))
        if res is None:
            continue
        forced, cells, cd, text = res
        sh = cd[:]
        rng.shuffle(sh)
        out = ctx.lean.call("duidorder " + " ".join(str(d) for c, d in sh))
        try:
            model = [sh[int(i)][0] for i in out.split()]
        except Exception:
            model = None
        if model != cells:
            dis.append({"kind": "monitor", "case": "hierarchy", "payload": {"cells_with_duid": cd, "heap_order_forced_different": forced},
                        "oracle": ["[CELL] lines of the hierarchy comment are not in DUID order", cells, model if model is not None else out]})
        nforced += 1 if forced else 0
    ctx.cov.add_cases("hierarchy comment [CELL] order vs duidOrder (heap-address order forced different from creation order)", n, nforced, False, mode="C")


def probes(ctx):
    out = []
    for fid, fn in ((FINDING_BLANKS, probe_keyword_blanks), (FINDING_SUFFIX, probe_suffix_collision), (FINDING_HIER, probe_hierarchy_order)):
        try:
            with L.time_limit(CASE_TIMEOUT * 2):
                f, what = fn()
        except L.Hang as e:
            f, what = True, "probe did not finish: %s" % e
        except Exception as e:
            f, what = True, "probe raised %r" % (e,)
        out.append((fid, f, what))
    return out


# ----------------------------------------------------------------------------------------------------------
# failing-input search: the property itself on the real code, no model involved
# ----------------------------------------------------------------------------------------------------------

def _real_failure(ctx, kind, payload, respect_known=True):
    """Run one case on the real code only and apply the oracles.  Returns a description or None."""
    try:
        with L.time_limit(LIMITS.get(kind, CASE_TIMEOUT)):
            return _real_failure_inner(ctx, kind, payload, respect_known)
    except L.Hang as e:
        L.fast_signals().__exit__()
        return {"case": "hang", "producer": kind, "input": payload, "oracle_failures": [["hang", str(e)]]}


def _real_failure_inner(ctx, kind, payload, respect_known=True):
    kwset = _kw(ctx)
    listed = respect_known and _listed_open(ctx)
    if kind == "getname":
        with L.fast_signals():
            real = L.run_real_getname(payload, kwset)
        pairs = list(zip(payload["reqs"], real))
        bases = [payload["bases"][i] for i in payload["reqs"]]
        kws = kwset if payload["kw"] else set()
    elif kind in ("dict", "namespace"):
        with L.fast_signals():
            dn, real = L.run_real(payload, kwset)
        nsig = len(payload["sigs"])
        pairs = list(zip(payload["reqs"], real))
        bases = [payload["extra"][i - nsig] if i >= nsig else (payload["sigs"][i]["ovr"] or dn[i]) for i in payload["reqs"]]
        kws = kwset if payload.get("kw", True) else set()
    elif kind in ("convert", "convert-platform", "convert-soc"):
        r, log = produce_converted(kind, payload)
        spec, keys = L.spec_from_convert(r, log)
        real = [n for o, n in log]
        pairs = list(zip(keys, real))
        nd = r.ns.name_dict
        bases = [o.name_override if o.name_override is not None else nd[o] for o, n in log]
        kws = kwset
    else:
        return None
    fails = L.check_names(pairs)
    if not kind.startswith("convert") and not payload.get("kw", True):
        fails = [f for f in fails if f[0] != "reserved"]      # no keyword set was handed to the namespace
    region = L.suffix_shaped_region(bases, kws)
    fails = [f for f in fails if not (f[0] == "unique" and region and listed)]
    if fails:
        return {"case": kind, "input": payload, "issued": [[str(k), n] for k, n in pairs], "oracle_failures": [list(map(str, f)) for f in fails],
                "in_suffix_region": region}
    return None


def search(ctx, disagreements, proof_info):
    rng = random.Random(ctx.seed + 77)
    disagreements = getattr(ctx, "c02_dis", None) or [getattr(d, "d", d) for d in disagreements]
    # 0. a reproducibility / text monitor already holds a concrete input (design + differing lines)
    for d in disagreements:
        if d.get("kind") == "monitor" and d.get("case") in ("keywords", "reproducibility", "convert-text", "emitattrs", "nscd", "hierarchy"):
            return {"case": d["case"], "input": d.get("payload"), "oracle_failures": [d.get("oracle")]}
    # 0'. the attribute printer disagrees with the sorted-emission model: is its text a function of the attribute set?
    acases = [d["payload"] for d in disagreements if d.get("kind") == "emitattrs"][:40]
    if acases:
        f = attr_repro_failure(acases)
        if f:
            return f
    # 0a. the real code raised or hung on a concrete valid input
    for d in disagreements:
        if d.get("kind") in ("exception", "hang"):
            return {"case": d["kind"], "producer": d.get("case"), "input": d.get("payload"),
                    "oracle_failures": [[d["kind"], d.get("what")]], "traceback": d.get("traceback")}
    # 0b. naming depends on iteration order?  tie designs, more of them than in the correspondence run
    if disagreements:
        tmp = []
        repro_ties_check(ctx, tmp, 40 if ctx.tier == "quick" else 200, 0, rng=random.Random(ctx.seed + 78))
        for d in tmp:
            if d.get("kind") == "monitor":
                return {"case": d["case"], "input": d.get("payload"), "oracle_failures": [d.get("oracle")]}
    # 1. the disagreeing inputs themselves
    for d in disagreements[:400]:
        kind = d.get("case") if d.get("kind") == "monitor" else d.get("kind")
        for p in (d.get("shrunk"), d.get("payload")):
            if p:
                try:
                    f = _real_failure(ctx, kind, p)
                except Exception:
                    f = None
                if f:
                    return f
        if d.get("kind") == "monitor" and d.get("case") in ("keywords", "reproducibility", "convert-text"):
            return {"case": d["case"], "input": d.get("payload"), "oracle_failures": [d.get("oracle")]}
    # 2. every word of the standard's keyword list as a signal name, end to end
    for w in L.IEEE_1364_2005:
        try:
            text, named = _convert_named([w], as_ios=bool(rng.getrandbits(1)))
        except Exception:
            continue
        if named[0][1] in L.IEEE_1364_2005:
            return {"case": "keyword-name", "input": {"signal_name": w}, "issued": named[0][1],
                    "oracle_failures": [["reserved", named[0][1]]],
                    "verilog_line": [l for l in text.splitlines() if (" " + w) in l and ("wire" in l or "reg" in l)][:2]}
    # 3. random search with the oracles only
    budget = 6000 if ctx.tier == "quick" else 60000
    for k in range(budget):
        if k % 3 == 0:
            kind, p = "getname", L.gen_getname_case(rng)
        else:
            kind, p = "namespace", L.gen_synthetic(rng)
        f = _real_failure(ctx, kind, p)
        if f:
            saved = ctx.cov
            try:
                def still(t, kind=kind):
                    try:
                        return _real_failure(ctx, kind, t) is not None
                    except Exception:
                        return False
                f["input"] = _shrink_real(kind, p, still)
                f2 = _real_failure(ctx, kind, f["input"])
                if f2:
                    f = f2
            finally:
                ctx.cov = saved
            return f
    for k in range(30 if ctx.tier == "quick" else 300):
        p = {"src": L.gen_design_source(rng), "seed": rng.randrange(1 << 30), "regular_comb": True}
        try:
            f = _real_failure(ctx, "convert", p)
        except Exception:
            f = None
        if f:
            return f
    return None


def attr_repro_failure(cases):
    """`_generate_attribute` on the cases in fresh interpreters under several PYTHONHASHSEED values: the first case
    whose text differs (model-independent oracle: the text must be a function of the attribute set)."""
    res = E.attrs_across_hashseeds(cases)
    good = [hs for hs in sorted(res) if not isinstance(res[hs], str)]
    for k, c in enumerate(cases):
        texts = {hs: res[hs][k] for hs in good}
        if len(set(texts.values())) > 1:
            return {"case": "emitattrs", "input": c,
                    "oracle_failures": [["_generate_attribute text differs between PYTHONHASHSEED values",
                                         {str(hs): t for hs, t in texts.items()}]]}
    return None


def _shrink_real(kind, p, still):
    cur = json.loads(json.dumps(p))
    if kind == "getname":
        changed = True
        while changed:
            changed = False
            for k in range(len(cur["reqs"])):
                t = dict(cur, reqs=cur["reqs"][:k] + cur["reqs"][k + 1:])
                if t["reqs"] and still(t):
                    cur, changed = t, True
                    break
        return cur
    changed = True
    while changed:
        changed = False
        for k in reversed(range(len(cur["sigs"]))):
            if any(e["rel"] == k for e in cur["sigs"]):
                continue
            t = json.loads(json.dumps(cur))
            del t["sigs"][k]
            for e in t["sigs"]:
                if e["rel"] is not None and e["rel"] > k:
                    e["rel"] -= 1
            t["reqs"] = [(i - 1 if i > k else i) for i in t["reqs"] if i != k]
            if t["sigs"] and t["reqs"] and any(e["inset"] for e in t["sigs"]) and still(t):
                cur, changed = t, True
                break
    return cur


def ctx_quiet(ctx):
    if ctx.lean is None:
        from leanproc import LeanDriver
        ctx.lean = LeanDriver("C02")
    return ctx


def replay(ctx, payload):
    """Re-execute a replay file on the real code (oracles only)."""
    f = payload.get("failing_input")
    if not f:
        print("replay: no failing input recorded (%s)" % payload.get("note", ""))
        return 1
    if f.get("case") == "keyword-name":
        text, named = _convert_named([f["input"]["signal_name"]])
        bad = named[0][1] in L.IEEE_1364_2005
        print("replay: signal named %r is emitted as %r -> %s" % (f["input"]["signal_name"], named[0][1], "STILL FAILS" if bad else "passes"))
        return 1 if bad else 0
    if f.get("case") == "hierarchy":
        bad, what = probe_hierarchy_order()
        print("replay:", what, "-> STILL FAILS" if bad else "-> passes")
        return 1 if bad else 0
    if f.get("case") == "emitattrs":
        r = attr_repro_failure([f["input"]])
        bad = r is not None or E.independent_attr_text(f["input"]) != E.real_emit_attrs(f["input"])[0]
        print("replay: _generate_attribute under PYTHONHASHSEED=%s:" % (E.HASHSEEDS,),
              json.dumps(r["oracle_failures"])[:1200] if r else ("not the sorted prefix -> STILL FAILS" if bad else "one sorted text -> passes"))
        return 1 if bad else 0
    if f.get("case") == "reproducibility" and "emit_src" in (f.get("input") or {}):
        corpus = [(f["input"].get("design", "design"), f["input"]["emit_src"])]
        res = E.collect(E.start_corpus_procs(corpus))
        errs, diffs = E.corpus_differences(corpus, res)
        odiffs = E.offset_differences(corpus, res)
        print("replay: emission-corpus design under PYTHONHASHSEED=%s and DUID offsets %s:" % (E.HASHSEEDS, E.DUID_OFFSETS),
              json.dumps(diffs[0][4])[:1500] if diffs else (json.dumps(odiffs[0][3:])[:1500] if odiffs else
                                                            (json.dumps(errs)[:800] if errs else "one text -> passes")))
        return 1 if (diffs or odiffs or errs) else 0
    if f.get("case") == "reproducibility" and "repro_src" in (f.get("input") or {}):
        r = None
        for k in range(6):
            r = r or repro_modes(f["input"]["repro_src"], random.Random(k), fresh=(k == 0))
        print("replay: tie design generated repeatedly:", json.dumps(r)[:1500] if r else "one text every time -> passes")
        return 1 if r else 0
    if f.get("case") == "reproducibility":
        p = f["input"]
        procs = [L.convert_in_fresh_interpreter(p["src"], p["seed"], hs) for hs in (1, 4242)]
        outs = []
        for pr in procs:
            o, e = pr.communicate(timeout=300)
            shutil.rmtree(pr._c02_dir, ignore_errors=True)
            outs.append(o)
        bad = outs[0] != outs[1]
        print("replay: convert() text under two PYTHONHASHSEED values %s" % ("DIFFERS -> STILL FAILS" if bad else "is identical -> passes"))
        return 1 if bad else 0
    if f.get("case") == "convert-text" and not f.get("input", {}).get("producer"):
        p = f["input"]
        r, log = L.convert_design(p["src"], p["seed"], p.get("regular_comb", True))
        decl = L.declared_identifiers(r.main_source)
        dup = [n for n, c in collections.Counter(decl).items() if c > 1]
        bad = dup or L.io_override_failures(r) or L.emission_order_failures(r, log)
        print("replay: text monitors:", bad if bad else "pass")
        return 1 if bad else 0
    if f.get("case") in ("exception", "hang"):
        tmp = []
        kind = f.get("producer")
        if kind == "getname":
            with L.fast_signals():
                guarded(ctx, tmp, kind, f["input"], lambda: L.run_real_getname(f["input"], _kw(ctx)))
        elif kind == "namespace":
            with L.fast_signals():
                guarded(ctx, tmp, kind, f["input"], lambda: L.run_real(f["input"], _kw(ctx)))
        else:
            guarded(ctx, tmp, kind, f["input"], lambda: produce_converted(kind, f["input"]))
        print("replay:", (tmp[0]["kind"] + ": " + str(tmp[0]["what"]) + " -> STILL FAILS") if tmp else "real code returns -> passes")
        return 1 if tmp else 0
    if f.get("case") == "convert-text" and f.get("input", {}).get("producer"):
        p = f["input"]
        tmp = []
        run_converted(ctx_quiet(ctx), p["producer"], p, lambda: produce_converted(p["producer"], p), tmp)
        tmp = [d for d in tmp if d.get("kind") == "monitor"]
        print("replay: text monitors:", json.dumps(tmp[0]["oracle"])[:800] if tmp else "pass")
        return 1 if tmp else 0
    if f.get("case") in ("getname", "dict", "namespace", "convert", "convert-platform", "convert-soc"):
        r = _real_failure(ctx, f["case"], f["input"], respect_known=False)
        print("replay:", json.dumps(r, default=str)[:2000] if r else "passes")
        return 1 if r else 0
    print("replay: unsupported case", f.get("case"))
    return 2
