"""C04 — stream elements keep the handshake contract and never stall forever.

Instances are those of C03 (props.c03.jobs: same real modules, same Lean machines through the shared dispatcher)
on a smaller grid, wrapped so that the monitors are the C04 ones (c04lib): stability of the source under a
contract-obeying producer and the cooperative-progress watchdog; plus `packet.Status`.
"""
import time
from explore import Job
import c04lib
from c04lib import C04Inst, StatusInst

FMT = "sink.valid, sink.data, sink.first, sink.last, source.ready[, extra inputs]"


def bounds(lean_open):
    """(K, K', coop_extra, stable, note) for a Lean machine name: K / K' are the bounds of the theorems
    `X_progress` / `X_no_livelock` in lean/LitexProps/C04.lean.  None = element not covered by C04 theorems yet."""
    ws = lean_open.split()
    name, ps = ws[0], [int(w) for w in ws[1:]]
    if name == "pipevalid":
        return 1, 2, None, True, None
    if name == "pipeready":
        return 1, 1, None, True, None
    if name == "wire":
        return 1, 1, None, True, None
    if name == "buffer_vr":
        return 1, 2, None, True, None
    if name == "syncfifo":
        return 1, 2, None, True, None
    if name == "syncfifo_buffered":
        return 1, 3, None, True, None
    return None


def _pick_tokens(inner):
    """Two token values that differ in every field (keeps the obligation-extended state space small while every
    change of data/first/last stays visible)."""
    toks = sorted(set(tuple(t) for t in inner.tokens))
    if len(toks) <= 2:
        return toks
    dmin, dmax = toks[0][0], toks[-1][0]
    want = [(dmin, 0, 1), (dmax, 1, 0)]
    if all(w in toks for w in want):
        return want
    return [toks[0], toks[-1]]


def jobs(tier):
    from props import c03
    quick = tier == "quick"
    J = []
    skipped = []
    for job in c03.jobs(tier):
        # the instance name / machine is only known after make(); probe it cheaply once
        try:
            inner = job.make()
        except Exception as e:  # an instance of another builder that does not elaborate: not ours to judge
            skipped.append("c03 instance failed to build: %r" % (e,))
            continue
        if not hasattr(inner, "lean_open") or not hasattr(inner, "tokens"):
            skipped.append("%s: not a one-sink/one-source StreamInst" % getattr(inner, "name", "?"))
            continue
        b = bounds(inner.lean_open)
        if b is None:
            skipped.append("%s (%s): no C04 theorem yet" % (inner.name, inner.lean_open))
            continue
        if inner.name.endswith("/allflags"):
            continue
        k_hs, k_del, coop_extra, stable, note = b
        # built once here; the forked workers inherit the object
        inst = C04Inst(inner, k_hs, k_del, coop_extra=coop_extra, stable=stable, note=note,
                       tokens=_pick_tokens(inner) if job.mode == "A" else None)
        if job.mode == "A":
            J.append(Job("A", lambda inst=inst: inst, max_states=20000 if quick else 400000))
        else:
            J.append(Job("B", lambda inst=inst: inst, cycles=job.kw.get("cycles", 3000),
                         runs=job.kw.get("runs", 1)))
    J.append(Job("A0", lambda: StatusInst(), max_states=10000))
    J.append(Job("B0", lambda: StatusInst("packet.Status/random"), cycles=4000 if quick else 40000, runs=1))
    jobs.skipped = skipped
    return J


def correspond(ctx):
    bad = c04lib.selftest()
    if bad:
        raise RuntimeError("monitor self-test failed: %r" % bad)
    ctx.jobs = jobs(ctx.tier)
    for s in getattr(jobs, "skipped", []):
        ctx.cov.notes.append("not covered: " + s)
    ctx.rule = ("model/implementation correspondence transitions (port level, as C03) over (state, obligation, "
                "letter); non-trivial = a sink or source handshake happened; additionally `stability_checks` = "
                "transitions on which a pending source token was checked against the real outputs and "
                "`watchdog_states` = implementation states from which cooperative runs were driven")
    dis = c04lib.run_jobs(ctx, ctx.jobs)
    return dis


def search(ctx, disagreements, proof_info):
    """Failing-input search with the model-independent monitors."""
    for d in disagreements:
        if getattr(d, "kind", "").startswith("monitor:"):
            return {"instance": d.inst_name, "trace": [list(l) for l in d.trace], "monitor": d.kind[8:],
                    "letter_format": FMT}
    deadline = time.time() + (60 if ctx.tier == "quick" else 600)
    all_jobs = getattr(ctx, "jobs", None) or jobs(ctx.tier)
    bad = [d.job for d in disagreements if getattr(d, "job", None) is not None]
    order = bad + [j for j in range(len(all_jobs)) if j not in bad]
    for j in order:
        if time.time() > deadline:
            break
        if all_jobs[j].mode not in ("A", "B"):
            import explore
            inst = all_jobs[j].make()
            r = explore.search_failing_input(inst, ctx.rng, [d.trace for d in disagreements if d.job == j] or [[]],
                                             deadline=deadline, tries=60)
            if r:
                return {"instance": inst.name, "trace": [list(l) for l in r[0]], "monitor": r[1],
                        "letter_format": "valid, last, ready"}
            continue
        inst = all_jobs[j].make()
        r = c04lib.monitor_search(inst, ctx.rng, cycles=3000, runs=3 if j in bad else 1, deadline=deadline)
        if r:
            return {"instance": inst.name, "trace": [list(l) for l in r[0]], "monitor": r[1], "letter_format": FMT}
    return None


def replay(ctx, payload):
    from explore import generic_replay
    return generic_replay(ctx, payload, jobs("thorough"))
