"""C04 — stream elements keep the handshake contract and never stall forever.

Instances are those of C03 (props.c03.jobs: same real modules, same Lean machines through the shared dispatcher)
on a smaller grid, wrapped so that the monitors are the C04 ones (c04lib): stability of the source under a
contract-obeying producer and the cooperative-progress watchdog; plus `packet.Status`.
"""
import time
from explore import Job
import c04lib
from c04lib import C04Inst, StatusInst

FMT = ("stream elements: sink.valid, sink.data, sink.first, sink.last, source.ready[, extra inputs]; packet.py "
       "elements: port order of lean/LitexModel/Packet/Num.lean")


# ---- glue (session 2).  Stage lists as the *documentation* of Buffer / SyncFIFO / Delay / ClockDomainCrossing gives
# them (Lean: bufferStages, syncFifoStages, delayStages, cdcSameStages).  Delivery window of a pipeline of stages:
# 1 + the sum of the stage latencies (Lean: `pipeLat l + 1`, theorem `pipeline_no_livelock_tight`, attained);
# of compositions obtained through the class `Live`: the product of the windows (`pipeB l + 1`, `bufferize_*`).
STAGE_B = {"w": 0, "v": 1, "r": 0, "f": 1, "b": 2}


def pipe_window_tight(codes):
    return 1 + sum(STAGE_B[c[0]] for c in codes)


def _buf(pv, pr):
    return (["v"] if pv else []) + (["r"] if pr else [])


def stage_codes(name, ps):
    if name == "buffer":
        return _buf(ps[0], ps[1])
    if name == "sfifo":
        d, bf = ps
        return [("b%d" if bf else "f%d") % d] if d >= 2 else _buf(1, 0) if d == 1 else []
    if name == "delayn":
        return ["v"] * ps[0]
    if name == "cdcsame":
        return _buf(1, 0) if ps[0] else []
    return None


def pipe_window(codes):
    k = 1
    for c in codes:
        k *= STAGE_B[c[0]] + 1
    return k


def bounds(lean_open):
    """dict(k_hs, k_del, k_acc, coop_extra, stable, note) for a Lean machine name: the bounds K / K' / K_acc of the
    theorems `X_progress` / `X_no_livelock` / `X_accepts|X_progress` in lean/LitexProps/C04.lean.
    None = element not covered by C04 theorems."""
    ws = lean_open.split()
    name = ws[0]
    B = lambda k_hs, k_del, k_acc=None, coop_extra=None, note=None: dict(
        k_hs=k_hs, k_del=k_del, k_acc=k_acc, coop_extra=coop_extra, stable=True, note=note)
    if name in ("stages", "monitored"):
        codes = ws[1:] if name == "stages" else ws[7:]
        k = pipe_window_tight(codes)                    # pipeline_no_livelock_tight / monitored_pipeline_tight
        return B(k, k, 1 if all(c in ("w", "v") for c in codes) else None,   # pipeline_accepts (connect/PipeValid only)
                 note="window = 1 + sum of the stage latencies (Flow.comp)")
    if name == "bufferize":
        bs, bd, pv, pr = [int(w) for w in ws[1:5]]
        up = ws[5] == "up"
        r = int(ws[6])
        k = pipe_window(_buf(pv, pr) if bd else []) * ((r + 1) if up else 1) * pipe_window(_buf(pv, pr) if bs else [])
        # bufferize_up_no_livelock / bufferize_down_no_livelock; bufferize_up_accepts when no PipeReady is involved
        return B(k, k, 1 if up and (not pr or not (bs or bd)) else None,
                 note="window = product of the windows of sink buffer, converter and source buffer (bufferize_good)")
    ps = [int(w) for w in ws[1:]]
    if name in ("buffer", "sfifo", "delayn", "cdcsame"):
        return bounds(" ".join(["stages"] + stage_codes(name, ps)))
    if name == "converter":
        nf, nt = ps[0], ps[1]                           # converter_* theorems: the class chosen by converterKind
        if nf < nt and nt % nf == 0:
            return bounds("up %d" % (nt // nf))
        if nf > nt and nf % nt == 0:
            return bounds("down %d" % (nf // nt))
        return bounds("down 1") if nf == nt else None
    if name == "pipevalid":
        return B(1, 2, 1)
    if name == "pipeready":
        return B(1, 1, 2)
    if name == "wire":
        return B(1, 1, 1)
    if name == "buffer_vr":
        return B(1, 2)
    if name == "syncfifo":
        return B(1, 2, 2)
    if name == "syncfifo_buffered":
        return B(1, 3, 2)
    if name in ("up", "strideup"):
        return B(1, ps[0] + 1, 1)                       # upConv_progress / upConv_no_livelock (r + 1)
    if name in ("down", "stridedown"):
        return B(1, 1, ps[0])                           # downConv_no_livelock / downConv_accepts (r)
    if name == "gearbox":
        i, o = ps[0], ps[1]
        return B(1, (o + i - 1) // i + 1)               # gearbox_progress / gearbox_no_livelock
    if name == "gate":
        return B(1, 1, coop_extra=lambda ex: ex[0] == 1,
                 note="cooperative = valid, ready and enable; enable is held while a token waits (gate_stable)")
    if name == "shifter":
        return B(1, 3, 1, note="shift is held while a token waits at the source (shifter_stable, ShiftHeld)")
    if name == "delay":
        return B(1, ps[0] + 1, 1)
    if name == "cast":
        return B(1, 1, 1)
    if name == "bufferized_up":
        return B(1, ps[0] + 3, 1)
    if name == "pipeactor":
        return B(1, ps[0] + 1, 1)                       # pipeActor_progress / pipeActor_no_livelock (L + 1)
    if name == "crossbar":
        n = ps[0]
        return B(1, 1, coop_extra=lambda ex: ex[0] == ex[1] and ex[0] < n,
                 note="cooperative = valid, ready and demux.sel = mux.sel < n; both selectors are held while a "
                      "token waits (crossbar_stable)")
    if name == "chain3":
        return B(1, 3)
    if name == "chain_fb_pr":
        return B(3, 3)                                  # bufferedFifo_pipeReady_no_livelock (compose_progress_general)
    return None


def _pick_tokens(inner):
    """Two token values that differ in every field (keeps the obligation-extended state space small while every
    change of data/first/last stays visible)."""
    toks = sorted(set(tuple(t) for t in inner.tokens))
    if len(toks) <= 2:
        return toks
    dmin, dmax = toks[0][0], toks[-1][0]
    want = [(dmin, 0, 1), (dmax, 1, 0)]
    if all(w in toks for w in want):
        return want
    return [toks[0], toks[-1]]


def _wrap(job, quick=False):
    """Build the C03 instance and wrap it (inside the worker).  Returns a C04Inst, or a string saying why the
    instance is not covered."""
    def make():
        inner = job.make()
        return wrap_inst(inner, job.mode, quick)
    return make


def _io_lcm(i, o):
    import math
    l = i * o // math.gcd(i, o)
    if l // i < 2:
        l *= 2
    if l // o < 2:
        l *= 2
    return l


def _quick_twin(inner):
    """Quick tier, mode A: the handshake logic does not depend on the lane/bit order, so the `reverse` /
    lsb-first twins of an instance are left to the thorough tier (C03 compares them in every tier)."""
    lo = inner.lean_open.split()
    if lo[0] in ("up", "down", "strideup", "stridedown") and ",reverse" in inner.name:
        return True
    if lo[0] == "gearbox" and lo[3] == "0" and _io_lcm(int(lo[1]), int(lo[2])) <= 6:
        return True
    return False


def wrap_inst(inner, mode, quick=False):
    lo = getattr(inner, "lean_open", "")
    if type(inner).__name__ == "BrokenInst":       # props.c03's Safe wrapper: the (changed) constructor raised
        raise RuntimeError(inner.name)
    if lo.split()[:1] in (["mux"], ["muxw"]):
        return c04lib.RouteInst(inner, "mux")
    if lo.split()[:1] in (["demux"], ["demuxw"]):
        return c04lib.RouteInst(inner, "demux")
    if not hasattr(inner, "tokens") or not hasattr(inner, "apply"):
        return "%s: not a one-sink/one-source StreamInst" % getattr(inner, "name", "?")
    b = bounds(lo)
    if b is None:
        return "%s (%s): no C04 theorem" % (inner.name, lo)
    if inner.name.endswith("/allflags"):
        return "%s: same element as the reduced-alphabet instance" % inner.name
    if quick and mode == "A" and _quick_twin(inner):
        return "%s: lane/bit-order twin, thorough tier only" % inner.name
    return C04Inst(inner, tokens=_pick_tokens(inner) if mode == "A" else None, **b)


def mk_chain3(depth, layout, tokens=None):
    """Pipeline(PipeValid, SyncFIFO(depth), PipeReady): a mixed 3-element composition (Lean: chain3_*)."""
    from streamlib import StreamInst
    from litex.gen import LiteXModule
    from litex.soc.interconnect import stream

    class Chain3(LiteXModule):
        def __init__(self):
            self.pv = stream.PipeValid(layout)
            self.fifo = stream.SyncFIFO(layout, depth)
            self.pr = stream.PipeReady(layout)
            self.pipeline = stream.Pipeline(self.pv, self.fifo, self.pr)
            self.sink, self.source = self.pipeline.sink, self.pipeline.source

    w = sum(x[1] for x in layout)
    return StreamInst("Pipeline(PipeValid,SyncFIFO(%d),PipeReady)/%db" % (depth, w), Chain3(), "chain3 %d" % depth,
                      capacity=depth + 2, tokens=tokens)


# ---------------------------------------------------------------------------------------------------------
# packet.py elements (instances from c16lib's constructors, Lean machines of LitexModel/Packet through our driver)

# Bounds of the cooperative watchdog for the packet elements (cycles to a handshake / to a delivery).  Backed by
# Lean theorems of LitexProps/C04.lean: Dispatcher (dispatcher_progress), plain PacketFIFO (packetfifo_progress,
# packetfifo_no_livelock: pd + 1), aligned Packetizer/Depacketizer (packetizer_no_livelock: 1,
# depacketizer_no_livelock: W + 1), Arbiter with every master offering (arbiter_progress, arbiter_no_starvation: n).
# buffered PacketFIFO (packetfifo_buffered_progress: 1, packetfifo_buffered_no_livelock: pd + 2).
# Arbiter with a subset of masters offering (arbiter_progress_subset: 2); packetizer_accepts (W + 1, not measured).
# Declared and measured only (open statements in the same file): unaligned Packetizer/Depacketizer progress
# (stability of the Packetizer for every header length: packetizer_stable_partial; its source side:
# packetizer_no_livelock_any).  All are enforced with the usual slack of 2 cycles.
PK = dict(k_arb=(2, 2), k_disp=1, k_fifo=(1, None), k_fifo_buf=(1, None), k_pk=(1, 1), k_dpk=(1, None),
          k_pk_u=(1, 1))


# header tables: name -> (byte, offset, width)
H1 = {"a": (0, 0, 8)}
H2 = {"a": (0, 0, 16)}
H2S = {"a": (0, 0, 8), "b": (1, 0, 8)}
H3 = {"a": (0, 0, 8), "b": (1, 0, 16)}
H4 = {"a": (0, 0, 16), "b": (2, 0, 16)}
ETH_LIKE = {"target_mac": (0, 0, 48), "sender_mac": (6, 0, 48), "ethernet_type": (12, 0, 16)}       # 14 bytes
IP_LIKE = {"ihl": (0, 0, 4), "version": (0, 4, 4), "total_length": (2, 0, 16), "identification": (4, 0, 16),
           "ttl": (8, 0, 8), "protocol": (9, 0, 8), "checksum": (10, 0, 16), "sender_ip": (12, 0, 32),
           "target_ip": (16, 0, 32)}                                                                  # 20 bytes


def bit_per_byte(nbytes):
    return [sum(((m >> k) & 1) << (8 * k) for k in range(nbytes)) for m in range(1 << nbytes)]


def hvals(fields, H, picks):
    """Header field-value tuples whose header bytes follow the given bit patterns (bit 0 of each byte)."""
    names = sorted(fields)
    out = []
    for pat in picks:
        sig = sum(((pat >> k) & 1) << (8 * k) for k in range(H))
        out.append(tuple((sig >> (8 * fields[k][0] + fields[k][1])) & ((1 << fields[k][2]) - 1) for k in names))
    return out


def mk_packet(kind, *a, **kw):
    """Packet element instances: own constructors (c04lib.pk_*), Lean machines of LitexModel/Packet via our driver."""
    V = c04lib
    name = kw.pop("name")
    if kind == "arbiter":
        n = a[0]
        inner = V.pk_arbiter(name, n, **kw)
        return V.PortC04Inst(inner, V.ArbiterView(n, inner.alphabet, *PK["k_arb"]))
    if kind == "dispatcher":
        m = a[0]
        inner = V.pk_dispatcher(name, m, **kw)
        k_hs = PK["k_disp"]
        return V.PortC04Inst(inner, V.DispatcherView(m, inner.nsel, inner.alphabet, k_hs))
    if kind == "packetfifo":
        pd = a[0]
        buffered = kw.get("buffered", False)
        inner = V.pk_packetfifo(name, pd, **kw)
        k_hs, _ = PK["k_fifo_buf"] if buffered else PK["k_fifo"]
        # a complete packet of <= pd beats is offered pd + 1 (+1 buffered) cycles after its first beat at the latest
        return V.PortC04Inst(inner, V.PacketFifoView(inner.alphabet or [(1, 0, 0, 0, 1), (1, 0, 0, 1, 1)], pd, k_hs,
                                                     pd + (2 if buffered else 1)))
    if kind == "packetizer":
        Bb, H, f, sw = a
        inner = V.pk_packetizer(name, Bb, H, f, sw, **kw)
        if H % Bb:
            return V.PortC04Inst(inner, V.PacketizerUView(inner.coop_alpha, Bb, H, *PK["k_pk_u"]))
        return V.PortC04Inst(inner, V.SSView(inner.coop_alpha, *PK["k_pk"], last_idx=2))
    if kind == "depacketizer":
        Bb, H, f, sw = a
        inner = V.pk_depacketizer(name, Bb, H, f, sw, **kw)
        return V.PortC04Inst(inner, V.DepackView(inner.coop_alpha, inner.W, PK["k_dpk"][0], inner.W + 1))
    raise ValueError(kind)


def packet_jobs(tier):
    quick = tier == "quick"
    J = []
    mx = 20000 if quick else 300000
    A = lambda mk: J.append(Job("AP", mk, max_states=mx, deadline_s=40 if quick else 300))
    B = lambda mk: J.append(Job("BP", mk, cycles=3000 if quick else 30000, runs=1 if quick else 2,
                                watch_every=8 if quick else 16))
    T2 = [(0, 0, 0), (1, 1, 1)]
    T3 = [(0, 0, 0), (1, 0, 1), (0, 1, 1)]
    A(lambda: mk_packet("arbiter", 2, name="Arbiter(2)"))
    A(lambda: mk_packet("arbiter", 3, name="Arbiter(3)", data_values=(0,) if quick else (0, 1)))
    A(lambda: mk_packet("arbiter", 1, name="Arbiter(1)"))                                # glue: plain connect
    A(lambda: mk_packet("dispatcher", 1, name="Dispatcher(1)"))                          # glue: plain connect
    A(lambda: mk_packet("dispatcher", 1, name="Dispatcher(1,one_hot)", one_hot=True))
    A(lambda: mk_packet("dispatcher", 2, name="Dispatcher(2)"))
    A(lambda: mk_packet("dispatcher", 3, name="Dispatcher(3)"))                          # sel = 3 addresses no slave
    A(lambda: mk_packet("dispatcher", 2, name="Dispatcher(2,one_hot)", one_hot=True))
    A(lambda: mk_packet("dispatcher", 3, name="Dispatcher(3,one_hot)", one_hot=True, data_values=(1,)))
    A(lambda: mk_packet("packetfifo", 2, name="PacketFIFO(2)", tokens=T2 if quick else T3))
    A(lambda: mk_packet("packetfifo", 3, name="PacketFIFO(3,param_depth=1)/T2", qd=1, tokens=T2))   # param < payload
    A(lambda: mk_packet("packetfifo", 2, name="PacketFIFO(2,buffered)", buffered=True, tokens=T2))
    if not quick:
        A(lambda: mk_packet("packetfifo", 3, name="PacketFIFO(3)/T2", tokens=T2))
        A(lambda: mk_packet("packetfifo", 4, name="PacketFIFO(4,param_depth=1)/T2", qd=1, tokens=T2))
        A(lambda: mk_packet("packetfifo", 3, name="PacketFIFO(3,param_depth=1)/T3", qd=1, tokens=T3))
        A(lambda: mk_packet("packetfifo", 3, name="PacketFIFO(3,param_depth=1,buffered)/T2", qd=1, buffered=True,
                            tokens=T2))
        A(lambda: mk_packet("dispatcher", 4, name="Dispatcher(4)"))
        A(lambda: mk_packet("arbiter", 4, name="Arbiter(4)", data_values=(0,)))
    for (Bb, H, f, sw, pats) in ((1, 1, H1, False, (0, 1)), (1, 2, H2, True, (1, 2)), (1, 3, H3, True, (1, 6)),
                                 (2, 2, H2S, False, (1, 2)), (2, 4, H4, True, (1, 14))):
        dv = bit_per_byte(Bb)[:2] if quick else bit_per_byte(Bb)
        hv = hvals(f, H, pats)
        tag = "dw%d/H%d" % (8 * Bb, H)
        A(lambda Bb=Bb, H=H, f=f, sw=sw, dv=dv, hv=hv, tag=tag:
          mk_packet("packetizer", Bb, H, f, sw, name="Packetizer/" + tag, data_values=dv, hdr_values=hv))
        A(lambda Bb=Bb, H=H, f=f, sw=sw, dv=dv, tag=tag:
          mk_packet("depacketizer", Bb, H, f, sw, name="Depacketizer/" + tag, data_values=dv))
    # header not a multiple of the beat, producers inside C16's `UOk` domain (see c04lib.PacketizerUView)
    A(lambda: mk_packet("packetizer", 2, 3, H3, True, name="Packetizer/dw16/H3(unaligned)",
                        data_values=[0x0100, 0x0001], hdr_values=hvals(H3, 3, (1, 6))))
    A(lambda: mk_packet("depacketizer", 2, 3, H3, True, name="Depacketizer/dw16/H3(unaligned)",
                        data_values=[0x0100, 0x0001] if quick else bit_per_byte(2)))
    B(lambda: mk_packet("packetizer", 2, 3, H3, True, name="Packetizer/dw16/H3(unaligned)/random", alphabet=False))
    B(lambda: mk_packet("packetizer", 4, 6, {"a": (0, 0, 16), "b": (2, 0, 32)}, True,
                        name="Packetizer/dw32/H6(unaligned)", alphabet=False))
    B(lambda: mk_packet("packetizer", 8, 11, {"a": (0, 0, 24), "b": (3, 0, 64)}, False,
                        name="Packetizer/dw64/H11(unaligned)", alphabet=False))
    B(lambda: mk_packet("depacketizer", 4, 6, {"a": (0, 0, 16), "b": (2, 0, 32)}, True,
                        name="Depacketizer/dw32/H6(unaligned)", alphabet=False))
    B(lambda: mk_packet("depacketizer", 8, 11, {"a": (0, 0, 24), "b": (3, 0, 64)}, False,
                        name="Depacketizer/dw64/H11(unaligned)", alphabet=False))
    B(lambda: mk_packet("arbiter", 3, name="Arbiter(3)/8b", dwid=8, alphabet=False))
    B(lambda: mk_packet("arbiter", 5, name="Arbiter(5)/64b", dwid=64, alphabet=False))
    B(lambda: mk_packet("dispatcher", 3, name="Dispatcher(3)/8b", dwid=8, alphabet=False))
    B(lambda: mk_packet("dispatcher", 5, name="Dispatcher(5)/8b", dwid=8, alphabet=False))   # sel 5, 6, 7 address nobody
    B(lambda: mk_packet("dispatcher", 6, name="Dispatcher(6)/8b", dwid=8, alphabet=False))
    B(lambda: mk_packet("dispatcher", 4, name="Dispatcher(4,one_hot)/8b", one_hot=True, dwid=8, alphabet=False))
    B(lambda: mk_packet("dispatcher", 5, name="Dispatcher(5,one_hot)/64b", one_hot=True, dwid=64, alphabet=False))
    B(lambda: mk_packet("packetfifo", 8, name="PacketFIFO(8,param_depth=2)/8b", qd=2, dwid=8, pwid=8, alphabet=False))
    B(lambda: mk_packet("packetfifo", 8, name="PacketFIFO(8,buffered)/8b", buffered=True, dwid=8, pwid=8,
                        alphabet=False))
    B(lambda: mk_packet("packetfifo", 5, name="PacketFIFO(5,param_depth=3)/64b", qd=3, dwid=64, pwid=8, alphabet=False))
    B(lambda: mk_packet("packetfifo", 6, name="PacketFIFO(6,param_depth=1,buffered)/8b", qd=1, buffered=True, dwid=8,
                        pwid=8, alphabet=False))
    B(lambda: mk_packet("packetizer", 2, 14, ETH_LIKE, True, name="Packetizer/eth/dw16/H14", alphabet=False))
    B(lambda: mk_packet("packetizer", 8, 24, {"a": (0, 0, 64), "b": (8, 0, 128)}, True, name="Packetizer/dw64/H24",
                        alphabet=False))                                                 # 3 header words of 64 bits
    B(lambda: mk_packet("depacketizer", 4, 20, IP_LIKE, True, name="Depacketizer/ip/dw32/H20", alphabet=False))
    B(lambda: mk_packet("depacketizer", 16, 16, {"a": (0, 0, 128)}, True, name="Depacketizer/dw128/H16",
                        alphabet=False))
    return J


def corner_jobs(tier):
    """Corners named by the quantifier that must stay in the QUICK grid whatever props.c03 does: non-power-of-two
    ratios / depths / counts (3, 5, 6, 7), payloads wider than 32 bits, less-used options, and instances built
    through the glue code (`Converter`'s class selection, `SyncFIFO`'s depth dispatch, same-domain
    `ClockDomainCrossing`)."""
    from props import c03
    from streamlib import StreamInst
    from litex.soc.interconnect import stream
    quick = tier == "quick"
    J = []
    T2 = [(0, 0, 1), (1, 1, 0)]
    A = lambda mk: J.append(Job("A", lambda: wrap_inst(mk(), "A"), max_states=20000 if quick else 400000,
                                deadline_s=40 if quick else 400))
    B = lambda mk: J.append(Job("B", lambda: wrap_inst(mk(), "B"), cycles=2000 if quick else 20000,
                                runs=1 if quick else 2, watch_every=20))
    # converter ratios 3, 5, 6, 7: exhaustive on 1-bit sub-words, random on bytes, through every front door
    for r in (3, 5, 6, 7):
        A(lambda r=r: c03.mk_down(r, 1, False))
        A(lambda r=r: c03.mk_unpack(r, 1, 0, r % 2 == 1))
        if r <= 6:
            A(lambda r=r: c03.mk_up(r, 1, False))
        B(lambda r=r: c03.mk_up(r, 8, r % 2 == 0, raw=False))              # stream.Converter picks _UpConverter
        B(lambda r=r: c03.mk_down(r, 8, r % 2 == 1, raw=False))            # stream.Converter picks _DownConverter
        B(lambda r=r: c03.mk_pack(r, 8, 4, False))
        B(lambda r=r: c03.mk_unpack(r, 16, 0, True))
    B(lambda: c03.mk_stride(True, 3, [8, 3, 5], 6, False))
    B(lambda: c03.mk_stride(True, 5, [4, 4], 2, True))
    B(lambda: c03.mk_stride(False, 6, [8, 8], 3, False))
    B(lambda: c03.mk_stride(False, 7, [3, 5], 0, True))
    B(lambda: c03.mk_bufferized_up(3, 8, False))
    B(lambda: c03.mk_bufferized_up(5, 8, True))
    # payloads wider than 32 bits, non-power-of-two depths
    L64, L128 = [("data", 64)], [("data", 128)]
    B(lambda: StreamInst("Buffer(v,r)/64b", stream.Buffer(L64, True, True), "buffer_vr", capacity=2))
    B(lambda: StreamInst("PipeReady/128b", stream.PipeReady(L128), "pipeready", capacity=1))
    B(lambda: StreamInst("SyncFIFO(5)/128b", stream.SyncFIFO(L128, 5), "syncfifo 5", capacity=5))
    B(lambda: StreamInst("SyncFIFO(7,buffered)/64b", stream.SyncFIFO(L64, 7, buffered=True), "syncfifo_buffered 7",
                         capacity=8))
    B(lambda: StreamInst("SyncFIFO(6)/8b", stream.SyncFIFO([("data", 8)], 6), "syncfifo 6", capacity=6))
    B(lambda: c03.mk_delay(64, 5))
    B(lambda: c03.mk_delay(1, 7))
    B(lambda: c03.mk_gearbox(5, 3, True))
    B(lambda: c03.mk_gearbox(6, 7, False))
    B(lambda: c03.mk_gearbox(40, 64, True))
    B(lambda: c03.mk_shifter(7))
    B(lambda: c03.mk_gate(64, True))
    # glue: same-domain ClockDomainCrossing (plain connect / Buffer), SyncFIFO depth dispatch is in the C03 list
    A(lambda: StreamInst("ClockDomainCrossing(sys,sys)/1b", stream.ClockDomainCrossing([("data", 1)], "sys", "sys"),
                         "wire", capacity=0, tokens=T2))
    A(lambda: StreamInst("ClockDomainCrossing(sys,sys,buffered)/1b",
                         stream.ClockDomainCrossing([("data", 1)], "sys", "sys", buffered=True), "pipevalid",
                         capacity=1, tokens=T2))
    B(lambda: StreamInst("ClockDomainCrossing(sys,sys,buffered)/64b",
                         stream.ClockDomainCrossing(L64, "sys", "sys", buffered=True), "pipevalid", capacity=1))
    return J


def _is_route(job):
    """Multiplexer/Demultiplexer jobs of C03 (recognised without building the instance: their constructors live
    in c03lib as MuxInst/DemuxInst)."""
    code = getattr(job.make, "__code__", None)
    names = set(code.co_names) if code is not None else set()
    return bool(names & {"MuxInst", "DemuxInst"})


def mk_chain_fb_pr(depth, layout, tokens=None):
    """Pipeline(SyncFIFO(depth, buffered=True), PipeReady): outside the front/back classes (Lean: OfferMeasure.comp)."""
    from streamlib import StreamInst
    from litex.gen import LiteXModule
    from litex.soc.interconnect import stream

    class Chain(LiteXModule):
        def __init__(self):
            self.fifo = stream.SyncFIFO(layout, depth, buffered=True)
            self.pr = stream.PipeReady(layout)
            self.pipeline = stream.Pipeline(self.fifo, self.pr)
            self.sink, self.source = self.pipeline.sink, self.pipeline.source

    w = sum(x[1] for x in layout)
    return StreamInst("Pipeline(SyncFIFO(%d,buffered),PipeReady)/%db" % (depth, w), Chain(), "chain_fb_pr %d" % depth,
                      capacity=depth + 2, tokens=tokens)


def mk_monitored(codes, nb, w, delim_first, cfg, tokens=None):
    """Pipeline(sink, stages..., source) whose source endpoint is watched by a stream.Monitor with `latch` held at 1
    (Lean: `monitored (stages l)`, LitexModel/Stream/Monitored.lean).  Ports of a StreamInst followed by the four CSR
    status values: the handshake must be that of the pipeline alone (Monitor transparency), the counters count it."""
    from streamlib import StreamInst
    from litex.gen import LiteXModule
    from litex.soc.interconnect import stream
    lay = [("data", nb)]

    class P(LiteXModule):
        def __init__(self):
            self.sink, self.source = stream.Endpoint(lay), stream.Endpoint(lay)
            mods = []
            for k, c in enumerate(codes):
                m = (stream.Endpoint(lay) if c == "w" else stream.PipeValid(lay) if c == "v" else
                     stream.PipeReady(lay) if c == "r" else stream.SyncFIFO(lay, int(c[1:]), buffered=(c[0] == "b")))
                if c != "w":
                    setattr(self, "m%d" % k, m)
                mods.append(m)
            self.pipeline = stream.Pipeline(self.sink, *mods, self.source)
            self.mon = stream.Monitor(self.source, count_width=w, with_tokens=bool(cfg[0]),
                                      with_overflows=bool(cfg[1]), with_underflows=bool(cfg[2]),
                                      with_packets=bool(cfg[3]), packet_delimiter="first" if delim_first else "last")

    m = P()
    cfg = tuple(int(bool(c)) for c in cfg)
    inst = StreamInst("Monitor(w=%d,%s,%s) on Pipeline(%s)/%db" % (
        w, "first" if delim_first else "last", "".join(n for n, c in zip("toup", cfg) if c), ",".join(codes), nb), m,
        "monitored %d %d %d %d %d %d %s" % ((w, int(bool(delim_first))) + cfg + (" ".join(codes),)),
        capacity=None, tokens=tokens)
    stat = [getattr(m.mon, "_" + n).status if c else None
            for n, c in zip(("tokens", "overflows", "underflows", "packets"), cfg)]
    inst.netlist.set(m.mon.latch, 1)
    o_sample = inst.sample

    def sample():
        return o_sample() + [inst.netlist.getu(x) if x is not None else 0 for x in stat]
    inst.sample = sample
    inst.qual = list(inst.qual) + [None] * 4
    return inst


class MonTransparent:
    """props.c03's MonitorInst (a stream.Monitor on a free endpoint) with the C04 observation added: the Monitor must
    not drive anything of the endpoint it watches — valid/ready/first/last read back as they were driven."""

    def __init__(self, inner):
        self.inner = inner
        self.name, self.lean_open, self.netlist, self.qual = inner.name + "/transparent", inner.lean_open, inner.netlist, inner.qual
        self.alphabet = inner.alphabet
        self._rb = None

    def apply(self, letter):
        self.inner.apply(letter)

    def sample(self):
        n, ep = self.netlist, self.inner.ep
        self._rb = (n.getu(ep.valid), n.getu(ep.ready), n.getu(ep.first), n.getu(ep.last))
        return self.inner.sample()

    def nontrivial(self, letter, outs):
        return self.inner.nontrivial(letter, outs)

    def gen(self, rng, t):
        return self.inner.gen(rng, t)

    def monitor(self):
        me, mon = self, self.inner.monitor()

        class M:
            def observe(self, letter, outs):
                if me._rb is not None and tuple(letter[2:6]) != me._rb:
                    return ("the Monitor drives the endpoint it watches: (valid, ready, first, last) driven %r, read "
                            "back %r" % (tuple(letter[2:6]), me._rb))
                return mon.observe(letter, outs)
        return M()


def _is_monitor(job):
    code = getattr(job.make, "__code__", None)
    return code is not None and "mk_monitor" in code.co_names


def jobs(tier):
    from props import c03
    quick = tier == "quick"
    J = []
    n_base = len(c03.jobs(tier))
    for k, job in enumerate(c03.jobs(tier) + c03.glue_jobs(tier)):
        if k >= n_base and quick and job.mode == "B":
            # glue instances: the lock-step comparison over long runs is C03's; here the monitors and the watchdog
            job.kw["cycles"] = min(job.kw.get("cycles", 2000), 1000)
        if _is_monitor(job):
            J.append(Job("B0", lambda job=job: MonTransparent(job.make()), cycles=1500 if quick else 15000, runs=1))
            continue
        if _is_route(job):
            if job.mode == "A":
                J.append(Job("R", _wrap(job), deadline_s=40 if quick else 400))
            else:
                J.append(Job("B0", _wrap(job), cycles=job.kw.get("cycles", 3000), runs=job.kw.get("runs", 1)))
            continue
        if job.mode == "A":
            # the twin deferral applies to the base grid only: every glue instance runs in every tier
            J.append(Job("A", _wrap(job, quick and k < n_base), max_states=min(job.kw.get("max_states", 20000), 20000 if quick else 400000),
                         deadline_s=40 if quick else 400))
        else:
            J.append(Job("B", _wrap(job), cycles=job.kw.get("cycles", 3000), runs=min(job.kw.get("runs", 1), 2),
                         watch_every=8 if quick else 16))
    T2 = [(0, 0, 1), (1, 1, 0)]
    J.append(Job("A", lambda: wrap_inst(mk_chain3(2, [("data", 1)], T2), "A"), max_states=20000 if quick else 400000,
                 deadline_s=40 if quick else 400))
    J.append(Job("B", lambda: wrap_inst(mk_chain3(8, [("data", 16)]), "B"), cycles=3000 if quick else 30000,
                 runs=1 if quick else 2, watch_every=8 if quick else 16))
    J.append(Job("A", lambda: wrap_inst(mk_chain_fb_pr(2, [("data", 1)], T2), "A"), max_states=20000 if quick else 400000,
                 deadline_s=40 if quick else 400))
    J.append(Job("B", lambda: wrap_inst(mk_chain_fb_pr(5, [("data", 64)]), "B"), cycles=2000 if quick else 20000,
                 runs=1 if quick else 2, watch_every=20))
    # Monitor transparency: the handshake of a monitored pipeline is the handshake of the pipeline
    mxm = 20000 if quick else 400000
    J.append(Job("A", lambda: wrap_inst(mk_monitored(["v"], 1, 1, False, (1, 1, 0, 0), T2), "A"), max_states=mxm,
                 deadline_s=40 if quick else 400))
    J.append(Job("A", lambda: wrap_inst(mk_monitored(["r"], 1, 1, True, (0, 0, 1, 1), T2), "A"), max_states=mxm,
                 deadline_s=40 if quick else 400))
    if not quick:
        J.append(Job("A", lambda: wrap_inst(mk_monitored(["v", "r"], 1, 1, False, (0, 1, 1, 0), T2), "A"), max_states=mxm,
                     deadline_s=400))
    J.append(Job("B", lambda: wrap_inst(mk_monitored(["v", "f3", "r"], 16, 8, False, (1, 1, 1, 1)), "B"),
                 cycles=2000 if quick else 20000, runs=1 if quick else 2, watch_every=20))
    J += corner_jobs(tier)
    J += packet_jobs(tier)
    J.append(Job("A0", lambda: StatusInst(), max_states=10000))
    J.append(Job("B0", lambda: StatusInst("packet.Status/random"), cycles=4000 if quick else 40000, runs=1))
    return J


class _FlipLean:
    """Sensitivity self-test helper: forwards to the real driver but flips one bit of one answer."""

    def __init__(self, lean, which, bit):
        self.lean, self.which, self.bit, self.count = lean, which, bit, 0

    def open(self, spec):
        self.lean.open(spec)

    def close_session(self):
        self.lean.close_session()

    def step_batch(self, reqs):
        res = self.lean.step_batch(reqs)
        out = []
        for sid, outs in res:
            if self.count == self.which:
                outs = list(outs)
                outs[self.bit] ^= 1
            self.count += 1
            out.append((sid, outs))
        return out


def sensitivity(ctx):
    """The comparison must notice a perturbed model answer, and the watchdog a bound that is one too small."""
    from runner import Coverage
    from streamlib import StreamInst
    from litex.soc.interconnect import stream
    bad = []
    T2 = [(0, 0, 1), (1, 1, 0)]
    for which, bit in ((7, 0), (23, 1)):
        inst = C04Inst(StreamInst("selftest", stream.PipeValid([("data", 1)]), "pipevalid", tokens=T2), 1, 2)
        d = c04lib.coexplore(inst, _FlipLean(ctx.lean, which, bit), Coverage(), max_states=1000)
        if not any(x.kind == "correspondence" for x in d):
            bad.append("perturbed model answer %d/bit %d not noticed" % (which, bit))
    inst = C04Inst(StreamInst("selftest", stream.PipeValid([("data", 1)]), "pipevalid", tokens=T2), 1, 1)
    d = c04lib.coexplore(inst, ctx.lean, Coverage(), max_states=1000)
    if not any(x.kind.startswith("progress-bound") for x in d):
        bad.append("a delivery bound that is one too small was not noticed")
    return bad


def correspond(ctx):
    bad = c04lib.selftest() + sensitivity(ctx)
    if bad:
        raise RuntimeError("self-test failed: %r" % bad)
    ctx.cov.notes.append("self-tests passed: monitors on synthetic traces; 2 perturbed model answers noticed; "
                         "too-small delivery bound noticed")
    ctx.jobs = jobs(ctx.tier)
    ctx.rule = ("model/implementation correspondence transitions (port level, as C03) over (state, obligation, "
                "letter); non-trivial = a sink or source handshake happened; additionally `stability_checks` = "
                "transitions on which a pending source token was checked against the real outputs and "
                "`watchdog_states` = implementation states from which cooperative runs were driven")
    dis = c04lib.run_jobs(ctx, ctx.jobs)
    return dis


def search(ctx, disagreements, proof_info):
    """Failing-input search with the model-independent monitors."""
    mons = [d for d in disagreements if getattr(d, "kind", "").startswith("monitor:")]
    if mons:
        d = min(mons, key=lambda d: len(d.trace))      # the shortest failing input seen during correspondence
        return {"instance": d.inst_name, "trace": [list(l) for l in d.trace], "monitor": d.kind[8:],
                "letter_format": FMT}
    deadline = time.time() + (60 if ctx.tier == "quick" else 600)
    all_jobs = getattr(ctx, "jobs", None) or jobs(ctx.tier)
    bad = [d.job for d in disagreements if getattr(d, "job", None) is not None]
    order = bad + [j for j in range(len(all_jobs)) if j not in bad]
    for j in order:
        if time.time() > deadline:
            break
        try:
            probe = all_jobs[j].make()
        except Exception:           # the changed implementation does not even build: nothing to drive
            continue
        if all_jobs[j].mode not in ("A", "B"):
            import explore
            inst = probe
            r = explore.search_failing_input(inst, ctx.rng, [d.trace for d in disagreements if d.job == j] or [[]],
                                             deadline=deadline, tries=60)
            if r:
                return {"instance": inst.name, "trace": [list(l) for l in r[0]], "monitor": r[1],
                        "letter_format": "port order of the instance's machine (LitexModel/Packet/Num.lean, "
                                         "c03lib Mux/Demux, or valid,last,ready for packet.Status)"}
            continue
        inst = probe
        if isinstance(inst, str):
            continue
        r = c04lib.monitor_search(inst, ctx.rng, cycles=3000, runs=3 if j in bad else 1, deadline=deadline)
        if r:
            return {"instance": inst.name, "trace": [list(l) for l in r[0]], "monitor": r[1], "letter_format": FMT}
    return None


class _Named:
    """generic_replay looks instances up by name; skip the uncovered ones."""
    def __init__(self, make):
        self._make = make

    def make(self):
        inst = self._make()
        if isinstance(inst, str):
            class _No:
                name = None
            return _No()
        return inst


def replay(ctx, payload):
    from explore import generic_replay
    return generic_replay(ctx, payload, [_Named(j.make) for j in jobs("thorough")])


# ---------------------------------------------------------------------------------------------------------
# Findings

F_STRIDE = "C04-strideup-param-unstable"


def _probe_strideup_param():
    """Witness of the (fixed, 3f0170f) StrideConverter defect: a 2-sub-word word waits at the source (ready=0)
    while the idle producer (valid=0) wiggles the param lines; source.param must not move."""
    from streamlib import StreamInst
    from litex.soc.interconnect import stream
    from litex.soc.interconnect.stream import EndpointDescription as ED
    m = stream.StrideConverter(ED([("data", 2)], [("p", 2)]), ED([("data", 4)], [("p", 2)]))
    inst = StreamInst("StrideConverter(up x2,[2]+p2)", m, "strideup 2 2 0 2")
    # sink.data packs payload (2 bits) | param << 2
    trace = [(1, 1 | 3 << 2, 1, 0, 0), (1, 2 | 3 << 2, 0, 1, 0), (0, 0 | 0 << 2, 0, 0, 0), (0, 0 | 1 << 2, 0, 0, 0),
             (0, 0 | 2 << 2, 0, 0, 0), (0, 0 | 2 << 2, 0, 0, 1)]
    mon = c04lib.StabilityMonitor()
    from explore import impl_step
    for t, letter in enumerate(trace):
        outs = impl_step(inst, letter)
        msg = mon.observe(letter, outs)
        if msg:
            return True, "cycle %d: %s" % (t, msg)
    return False, "source.param steady over 3 stalled cycles (%d stability checks)" % mon.checks


F_FLUSH = "C04-packetizer-flush-padding-unstable"


def _probe_packetizer_flush():
    """Witness of the (fixed) Packetizer defect: dw = 16, 3-byte header, packet aaaa aaaa aaaa bbcc+last; the
    residue beat is flushed (source.valid = 1 without sink.valid) while the consumer stalls and the idle producer
    moves its data lines 0000 -> 00ff -> 0012: source.data must stay 0x00bb (it showed 0xffbb, 0x12bb before)."""
    from netlist import Netlist
    from litex.soc.interconnect import stream
    from litex.soc.interconnect.packet import Header, HeaderField, Packetizer
    hdr = Header({"a": HeaderField(0, 0, 8), "b": HeaderField(1, 0, 16)}, 3, swap_field_bytes=True)
    m = Packetizer(stream.EndpointDescription([("data", 16)], hdr.get_layout()),
                   stream.EndpointDescription([("data", 16)]), hdr)
    n = Netlist(m)
    trace = [(1, 0xaaaa, 0, 1), (1, 0xaaaa, 0, 1), (1, 0xaaaa, 0, 1), (1, 0xbbcc, 1, 1),
             (0, 0x0000, 0, 0), (0, 0x00ff, 0, 0), (0, 0x0012, 0, 0), (0, 0x0000, 0, 1)]
    pending = None
    checks = 0
    for t, (v, d, l, r) in enumerate(trace):
        n.set(m.sink.valid, v)
        n.set(m.sink.data, d)
        n.set(m.sink.last, l)
        n.set(m.sink.a, 0x11)
        n.set(m.sink.b, 0x2233)
        n.set(m.source.ready, r)
        n.settle()
        sv, sd, sl = n.getu(m.source.valid), n.getu(m.source.data), n.getu(m.source.last)
        if pending is not None:
            checks += 1
            if not sv or (sd, sl) != pending:
                return True, "cycle %d: source token changed while valid and not ready: (0x%04x, %d) -> (0x%04x, %d), " \
                             "valid=%d (flush beat, idle sink data lines moved)" % (t, pending[0], pending[1], sd, sl, sv)
        pending = (sd, sl) if (sv and not r) else None
        n.tick(("sys",))
    if checks < 3:
        return True, "witness did not reach the stalled flush beat (%d stability checks)" % checks
    return False, "flush beat steady over %d stalled cycles while the idle sink data lines moved" % checks


def probes(ctx):
    fails, what = _probe_strideup_param()
    f2, w2 = _probe_packetizer_flush()
    return [(F_STRIDE, fails, what), (F_FLUSH, f2, w2)]
