"""C01 — generated Verilog behaves exactly like the simulated FHDL design.

Three-way tie (see DESIGN §7.C01):
  (i)   printer correspondence : Lean `printE`/`printModule` of the serialised real (lowered) FHDL tree == the
                                 tree parsed from the text the real printer emitted, node by node (expressions,
                                 statements, items, declarations with their initialisers);
  (ii)  simulator correspondence: Lean `evalF`/`stepF` == the real `Evaluator` on the same stimuli, all signals;
  (iii) Lean as Verilog simulator: `evalV`/`stepV` on the parsed REAL text == `evalF`/`stepF` whenever the side
                                 condition `Fits` of the theorems holds; inputs on which it does not hold and
                                 the two semantics part are overflow-site witnesses (tracked, not alarms);
  (iv)  lowering               : the real Evaluator on the ORIGINAL design == on the lowered fragment that was
                                 printed (ports), which ties `_ComplexSliceLowerer` and the other passes in.
Real cores: every statically non-fitting site (keyed by core + kind + name-normalised printed text) must be in
corpus/C01/overflow_sites.json; a new site is a VIOLATION.
"""
import itertools, json, os, re, time, random, traceback
import c01lib as L
from c01lib import SigIds, FlatNS, ExprGen, ser_expr, parse_vexpr, truncate, make_sigs, sig_range, used_signals
from c01lib import ARITH, BITW, CMP
from migen.fhdl.structure import _Operator, Cat, Replicate, Constant, Mux
from litex.gen.fhdl.expression import _generate_expression
from litex.gen.sim.core import Evaluator

VERIF = os.path.dirname(os.path.dirname(os.path.dirname(os.path.abspath(__file__))))
CORPUS = os.path.join(VERIF, "corpus", "C01")
SITES_FILE = os.path.join(CORPUS, "overflow_sites.json")


class Dis:
    def __init__(self, kind, **kw):
        self.kind = kind
        self.kw = kw

    def to_json(self):
        d = {"kind": self.kind}
        d.update(self.kw)
        return d


# ----------------------------------------------------------------------------------------------------------
# L1: expressions
# ----------------------------------------------------------------------------------------------------------

def corner_values(s):
    r = sig_range(s)
    vals = {r[0], r[-1], 0 if 0 in r else r[0]}
    if s.signed:
        vals.add(-1)
        if s.nbits > 1:
            vals.add(1)
    else:
        vals.add(min(1, r[-1]))
    return sorted(vals)


def expr_envs(rng, sigs, used, max_exh_bits=10, nrand=48):
    """Valuations of `sigs` (list aligned with ids): exhaustive over the used signals when narrow."""
    bits = sum(s.nbits for s in used)
    idx = {id(s): k for k, s in enumerate(sigs)}
    envs = []
    if bits <= max_exh_bits:
        for combo in itertools.product(*[sig_range(s) for s in used]):
            env = [0] * len(sigs)
            for s, v in zip(used, combo):
                env[idx[id(s)]] = v
            envs.append(env)
        return envs, True
    corners = [corner_values(s) for s in used]
    for _ in range(nrand):
        env = [0] * len(sigs)
        for s, cv in zip(used, corners):
            if rng.random() < 0.4:
                v = rng.choice(cv)
            else:
                r = sig_range(s)
                v = rng.randrange(r[0], r[-1] + 1)
            env[idx[id(s)]] = v
        envs.append(env)
    return envs, False


def check_expr_batch(ctx, cases, dis, stats, witnesses):
    """cases: list of dict(e, sigs, lw, envs, exh, tag).  Runs the three-way comparison."""
    lines = []
    metas = []
    for c in cases:
        ids = SigIds()
        for s in c["sigs"]:
            ids.get(s)
        ns = FlatNS(ids)
        try:
            fe = ser_expr(c["e"], ids)
            text, psign = _generate_expression(ns, c["e"])
            ve = parse_vexpr(text, ns.names())
        except (L.ParseError, L.Unsupported) as ex:
            dis.append(Dis("parse", tag=c["tag"], error=repr(ex)))
            continue
        c["text"] = text
        ev = Evaluator([], {})
        real = []
        for env in c["envs"]:
            ev.signal_values = {s: v for s, v in zip(c["sigs"], env)}
            try:
                real.append(ev.eval(c["e"]))
            except ValueError:      # negative shift count
                real.append(None)
        envs = c["envs"]
        CH = 128
        for k in range(0, len(envs), CH):
            chunk = envs[k:k + CH]
            lines.append("x %d ; %s ; %s ; %s" % (c["lw"], " ".join(fe), " ".join(ve),
                                                  " ; ".join(" ".join(map(str, e)) for e in chunk)))
            metas.append((c, text, chunk, real[k:k + CH]))
    answers = ctx.lean.call_batch(lines)
    for (c, text, chunk, real), ans in zip(metas, answers):
        if ans.startswith("bad"):
            dis.append(Dis("driver", tag=c["tag"], text=text, answer=ans))
            continue
        parts = [p.split() for p in ans.split(";")]
        head = parts[0]
        if head[0] != "ok":
            dis.append(Dis("printer", tag=c["tag"], text=text, where=head[0],
                           what="Lean printE differs from the tree parsed from the real text"))
            stats["printer_diff"] += 1
            continue
        static = head[2] == "1"
        if "static" not in c:
            c["static"] = static
            stats["printed"] += 1
            stats["static_fit"] += 1 if static else 0
        for env, rv, p in zip(chunk, real, parts[1:]):
            f, af, av, fits = int(p[0]), int(p[1]), int(p[2]), p[3] == "1"
            stats["evals"] += 1
            if rv is None:
                stats["neg_shift"] += 1
                if fits:
                    dis.append(Dis("fits-on-raise", tag=c["tag"], text=text, env=env))
                continue
            if f != rv:
                dis.append(Dis("evalF", tag=c["tag"], text=text, env=env, lean=f, real=int(rv), lw=c["lw"],
                               sigs=[[s_.nbits, bool(s_.signed)] for s_ in c["sigs"]], expr=dump_ast(c["e"], c["sigs"])))
                continue
            if af != truncate(int(rv), c["lw"], False):
                dis.append(Dis("storeF", tag=c["tag"], text=text, env=env, lean=af, real=int(rv), lw=c["lw"],
                               sigs=[[s_.nbits, bool(s_.signed)] for s_ in c["sigs"]], expr=dump_ast(c["e"], c["sigs"])))
                continue
            if static and not fits:
                dis.append(Dis("static-unsound", tag=c["tag"], text=text, env=env,
                               what="staticallyFits holds but Fits fails on an in-range valuation"))
            if fits:
                stats["fits"] += 1
                if av != af:
                    dis.append(Dis("theorem-contradicted", tag=c["tag"], text=text, env=env, lw=c["lw"],
                                   verilog=av, fhdl=af,
                                   what="Fits holds but Verilog and FHDL values differ (model bug)"))
            else:
                stats["nonfit"] += 1
                if av != af:
                    stats["nonfit_differ"] += 1
                    c["witness"] = True
                    if len(witnesses) < 6:
                        witnesses.append({"text": text, "lw": c["lw"], "env": env, "verilog": av, "fhdl": af})
        if len(dis) > 20:
            break


def l1_random(ctx, n_expr, dis):
    rng = ctx.rng
    stats = dict(printed=0, printer_diff=0, evals=0, fits=0, nonfit=0, nonfit_differ=0, neg_shift=0, exhaustive=0,
                 static_fit=0)
    witnesses = []
    cases = []
    for k in range(n_expr):
        wide = k % 12 == 11        # operands wider than 32 / 64 bits (decimal literals, masks)
        sigs = make_sigs(rng, rng.randint(2, 4), maxw=rng.choice([33, 40, 65, 70]) if wide else rng.choice([3, 5, 9]))
        g = ExprGen(rng, sigs, lowered=True, tame=(k % 3 == 0), neg_shift_ok=not wide, maxw=150 if wide else 24)
        e = g.gen(rng.randint(1, 3))
        used = used_signals(e)
        envs, exh = expr_envs(rng, sigs, used, max_exh_bits=8 if ctx.tier == "quick" else 11)
        stats["exhaustive"] += 1 if exh else 0
        lw = rng.choice([33, 64, 72, 130]) if wide else rng.choice([1, 2, 4, 8, 9, 16, 24])
        cases.append(dict(e=e, sigs=sigs, lw=lw, envs=envs, exh=exh, tag="rand%d" % k))
        if len(cases) >= 50:
            check_expr_batch(ctx, cases, dis, stats, witnesses)
            cases = []
            if len(dis) > 20:
                break
    if cases:
        check_expr_batch(ctx, cases, dis, stats, witnesses)
    ctx.cov.add_cases("L1 random expressions (%d, %d exhaustive over inputs, %d statically fitting)" % (
        n_expr, stats["exhaustive"], stats["static_fit"]), stats["evals"], stats["fits"], exhaustive=False)
    for k, v in stats.items():
        ctx.cov.count("l1." + k, v)
    ctx.cov.samples += witnesses[:3]
    ctx.log("L1: %s" % stats)
    return stats


def array_index_tie(ctx, dis):
    """`arrayIndex` (Lean model of the simulator's array select) against the REAL `Evaluator.eval` / `assign` on an
    `_ArrayProxy`, exhaustively: 1-6 choices x key expressions (unsigned / signed signals of 1-4 bits, `~x`, `-x`,
    `a - b`) x every valuation.  Negative / beyond-range keys are compared once C01-array-key-unmasked is fixed."""
    from migen import Signal, Array
    fixed = L.array_key_fixed()
    n_cmp = 0
    lines, metas = [], []
    for n in range(1, 7):
        for w, sgn in ((1, False), (2, False), (3, False), (4, False), (1, True), (2, True), (3, True), (4, True)):
            x = Signal((w, sgn))
            b = Signal(2)
            for kname, key in (("x", x), ("~x", _Operator("~", [x])), ("-x", _Operator("-", [x])), ("x-b", _Operator("-", [x, b]))):
                from migen.fhdl.bitcontainer import value_bits_sign
                kw_, ksg = value_bits_sign(key)
                choices = [Signal(8, reset=10 + i) for i in range(n)]
                proxy = Array(choices)[key]
                ev = Evaluator([], {})
                keys, real_r, real_w = [], [], []
                for xv in (range(-(1 << (w - 1)), 1 << (w - 1)) if sgn else range(1 << w)):
                    for bv in (range(4) if kname == "x-b" else [0]):
                        ev.signal_values = {x: xv, b: bv}
                        kv = ev.eval(key)
                        if not fixed and (kv < 0 or truncate(kv, kw_, ksg) != kv):
                            continue              # region of the (not yet repaired) finding: key not masked to its width
                        try:
                            r_ = ev.eval(proxy) - 10
                            ev.modifications.clear()
                            ev.assign(proxy, 99)
                            wsel = [i for i, c_ in enumerate(choices) if c_ in ev.modifications]
                            ev.modifications.clear()
                        except Exception as ex:
                            dis.append(Dis("array-index", n=n, key=kname, key_width=kw_, key_signed=ksg, key_value=kv,
                                           error=repr(ex)[:200], what="the real Evaluator raises on an Array access"))
                            return n_cmp
                        keys.append(kv)
                        real_r.append(r_)
                        real_w.append(wsel)
                if keys:
                    lines.append("arr %d %d %d ; %s" % (kw_, 1 if ksg else 0, n, " ".join(map(str, keys))))
                    metas.append((n, kname, kw_, ksg, keys, real_r, real_w))
    answers = ctx.lean.call_batch(lines)
    for (n, kname, kw_, ksg, keys, real_r, real_w), ans in zip(metas, answers):
        if ans.startswith("bad"):
            dis.append(Dis("driver", case="arr", answer=ans[:100]))
            continue
        for kv, rr, rw, m_ in zip(keys, real_r, real_w, map(int, ans.split())):
            n_cmp += 1
            if rr != m_ or rw != [m_]:
                dis.append(Dis("array-index", n=n, key=kname, key_width=kw_, key_signed=ksg, key_value=kv, lean=m_,
                               real_read=rr, real_write=rw,
                               what="Lean arrayIndex differs from the choice the real Evaluator reads / writes"))
                return n_cmp
    ctx.cov.add_cases("array select: Lean arrayIndex vs the real Evaluator (eval and assign of an _ArrayProxy), exhaustive "
                      "(%s keys)" % ("negative / over-range / signed" if fixed else "non-negative"), n_cmp, n_cmp, exhaustive=True)
    ctx.log("array select tie: %d comparisons (%s)" % (n_cmp, "full key domain" if fixed else "non-negative keys only: C01-array-key-unmasked not listed fixed"))
    return n_cmp


def l1_negative_positions(ctx, dis):
    """Directed audit of `Evaluator.eval`, branch by branch: in EVERY operand position of every node kind the
    Evaluator implements (unary / binary / shift / comparison operators, Mux condition and branches, Cat elements at
    every place, Replicate x1..x3) an operand whose simulator value is a NEGATIVE Python int (`~a`, `-a`, `a - b`, a
    signed signal, `-s`, `~s`, negative sized / unsized constants) or fills its whole width; exhaustive over the
    valuations; Lean evalF/storeF vs the real Evaluator, printer vs text, evalV on the real text where Fits holds."""
    from migen import Signal
    a = Signal(3, name_override="s0")
    b = Signal(2, name_override="s1")
    sg = Signal((3, True), name_override="s2")
    t1 = Signal((1, True), name_override="s3")
    sigs = [a, b, sg, t1]
    op = lambda o, *x: _Operator(o, list(x))
    negs = [("nota", op("~", a)), ("nega", op("-", a)), ("sub", op("-", a, b)), ("s", sg), ("negs", op("-", sg)),
            ("nots", op("~", sg)), ("s1bit", t1), ("csigned", Constant(-3, (3, True))), ("cneg", Constant(-2)),
            ("cmin", Constant(-4, (3, True))), ("full", a)]
    pos = []
    for nm, n in negs:
        pos += [("cat0." + nm, Cat(n, b)), ("cat1." + nm, Cat(b, n)), ("catmid." + nm, Cat(b, n, a)), ("cat1only." + nm, Cat(n)),
                ("rep1." + nm, Replicate(n, 1)), ("rep2." + nm, Replicate(n, 2)), ("rep3." + nm, Replicate(n, 3)),
                ("muxc." + nm, Mux(n, a, b)), ("muxt." + nm, Mux(b[0], n, a)), ("muxf." + nm, Mux(b[0], a, n)),
                ("shl." + nm, op("<<<", n, Constant(2))), ("shr." + nm, op(">>>", n, Constant(1))),
                ("shrv." + nm, op(">>>", n, b)), ("shlv." + nm, op("<<<", n, b)),
                ("not." + nm, op("~", n)), ("neg." + nm, op("-", n)),
                ("catrep." + nm, Cat(Replicate(n, 2), b)), ("repcat." + nm, Replicate(Cat(n, b[0]), 2))]
        for o in ARITH + BITW + CMP:
            pos += [("%s.l.%s" % (o, nm), op(o, n, b)), ("%s.r.%s" % (o, nm), op(o, b, n)), ("%s.both.%s" % (o, nm), op(o, n, sg))]
    stats = dict(printed=0, printer_diff=0, evals=0, fits=0, nonfit=0, nonfit_differ=0, neg_shift=0, exhaustive=0, static_fit=0)
    witnesses = []
    cases = []
    rng = ctx.rng
    for tag, e in pos:
        used = used_signals(e)
        envs, exh = expr_envs(rng, sigs, used, max_exh_bits=9)
        cases.append(dict(e=e, sigs=sigs, lw=rng.choice([2, 4, 9, 16]), envs=envs, exh=exh, tag="negpos." + tag))
        if len(cases) >= 60:
            check_expr_batch(ctx, cases, dis, stats, witnesses)
            cases = []
            if len(dis) > 20:
                break
    if cases and len(dis) <= 20:
        check_expr_batch(ctx, cases, dis, stats, witnesses)
    ctx.cov.add_cases("L1 directed: negative / width-filling operand in every operand position of every Evaluator.eval "
                      "branch (%d expressions, exhaustive over inputs)" % len(pos), stats["evals"], stats["fits"], exhaustive=True)
    ctx.log("L1 negative-operand positions: %d expressions, %s" % (len(pos), {k: stats[k] for k in ("evals", "fits", "nonfit", "printer_diff")}))


# ----------------------------------------------------------------------------------------------------------
# L2: modules
# ----------------------------------------------------------------------------------------------------------

_IDENT = re.compile(r"(?<![A-Za-z0-9_$'])[A-Za-z_][A-Za-z0-9_$]*")


def normalise_site(text):
    """Replace identifiers by $0, $1, … in order of first occurrence (robust against renaming/renumbering)."""
    seen = {}

    def sub(m):
        w = m.group(0)
        if w == "$signed":
            return w
        if w not in seen:
            seen[w] = "$%d" % len(seen)
        return seen[w]
    return _IDENT.sub(sub, text)


class ModuleResult:
    def __init__(self, name):
        self.name = name
        self.status = "ok"
        self.cycles = 0
        self.nsigs = 0
        self.nsites = 0
        self.static_sites = []      # [(kind, normalised text)]
        self.witnessed = set()      # subset with an observed Verilog/FHDL divergence
        self.mism_cycles = 0
        self.fit_cycles = 0
        self.kept_full_slices = 0   # slices covering exactly a node that can be negative (must survive the lowering)
        self.reset_modelled = 0     # clock domains whose reset insertion was done by the Lean model (insertReset)


def stimulus(rng, inputs, rsts, prev, t):
    vals = []
    for k, s in enumerate(inputs):
        if any(s is r for r in rsts):
            v = 1 if (t == 1 or rng.random() < 0.02) else 0
        elif prev is not None and rng.random() < 0.25:
            v = prev[k]
        elif rng.random() < 0.15:
            v = rng.choice([0, (1 << s.nbits) - 1, 1, 1 << (s.nbits - 1)])
        else:
            v = rng.randrange(0, 1 << s.nbits)
        vals.append(v)
    return vals


def _all_assigns(stmts):
    """Every _Assign nested anywhere in a statement list."""
    from migen.fhdl.structure import _Assign as _A, If as _If, Case as _Case
    for st_ in stmts:
        if isinstance(st_, _A):
            yield st_
        elif isinstance(st_, _If):
            yield from _all_assigns(st_.t)
            yield from _all_assigns(st_.f)
        elif isinstance(st_, _Case):
            for b_ in st_.cases.values():
                yield from _all_assigns(b_)
        elif isinstance(st_, (list, tuple)):
            yield from _all_assigns(st_)


def run_module_case(lean, rng, name, build, cycles, dis, with_orig=True, fuel=64, variant="synth", convert_kw=None,
                    capture=None):
    """build() -> (fragment-or-module, ios list, clock-domain names); deterministic (called twice).
    variant "sim": the text is emitted with convert(regular_comb=False) (one comb item per target) and tied to the
    Lean model of `_generate_combinatorial_logic_sim` / `_generate_node(target_filter)` (printModuleSim)."""
    from migen.fhdl.tools import list_targets, list_special_ios
    res = ModuleResult(name)
    try:
        fB, iosB, cds = build()
        kw = dict(convert_kw or {})
        if variant == "sim":
            kw["regular_comb"] = False
        if capture is not None:
            # convert reached through glue (e.g. Platform.get_verilog): the ios are whatever the glue collected
            cap = capture(fB, kw)
            iosB = sorted(cap.ios, key=lambda s_: s_.duid)
            kw = dict(kw, name=cap.name)
        else:
            cap = L.convert_capture(fB, iosB, **kw)
        ids, sigs, groups, secs = L.ser_module(cap)
        name_ids = {cap.ns.get_name(s): ids.get(s) for s in sigs}
        mt = L.parse_module(cap.text, name_ids)
        if variant == "sim":
            from migen.fhdl.tools import flat_iteration
            from migen.fhdl.structure import _Assign as _A
            if any(isinstance(st_, _A) and len(list_targets(st_)) > 1 for st_ in _all_assigns(cap.f.comb)):
                # region of the open finding C01-sim-backend-cat-target (a comb assignment driving several signals
                # under the per-target emitter): classified under the finding (probe in probes()), not tied here
                raise L.Unsupported("sim back-end: comb assignment to a concatenation of several signals "
                                    "(region of C01-sim-backend-cat-target)")
        if variant == "sim" and not mt.unsupported and not mt.blocking:
            ids, sigs, groups, secs = L.ser_module(cap, "sim", L.sim_target_order(mt))
        # keyword options that only shape the prolog / module header
        want_name = kw.get("name", "top")
        if mt.name != want_name:
            dis.append(Dis("module-header", module=name, expected=want_name, text=mt.name,
                           what="the emitted module is not named as convert(name=...) asked"))
        ts = "`timescale %s / %s\n" % (kw.get("time_unit", "1ns"), kw.get("time_precision", "1ps"))
        if cap.text.count("`timescale") != 1 or ts not in cap.text[:cap.text.index("module " + mt.name)]:
            dis.append(Dis("module-header", module=name, expected=ts.strip(),
                           what="the `timescale directive is not the one convert(time_unit, time_precision) asked"))
        if mt.unsupported:
            raise L.Unsupported("; ".join(mt.unsupported[:3]))
        if mt.blocking:
            raise L.Unsupported("blocking assignment (variable signal): read by the independent reader only")
        if mt.systasks:
            raise L.Unsupported("system task ($display/$finish): read by the independent reader only")
        items, decls = L.ser_vmodule(mt, name_ids)
    except L.Unsupported as ex:
        res.status = "unsupported: " + str(ex)[:120]
        return res
    except L.ParseError as ex:
        res.status = "parse-error"
        dis.append(Dis("module-parse", module=name, error=str(ex)[:300]))
        return res
    f = cap.f
    res.nsigs = len(sigs)
    res.reset_modelled = getattr(cap, "reset_modelled", 0)
    targets = list_targets(f) | list_special_ios(f, ins=False, outs=True, inouts=True)
    clks = [cd.clk for cd in f.clock_domains]
    rsts = [cd.rst for cd in f.clock_domains if cd.rst is not None]
    in_idx = [k for k, s in enumerate(iosB) if s not in targets and not any(s is c for c in clks)]
    inputs = [iosB[k] for k in in_idx]
    out_idx = [k for k, s in enumerate(iosB) if s in targets]
    rl = L.RealLowered(cap)
    nl = None
    fA0 = None
    if with_orig:
        try:
            from c01lib import Netlist
            fA, iosA, cdsA = build()
            fA0 = snapshot_stmts(fA)
            nl = Netlist(fA, clocks=tuple(cdsA))
            if len(iosA) != len(iosB):
                raise RuntimeError("non-deterministic build")
        except Exception as ex:  # original not simulable (e.g. specials): skip tie (iv)
            nl = None
            res.status = "ok (no original-vs-lowered tie: %s)" % type(ex).__name__
    cyc = []
    real = []
    orig_vs_low = None
    prev = None
    aligned = [cd.name for cd in f.clock_domains] == list(cds) and (nl is None or list(cdsA) == list(cds))
    for t in range(cycles):
        vals = stimulus(rng, inputs, rsts, prev, t)
        prev = vals
        for s, v in zip(inputs, vals):
            rl.set(s, v)
        rl.settle()
        real.append([rl.get(s) for s in sigs])
        if nl is not None and orig_vs_low is None:
            for k, v in zip(in_idx, vals):
                nl.set(iosA[k], v)
            nl.settle()
            for k in out_idx:
                a = nl.getu(iosA[k])
                b = rl.get(iosB[k]) & ((1 << iosB[k].nbits) - 1)
                if a != b:
                    orig_vs_low = dict(cycle=t, port=cap.ns.get_name(iosB[k]), original=a, lowered=b)
                    break
        # clock domains tick independently (every domain in ~2/3 of the instants) when there are several
        tick = [j for j in range(len(clks)) if len(clks) == 1 or not aligned or rng.random() < 0.65]
        if nl is not None and orig_vs_low is None:
            nl.tick(tuple(cdsA[j] for j in tick) if aligned else tuple(cdsA))
        tclks = [clks[j] for j in tick]
        rl.tick(tclks)
        cyc.append("%d %s %s" % (len(tclks), " ".join(str(ids.get(c)) for c in tclks), " ".join(map(str, vals))))
    # coverage of the repaired region of C01-signed-full-slice-dropped / C01-full-slice-dropped-negative-operand
    res.kept_full_slices = len(signed_full_slices(fA0)) if fA0 is not None else 0
    if orig_vs_low is not None:
        dis.append(Dis("lowering", module=name, what="real Evaluator on the original design differs from the real "
                       "Evaluator on the lowered fragment that was printed", **orig_vs_low))
    line = "sim %d%s%s ; %s ; %s ; %s ; %s ; %s ; %s ; %s ; %s ; %s" % (
        fuel, " sim" if variant == "sim" else "", " noinit" if kw.get("regs_init") is False else "",
        " ".join(secs["sigs"]), " ".join(secs["comb"]), " ".join(secs["sync"]), " ".join(items),
        " ".join(decls),
        " ".join([str(len(cap.ios))] + [str(ids.get(s)) for s in sorted(cap.ios, key=lambda s: s.duid)]),
        " ".join([str(len(inputs))] + [str(ids.get(s)) for s in inputs]),
        " ".join([str(len(sigs))] + [str(k) for k in range(len(sigs))]),
        " ; ".join(cyc))
    ans = lean.call_batch([line])[0]
    if ans.startswith("bad"):
        dis.append(Dis("driver", module=name, answer=ans[:100]))
        res.status = "driver-error"
        return res
    parts = ans.split(" ; ")
    head, _, ssites = parts[0].partition("!")
    hw = head.split()
    if hw[0] != "ok":
        dis.append(Dis("module-printer", module=name, where=hw[0],
                       what="Lean printModule differs from the items parsed from the real text"))
    if hw[1] != "ok":
        dis.append(Dis("module-decls", module=name, where=hw[1],
                       what="declaration kind/type/initialiser differs from the model of _generate_signals"))
    res.nsites = int(hw[2])
    # site texts
    site_text = []
    for tg, st in groups:
        L.stmt_sites(st, cap.ns, site_text)
    for cdname, st in f.sync.items():
        L.stmt_sites(st, cap.ns, site_text)
    if len(site_text) != res.nsites:
        dis.append(Dis("site-numbering", module=name, python=len(site_text), lean=res.nsites))
        return res
    norm = [(k, normalise_site(t)) for k, t in site_text]
    res.static_sites = sorted({norm[int(i)] for i in ssites.split()})
    prev_nonfit = []
    prev_fits = True
    for t, (p, rv) in enumerate(zip(parts[1:], real)):
        body, _, nf = p.partition("!")
        ws = body.split()
        mism, fits = int(ws[0]), ws[1] == "1"
        fv = [int(x) for x in ws[2:]]
        nonfit = [int(i) for i in nf.split()]
        res.cycles += 1
        res.fit_cycles += 1 if fits else 0
        if fv != rv:
            k = next(i for i in range(len(rv)) if fv[i] != rv[i])
            dis.append(Dis("stepF", module=name, cycle=t, signal=cap.ns.get_name(sigs[k]), lean=fv[k], real=int(rv[k]),
                           what="Lean stepF differs from the real Evaluator on the lowered fragment"))
            break
        if mism:
            res.mism_cycles += 1
            s = sigs[mism - 1]
            sname = cap.ns.get_name(s)
            if fits and prev_fits:
                dis.append(Dis("theorem-contradicted", module=name, cycle=t, signal=sname,
                               what="all side conditions hold but stepV (real text) and stepF differ"))
                break
            for i in set(nonfit) | set(prev_nonfit):
                res.witnessed.add(norm[i])
        prev_fits, prev_nonfit = fits, nonfit
    return res


def snapshot_stmts(f):
    """Statement lists of the original fragment (before the Simulator mutates it)."""
    return [list(f.comb)] + [list(v) for v in f.sync.values()]


def signed_full_slices(stmt_lists):
    """Slices of the original design that `_ComplexSliceLowerer` resolves to a node they cover exactly and whose
    unbounded value can be negative (signed signal/constant, `~x`, `a - b`, `-x`).  Such a slice must NOT be
    dropped (a Migen slice is an unsigned, zero-extending view); before the fix of C01-signed-full-slice-dropped /
    C01-full-slice-dropped-negative-operand the lowerer dropped it.  Used as a coverage counter for tie (iv)."""
    from migen.fhdl.structure import _Slice, _Operator, _Assign, If, Case, Cat, Replicate
    from migen.fhdl.bitcontainer import value_bits_sign
    found = []

    def exact(v):
        """Is the unbounded simulator value of `v` always within [0, 2^len(v))?  (Then dropping a slice that
        covers `v` exactly changes nothing.)"""
        from migen.fhdl.structure import Signal, Constant
        if isinstance(v, Signal):
            return not v.signed
        if isinstance(v, Constant):
            return not v.signed and 0 <= v.value < (1 << v.nbits)
        if isinstance(v, (_Slice, Cat, Replicate)):
            return True
        if isinstance(v, _Operator):
            if v.op in ("<", "<=", "==", "!=", ">", ">="):
                return True
            if v.op in ("~", "-"):
                return False
            if v.op == "m":
                return exact(v.operands[1]) and exact(v.operands[2])
            if v.op in ("<<<", ">>>"):
                return exact(v.operands[0]) and exact(v.operands[1])
            return all(exact(o) for o in v.operands)
        return False

    def ve(e):
        if isinstance(e, _Slice):
            # follow the lowerer's own walk (nested slices, descent into Cat elements / Replicate copies): does it
            # end on a signed node covered exactly by the slice (which is then dropped)?
            from litex.gen.fhdl.verilog import _lower_slice_cat, _lower_slice_replicate
            node, length, start = e, e.stop - e.start, 0
            while isinstance(node, _Slice):
                start += node.start
                node = node.value
                while True:
                    node, start = _lower_slice_cat(node, start, length)
                    former = node
                    node, start = _lower_slice_replicate(node, start, length)
                    if node is former:
                        break
            n, sgn = value_bits_sign(node)
            if start == 0 and n == length and not exact(node):
                found.append(e)
            ve(e.value)
        elif isinstance(e, _Operator):
            for o in e.operands:
                ve(o)
        elif isinstance(e, Cat):
            for o in e.l:
                ve(o)
        elif isinstance(e, Replicate):
            ve(e.v)

    def vs(ss):
        for s in ss:
            if isinstance(s, _Assign):
                ve(s.l)
                ve(s.r)
            elif isinstance(s, If):
                ve(s.cond)
                vs(s.t)
                vs(s.f)
            elif isinstance(s, Case):
                ve(s.test)
                for v in s.cases.values():
                    vs(v)
            elif isinstance(s, (list, tuple)):
                vs(s)
    for l in stmt_lists:
        vs(l)
    return found


def random_module_build(seed, maxw, tame=False, sim_variant=False):
    def build():
        rng = random.Random(seed)
        m, ios = L.random_module(rng, maxw=maxw, tame=tame, sim_variant=sim_variant)
        f = m.get_fragment()
        ios = sorted(ios, key=lambda s: s.duid)
        return f, ios, [cd.name for cd in f.clock_domains]
    return build


def l2_random(ctx, n_mod, cycles, dis):
    rng = ctx.rng
    tot = dict(modules=0, unsupported=0, cycles=0, fit_cycles=0, mism_cycles=0, sites=0, static_nonfit=0,
               witnessed=0, kept_full_slices=0)
    for k in range(n_mod):
        seed = rng.randrange(1 << 30)
        tame = k % 3 != 0
        mw = rng.choice([3, 5, 9, 9, 40 if k % 2 else 5])
        # every third module goes through the simulation-flavoured comb emitter (regular_comb=False: one filtered
        # always block per target), tied to printModuleSim
        simv = k % 3 == 1
        try:
            r = run_module_case(ctx.lean, rng, "randmod%d%s%s" % (k, "t" if tame else "w", "-sim" if simv else ""),
                                random_module_build(seed, mw, tame, simv), cycles, dis,
                                variant="sim" if simv else "synth")
        except Exception as ex:      # a changed printer/simulator that crashes or never settles: reported, not fatal
            traceback.print_exc()
            dis.append(Dis("module-exception", module="randmod%d" % k, seed=seed, maxw=mw, tame=tame, error=repr(ex)[:300]))
            continue
        tot["modules"] += 1
        if r.status.startswith("unsupported"):
            tot["unsupported"] += 1
        if simv and not r.status.startswith("unsupported"):
            tot["sim_backend_modules"] = tot.get("sim_backend_modules", 0) + 1
        tot["cycles"] += r.cycles
        tot["fit_cycles"] += r.fit_cycles
        tot["mism_cycles"] += r.mism_cycles
        tot["sites"] += r.nsites
        tot["static_nonfit"] += len(r.static_sites)
        tot["witnessed"] += len(r.witnessed)
        tot["kept_full_slices"] += r.kept_full_slices
        tot["reset_insertions_modelled"] = tot.get("reset_insertions_modelled", 0) + r.reset_modelled
        if len(dis) > 10:
            break
    ctx.cov.add_cases("L2 random modules (%d, %d cycles each, all signals compared)" % (n_mod, cycles),
                      tot["cycles"], tot["fit_cycles"], exhaustive=False)
    for k, v in tot.items():
        ctx.cov.count("l2rand." + k, v)
    ctx.log("L2 random modules: %s" % tot)


# ---- convert() keyword options -------------------------------------------------------------------------------

def override_module_build(seed):
    """A design with specials that `lower_specials` replaces through `special_overrides` (the mechanism platforms
    use): two MultiRegs, one of them overridden by a class of the same behaviour built from different statements."""
    def build():
        from migen import Module, Signal, ClockDomain, If
        from migen.genlib.cdc import MultiReg
        rng = random.Random(seed)
        m = Module()
        m.clock_domains.cd_sys = ClockDomain("sys")
        w = rng.randint(1, 6)
        i0 = Signal(w, name_override="i0")
        i1 = Signal(name_override="i1")
        o0 = Signal(w, name_override="o0", reset=rng.randrange(1 << w))
        o1 = Signal(w, name_override="o1")
        acc = Signal(w + 1, name_override="acc")
        m.specials += MultiReg(i0, o0, "sys", n=rng.randint(2, 3), reset=o0.reset.value)
        m.sync += If(i1, acc.eq(acc + o0)).Else(acc.eq(acc - 1))
        m.comb += o1.eq(acc[1:] ^ o0)
        ios = [i0, i1, o0, o1, m.cd_sys.clk, m.cd_sys.rst]
        f = m.get_fragment()
        return f, sorted(ios, key=lambda s_: s_.duid), ["sys"]
    return build


def multireg_override():
    from migen import Module, Signal, ClockSignal
    from migen.genlib.cdc import MultiReg

    class ShiftMultiRegImpl(Module):
        """Same behaviour as migen's MultiRegImpl, written as one concatenated shift register."""
        def __init__(self, i, o, odomain, n, reset=0):
            from migen import Cat
            w = len(i)
            regs = [Signal(w, reset=reset, reset_less=True, name_override="ovr%d" % k) for k in range(n)]
            sd = getattr(self.sync, odomain)
            sd += [regs[0].eq(i)] + [regs[k].eq(regs[k - 1]) for k in range(1, n)]
            self.comb += o.eq(regs[-1])

    class ShiftMultiReg:
        @staticmethod
        def lower(dr):
            return ShiftMultiRegImpl(dr.i, dr.o, dr.odomain, dr.n, dr.reset)
    return {MultiReg: ShiftMultiReg}


def l2_option_variants(ctx, n_mod, cycles, dis):
    """The keyword options of convert() other than the defaults, each through the same tie as the default variant
    (model printer vs text node by node, Lean Verilog semantics on the real text vs stepF vs the real Evaluator):
    regs_init=False (no initialisers), regular_comb=False, both, name/time_unit/time_precision, attr_translate
    with translated / dropped / platform (tuple) attributes, platform=, special_overrides."""
    from litex.build.sim.platform import SimPlatform
    rng = ctx.rng
    tot = dict(modules=0, unsupported=0, cycles=0, fit_cycles=0)
    for k in range(n_mod):
        seed = rng.randrange(1 << 30)
        kind = k % 6
        variant = "sim" if kind in (1, 2) else "synth"
        build = random_module_build(seed, rng.choice([3, 5, 9]), True, variant == "sim")
        with_orig = True
        if kind == 0:
            kw = dict(regs_init=False)
        elif kind == 1:
            kw = dict(regs_init=False)
        elif kind == 2:
            kw = dict(name="dut_%d" % k, time_unit="10ns", time_precision="100ps")
        elif kind == 3:
            kw = dict(name="v%d" % k, time_unit="1ps", time_precision="1fs")
        elif kind == 4:
            inner = build

            def build(inner=inner):
                f, ios, cds = inner()
                for j, s_ in enumerate(ios):
                    s_.attr.add(["keep", "no_retiming", ("syn_preserve", 1), ("mark", "x y")][j % 4])
                return f, ios, cds
            kw = dict(attr_translate={"keep": ("keep", "true"), "no_retiming": None})
        else:
            build = override_module_build(seed)
            kw = dict(platform=SimPlatform("SIM", [("clk", 0, __import__("litex.build.generic_platform", fromlist=["Pins"]).Pins(1))]),
                      special_overrides=multireg_override())
        try:
            r = run_module_case(ctx.lean, rng, "optmod%d-%s" % (k, "+".join(sorted(kw))), build, cycles, dis,
                                with_orig=with_orig, variant=variant, convert_kw=kw)
        except Exception as ex:
            traceback.print_exc()
            dis.append(Dis("module-exception", module="optmod%d" % k, seed=seed, options=sorted(kw), error=repr(ex)[:300]))
            continue
        tot["modules"] += 1
        if r.status.startswith("unsupported"):
            tot["unsupported"] += 1
        tot["cycles"] += r.cycles
        tot["fit_cycles"] += r.fit_cycles
        tot["opt." + "+".join(sorted(kw))] = tot.get("opt." + "+".join(sorted(kw)), 0) + (0 if r.status.startswith("unsupported") else 1)
        if len(dis) > 10:
            break
    ctx.cov.add_cases("L2 convert() option variants (regs_init, regular_comb, name/timescale, attr_translate, platform + "
                      "special_overrides), same tie as the default variant", tot["cycles"], tot["fit_cycles"], exhaustive=False)
    ctx.log("convert() option variants: %s" % tot)


# ---- real cores ------------------------------------------------------------------------------------------

def core_builders(tier):
    from migen import Signal, Record
    from litex.soc.interconnect import stream, wishbone
    from litex.soc.cores.timer import Timer
    from litex.soc.cores.pwm import PWM
    from litex.soc.cores.led import LedChaser
    from litex.soc.cores.gpio import GPIOOut
    from litex.soc.cores.spi.spi_master import SPIMaster
    from litex.soc.cores.uart import RS232PHYTX
    from litex.soc.cores.watchdog import Watchdog
    from litex.soc.cores.code_8b10b import Encoder
    from litex.soc.cores.ecc import ECCEncoder, ECCDecoder
    from litex.soc.cores.prbs import PRBS7Generator, PRBS15Generator
    L8 = [("data", 8)]
    L3 = [("data", 3)]
    B = []
    add = lambda name, mk: B.append((name, mk))
    add("stream.PipeValid/8", lambda: stream.PipeValid(L8))
    add("stream.PipeReady/8", lambda: stream.PipeReady(L8))
    add("stream.Buffer/8", lambda: stream.Buffer(L8))
    add("stream._UpConverter/8->32", lambda: stream._UpConverter(8, 32, 4, False))
    add("stream._UpConverter/3->9r", lambda: stream._UpConverter(3, 9, 3, True))
    add("stream._DownConverter/32->8", lambda: stream._DownConverter(32, 8, 4, False))
    add("stream.Converter/8->24", lambda: stream.Converter(8, 24))
    add("stream.Converter/24->8", lambda: stream.Converter(24, 8))
    add("stream.Gearbox/8->12", lambda: stream.Gearbox(8, 12))
    add("stream.Gearbox/10->4", lambda: stream.Gearbox(10, 4))
    add("stream.Multiplexer/3", lambda: stream.Multiplexer(L8, 3))
    add("stream.Demultiplexer/3", lambda: stream.Demultiplexer(L8, 3))
    add("stream.Pack/3", lambda: stream.Pack(L8, 3))
    add("stream.Unpack/3", lambda: stream.Unpack(3, L8))
    add("stream.Gate", lambda: stream.Gate(L3))
    add("Timer", lambda: Timer())
    add("Timer/16", lambda: Timer(width=16))
    add("PWM", lambda: PWM())
    add("LedChaser", lambda: LedChaser(Signal(4), 1e3))
    add("GPIOOut", lambda: GPIOOut(Signal(8)))
    add("SPIMaster/8", lambda: SPIMaster(None, 8, 1e6, 1e5))
    add("SPIMaster/24", lambda: SPIMaster(None, 24, 1e6, 2.5e5))
    add("Watchdog", lambda: Watchdog())
    add("RS232PHYTX", lambda: RS232PHYTX(Record([("tx", 1), ("rx", 1)]), Signal(32, reset=1 << 29)))
    add("8b10b.Encoder/2", lambda: Encoder(2))
    add("ECCEncoder/8", lambda: ECCEncoder(8))
    add("ECCDecoder/8", lambda: ECCDecoder(8))
    add("PRBS7Generator/8", lambda: PRBS7Generator(8))
    add("PRBS15Generator/4", lambda: PRBS15Generator(4))
    add("wishbone.Arbiter/2", lambda: wishbone.Arbiter([wishbone.Interface() for _ in range(2)], wishbone.Interface()))
    add("wishbone.Decoder/2", lambda: wishbone.Decoder(
        wishbone.Interface(), [((lambda k: (lambda a: a[8:] == k))(k), wishbone.Interface()) for k in range(2)]))
    add("wishbone.Decoder/2/registered", lambda: wishbone.Decoder(
        wishbone.Interface(), [((lambda k: (lambda a: a[8:] == k))(k), wishbone.Interface()) for k in range(2)], register=True))
    add("wishbone.Timeout/8", lambda: wishbone.Timeout(wishbone.Interface(), 8))
    add("wishbone.DownConverter/32->8", lambda: wishbone.DownConverter(
        wishbone.Interface(data_width=32, adr_width=30), wishbone.Interface(data_width=8, adr_width=32)))
    # ---- wider corpus (bus fabric, CSR, packets, AXI-Lite, UART) -------------------------------------------
    from litex.soc.interconnect import packet, csr, csr_bus
    from litex.soc.interconnect.axi import axi_lite
    from litex.soc.cores.uart import RS232PHYRX, RS232ClkPhaseAccum, Stream2Wishbone
    from litex.soc.cores.code_8b10b import Decoder as Dec8b10b
    from litex.soc.cores.prbs import PRBSTX, PRBSRX
    add("stream.Shifter", lambda: stream.Shifter(16))
    add("stream.Delay/3", lambda: stream.Delay(L8, 3))
    add("stream.StrideConverter", lambda: stream.StrideConverter([("a", 4), ("b", 4)], [("a", 8), ("b", 8)]))
    add("stream.Monitor", lambda: stream.Monitor(stream.Endpoint(L8), count_width=8, with_tokens=True, with_overflows=True))
    add("stream.Pipeline(valid,ready)", lambda: stream.Pipeline(stream.PipeValid(L8), stream.PipeReady(L8)))
    add("wishbone.InterconnectShared/2x2", lambda: wishbone.InterconnectShared(
        [wishbone.Interface() for _ in range(2)],
        [((lambda k: (lambda a: a[8:] == k))(k), wishbone.Interface()) for k in range(2)], timeout_cycles=16))
    add("wishbone.Crossbar/2x2", lambda: wishbone.Crossbar(
        [wishbone.Interface() for _ in range(2)],
        [((lambda k: (lambda a: a[8:] == k))(k), wishbone.Interface()) for k in range(2)]))
    add("wishbone.UpConverter/8->32", lambda: wishbone.UpConverter(
        wishbone.Interface(data_width=8, adr_width=32), wishbone.Interface(data_width=32, adr_width=30)))
    add("wishbone.Wishbone2CSR", lambda: wishbone.Wishbone2CSR(
        bus_wishbone=wishbone.Interface(), bus_csr=csr_bus.Interface(address_width=14, data_width=32)))
    add("wishbone.Remapper", lambda: wishbone.Remapper(wishbone.Interface(), wishbone.Interface(), origin=0x1000, size=0x1000))
    add("packet.Arbiter/2", lambda: packet.Arbiter([stream.Endpoint(L8) for _ in range(2)], stream.Endpoint(L8)))
    add("packet.Dispatcher/2", lambda: packet.Dispatcher(stream.Endpoint(L8), [stream.Endpoint(L8) for _ in range(2)]))
    hdr = lambda: packet.Header({"a": packet.HeaderField(0, 0, 8), "b": packet.HeaderField(1, 0, 16)}, 3, swap_field_bytes=True)
    add("packet.Packetizer/8", lambda: packet.Packetizer(
        stream.EndpointDescription(L8, [("a", 8), ("b", 16)]), stream.EndpointDescription(L8), hdr()))
    add("packet.Depacketizer/8", lambda: packet.Depacketizer(
        stream.EndpointDescription(L8), stream.EndpointDescription(L8, [("a", 8), ("b", 16)]), hdr()))
    hdr4 = lambda: packet.Header({"a": packet.HeaderField(0, 0, 8), "b": packet.HeaderField(1, 0, 16), "c": packet.HeaderField(3, 0, 8)}, 4)
    add("packet.Packetizer/32", lambda: packet.Packetizer(
        stream.EndpointDescription([("data", 32)], [("a", 8), ("b", 16), ("c", 8)]), stream.EndpointDescription([("data", 32)]), hdr4()))
    add("axi_lite.AXILiteTimeout", lambda: axi_lite.AXILiteTimeout(axi_lite.AXILiteInterface(), 8))
    add("axi_lite.AXILiteArbiter/2", lambda: axi_lite.AXILiteArbiter(
        [axi_lite.AXILiteInterface() for _ in range(2)], axi_lite.AXILiteInterface()))
    add("axi_lite.AXILiteDecoder/2", lambda: axi_lite.AXILiteDecoder(
        axi_lite.AXILiteInterface(), [((lambda k: (lambda a: a[8:] == k))(k), axi_lite.AXILiteInterface()) for k in range(2)]))
    add("axi_lite.AXILiteDownConverter/64->32", lambda: axi_lite.AXILiteDownConverter(
        axi_lite.AXILiteInterface(data_width=64), axi_lite.AXILiteInterface(data_width=32)))
    add("axi_lite.AXILiteUpConverter/32->64", lambda: axi_lite.AXILiteUpConverter(
        axi_lite.AXILiteInterface(data_width=32), axi_lite.AXILiteInterface(data_width=64)))
    add("RS232ClkPhaseAccum", lambda: RS232ClkPhaseAccum(Signal(32, reset=1 << 28)))
    add("RS232PHYRX", lambda: RS232PHYRX(Record([("tx", 1), ("rx", 1)]), Signal(32, reset=1 << 29)))
    add("Stream2Wishbone", lambda: Stream2Wishbone(clk_freq=1000))
    add("PRBSTX", lambda: PRBSTX(8))
    add("PRBSRX", lambda: PRBSRX(8))
    def bank(dw, ordering):
        return csr_bus.CSRBank([
            csr.CSRStorage(16, name="st", reset=0x1234),
            csr.CSRStorage(name="ctl", fields=[csr.CSRField("en", size=1), csr.CSRField("mode", size=3, reset=2),
                                              csr.CSRField("go", size=1, pulse=True)]),
            csr.CSRStatus(name="sta", fields=[csr.CSRField("a", size=4), csr.CSRField("b", size=2)]),
            csr.CSRStorage(40, name="wide", atomic_write=True),
            csr.CSR(8, name="raw")],
            address=0, bus=csr_bus.Interface(data_width=dw, address_width=14), ordering=ordering)
    add("csr_bus.CSRBank/8/big", lambda: bank(8, "big"))
    add("csr_bus.CSRBank/32/little", lambda: bank(32, "little"))
    # ---- parameter corners: non-power-of-two counts/ratios, words wider than 32/64 bits, less-used options -----
    L40 = [("data", 40)]
    add("stream._UpConverter/8->40", lambda: stream._UpConverter(8, 40, 5, False))
    add("stream._DownConverter/72->8r", lambda: stream._DownConverter(72, 8, 9, True))
    add("stream.Converter/8->56/valid_token", lambda: stream.Converter(8, 56, report_valid_token_count=True))
    add("stream.Gearbox/7->3/msb", lambda: stream.Gearbox(7, 3, msb_first=True))
    add("stream.Multiplexer/5/40", lambda: stream.Multiplexer(L40, 5))
    add("stream.Demultiplexer/5", lambda: stream.Demultiplexer(L8, 5))
    add("stream.Buffer/40/pipe_ready", lambda: stream.Buffer(L40, pipe_valid=True, pipe_ready=True))
    add("stream.Shifter/33", lambda: stream.Shifter(33))
    add("stream.Delay/5/40", lambda: stream.Delay(L40, 5))
    add("Timer/64", lambda: Timer(width=64))
    add("LedChaser/5", lambda: LedChaser(Signal(5), 1e3))
    add("GPIOOut/40", lambda: GPIOOut(Signal(40)))
    add("wishbone.Arbiter/3", lambda: wishbone.Arbiter([wishbone.Interface() for _ in range(3)], wishbone.Interface()))
    add("wishbone.Decoder/3", lambda: wishbone.Decoder(
        wishbone.Interface(), [((lambda k: (lambda a: a[8:] == k))(k), wishbone.Interface()) for k in range(3)]))
    add("wishbone.DownConverter/64->32", lambda: wishbone.DownConverter(
        wishbone.Interface(data_width=64, adr_width=29), wishbone.Interface(data_width=32, adr_width=30)))
    add("wishbone.Timeout/5", lambda: wishbone.Timeout(wishbone.Interface(), 5))
    add("PRBS7Generator/11", lambda: PRBS7Generator(11))
    add("ECCEncoder/11", lambda: ECCEncoder(11))
    add("packet.Arbiter/3", lambda: packet.Arbiter([stream.Endpoint(L8) for _ in range(3)], stream.Endpoint(L8)))
    add("csr_bus.CSRBank/32/big/wide", lambda: csr_bus.CSRBank([
        csr.CSRStorage(72, name="w72", reset=(0xa5 << 64) | 0xffffffff00000001), csr.CSRStatus(33, name="s33")],
        address=0, bus=csr_bus.Interface(data_width=32, address_width=14), ordering="big"))
    if tier != "quick":
        add("stream._UpConverter/8->64", lambda: stream._UpConverter(8, 64, 8, False))
        add("stream.Gearbox/32->20", lambda: stream.Gearbox(32, 20))
        add("stream.Converter/16->48", lambda: stream.Converter(16, 48))
        add("8b10b.Encoder/4", lambda: Encoder(4))
        add("ECCEncoder/32", lambda: ECCEncoder(32))
        add("ECCDecoder/32", lambda: ECCDecoder(32))
        add("wishbone.Arbiter/4", lambda: wishbone.Arbiter([wishbone.Interface() for _ in range(4)], wishbone.Interface()))
    return [(n, mk) for n, mk in B if mk is not None]


def core_build(mk):
    def build():
        dut = mk()
        return L.prepare(dut)
    return build


def load_sites():
    if os.path.exists(SITES_FILE):
        return json.load(open(SITES_FILE))
    return {"sites": {}}


def l2_cores(ctx, cycles, dis):
    known = load_sites()["sites"]
    write = os.environ.get("C01_WRITE_SITES") == "1"
    found = {}
    tot = dict(cores=0, unsupported=0, cycles=0, fit_cycles=0, mism_cycles=0, sites=0, static_nonfit=0,
               witnessed=0, new_sites=0, signals=0)
    for name, mk in core_builders(ctx.tier):
        t0 = time.time()
        try:
            r = run_module_case(ctx.lean, ctx.rng, name, core_build(mk), cycles, dis)
        except Exception as ex:
            traceback.print_exc()
            dis.append(Dis("core-exception", module=name, error=repr(ex)[:300]))
            continue
        tot["cores"] += 1
        if not r.status.startswith("ok"):
            tot["unsupported"] += 1
            ctx.cov.notes.append("core %s: %s" % (name, r.status))
            continue
        tot["cycles"] += r.cycles
        tot["fit_cycles"] += r.fit_cycles
        tot["mism_cycles"] += r.mism_cycles
        tot["sites"] += r.nsites
        tot["signals"] += r.nsigs
        tot["static_nonfit"] += len(r.static_sites)
        tot["witnessed"] += len(r.witnessed)
        tot["reset_insertions_modelled"] = tot.get("reset_insertions_modelled", 0) + r.reset_modelled
        entries = {}
        for kind, text in r.static_sites:
            key = "%s: %s" % (kind, text)
            entries[key] = {"witness": (kind, text) in r.witnessed}
        for kind, text in r.witnessed:
            key = "%s: %s" % (kind, text)
            entries.setdefault(key, {"witness": True})
        found[name] = entries
        klist = known.get(name, {})
        for key, e in entries.items():
            if key not in klist and not write:
                tot["new_sites"] += 1
                dis.append(Dis("new-overflow-site", module=name, site=key, witness=e["witness"],
                               what="a site where Migen's unbounded and Verilog's context-width arithmetic can part "
                                    "(staticallyFits fails) that is not in corpus/C01/overflow_sites.json"))
            elif e["witness"]:
                ctx.cov.count("site_witnessed")
                ctx.cov.notes.append("overflow site with reachable witness: %s | %s" % (name, key))
        ctx.cov.instances.append({"instance": name, "mode": "B", "cycles": r.cycles, "signals": r.nsigs,
                                  "sites": r.nsites, "static_nonfit": len(r.static_sites),
                                  "witnessed": len(r.witnessed), "exhaustive": False,
                                  "wall_s": round(time.time() - t0, 2)})
        if len(dis) > 10:
            break
    ctx.cov.evaluations += tot["cycles"]
    ctx.cov.nontrivial += tot["fit_cycles"]
    for k, v in tot.items():
        ctx.cov.count("l2cores." + k, v)
    ctx.log("L2 real cores: %s" % tot)
    if write:
        os.makedirs(CORPUS, exist_ok=True)
        # keep witness=true once seen
        for name, ent in found.items():
            for key, e in ent.items():
                if known.get(name, {}).get(key, {}).get("witness"):
                    e["witness"] = True
        json.dump({"_comment": "Statically non-fitting expression sites of the real cores in the C01 corpus (core -> "
                   "'kind: name-normalised printed text' -> witness seen).  A site not listed here is reported as "
                   "a VIOLATION.  Regenerate with C01_WRITE_SITES=1 ./check C01 after reviewing the new sites.",
                   "sites": found}, open(SITES_FILE, "w"), indent=1, sort_keys=True)
        ctx.log("wrote " + SITES_FILE)


def l2_cores_sim(ctx, cycles, dis, stride):
    """Real cores converted with regular_comb=False (what litex_sim / Verilator builds use), tied to printModuleSim
    like the default variant.  Cores whose comb logic assigns to a concatenation of several signals are outside the
    tied subset of the per-target emitter (counted as `cat_target`)."""
    tot = dict(cores=0, tied=0, cat_target=0, unsupported=0, cycles=0, fit_cycles=0, mism_cycles=0)
    for k, (name, mk) in enumerate(core_builders(ctx.tier)):
        if k % stride != stride // 2:
            continue
        try:
            r = run_module_case(ctx.lean, ctx.rng, name + " [regular_comb=False]", core_build(mk), cycles, dis,
                                with_orig=False, variant="sim")
        except Exception as ex:
            traceback.print_exc()
            dis.append(Dis("core-exception", module=name, variant="sim", error=repr(ex)[:300]))
            continue
        tot["cores"] += 1
        if "sim back-end" in r.status:
            tot["cat_target"] += 1
        elif not r.status.startswith("ok"):
            tot["unsupported"] += 1
        else:
            tot["tied"] += 1
            tot["cycles"] += r.cycles
            tot["fit_cycles"] += r.fit_cycles
            tot["mism_cycles"] += r.mism_cycles
        if len(dis) > 10:
            break
    ctx.cov.add_cases("L2 real cores through the simulation comb emitter (regular_comb=False), Lean tie", tot["cycles"],
                      tot["fit_cycles"], exhaustive=False)
    for k, v in tot.items():
        ctx.cov.count("l2cores_sim." + k, v)
    ctx.log("L2 real cores, regular_comb=False: %s" % tot)


# ----------------------------------------------------------------------------------------------------------
# L3: memories.  The port templates of litex/gen/fhdl/memory.py: independent golden reading (harness/c01lib.PyVSim
# reads the emitted text; the real Simulator runs the original design through Migen's MemoryToArray) on every memory
# case; Lean models: one port (LitexModel/Fhdl/Memory.lean, mem_lean_tie) and several ports / clocks
# (LitexModel/Fhdl/MemoryN.lean, memn_lean_tie), each side tied to the real simulator / the text reader on every edge.
# ----------------------------------------------------------------------------------------------------------

def memory_builders(tier):
    from migen import Module, Signal, Memory, ClockDomain
    from migen.fhdl.specials import READ_FIRST, WRITE_FIRST, NO_CHANGE
    from litex.soc.interconnect import stream, wishbone, csr_bus
    from litex.soc.cores.code_8b10b import Decoder as Dec8b10b

    class MemDut(Module):
        """One memory, one read/write port (+ optionally a second read port).  Depths are powers of two (an
        out-of-range address is clamped by the simulator's Array and is X in Verilog: outside the property).
        `full_we`: the byte enables are driven all-or-nothing (NO_CHANGE with a partially set `we` is a listed
        deviation: Migen simulates `If(~we, read)`, i.e. reads unless ALL enables are set, the text has `if (!we)`)."""
        def __init__(self, width, depth, mode, gran, has_re, async_read, init, second_read_port=False, full_we=False,
                     clamp=False):
            self.specials.mem = mem = Memory(width, depth, init=init)
            kw = dict(write_capable=True, we_granularity=gran, mode=mode, has_re=has_re)
            if async_read:
                kw = dict(write_capable=True, we_granularity=gran, async_read=True)
            p = mem.get_port(**kw)
            self.specials += p
            self.adr, self.dat_w, self.dat_r = p.adr, p.dat_w, p.dat_r
            if clamp:
                # non-power-of-two depth: the harness drives `adr`, the port only ever sees addresses < depth
                # (so the upper addresses depth-1, depth-2, … ARE read and written, out-of-range ones never)
                self.adr = Signal(len(p.adr))
                self.comb += p.adr.eq(Mux(self.adr < depth, self.adr, depth - 1))
            if full_we:
                self.we1 = Signal()
                self.comb += p.we.eq(Replicate(self.we1, len(p.we)))
            else:
                self.we = p.we
            if has_re and not async_read:
                self.re = p.re
            if second_read_port:
                q = mem.get_port(async_read=False, mode=READ_FIRST)
                self.specials += q
                self.adr2, self.dat_r2 = q.adr, q.dat_r
    from migen import Replicate, Mux

    class MemDutN(Module):
        """One memory, several ports.  ports: list of dicts(w=write capable, mode, gran, re, asyn, cd).  Only ONE
        port is write capable (two writers hitting one word in one instant is a race in Verilog).  Every port's
        address is driven through a clamp to < depth (non-power-of-two depths)."""
        def __init__(self, width, depth, init, ports):
            self.specials.mem = mem = Memory(width, depth, init=init)
            for n, pd in enumerate(ports):
                kw = dict(write_capable=pd.get("w", False), we_granularity=pd.get("gran", 0),
                          clock_domain=pd.get("cd", "sys"))
                if pd.get("asyn"):
                    kw["async_read"] = True
                else:
                    kw.update(mode=pd.get("mode", WRITE_FIRST), has_re=pd.get("re", False))
                p = mem.get_port(**kw)
                self.specials += p
                adr = Signal(len(p.adr))
                self.comb += p.adr.eq(Mux(adr < depth, adr, depth - 1))
                setattr(self, "adr%d" % n, adr)
                setattr(self, "dat_r%d" % n, p.dat_r)
                if pd.get("w"):
                    setattr(self, "dat_w%d" % n, p.dat_w)
                    if pd.get("full_we"):
                        we1 = Signal()
                        self.comb += p.we.eq(Replicate(we1, len(p.we)))
                        setattr(self, "we%d" % n, we1)
                    else:
                        setattr(self, "we%d" % n, p.we)
                if pd.get("re") and not pd.get("asyn"):
                    setattr(self, "re%d" % n, p.re)
    B = []
    for mode, mname in ((WRITE_FIRST, "write-first"), (READ_FIRST, "read-first"), (NO_CHANGE, "no-change")):
        B.append(("Memory/%s/8x8" % mname, lambda mode=mode: MemDut(8, 8, mode, 0, False, False, [1, 2, 3])))
        B.append(("Memory/%s/16x4/gran8/re" % mname,
                  lambda mode=mode: MemDut(16, 4, mode, 8, True, False, None, full_we=(mode == NO_CHANGE))))
    B.append(("Memory/async/10x4", lambda: MemDut(10, 4, WRITE_FIRST, 0, False, True, [0x3ff, 5])))
    B.append(("Memory/async/12x8/gran4", lambda: MemDut(12, 8, WRITE_FIRST, 4, False, True, None)))
    B.append(("Memory/write-first+read-port/8x8", lambda: MemDut(8, 8, WRITE_FIRST, 0, False, False, None, True)))
    # non-power-of-two depths (address register / array bounds of the templates), all addresses < depth exercised
    B.append(("Memory/write-first/8x6", lambda: MemDut(8, 6, WRITE_FIRST, 0, False, False, [1, 2, 3, 4, 5, 6], clamp=True)))
    B.append(("Memory/write-first/6x5/re", lambda: MemDut(6, 5, WRITE_FIRST, 0, True, False, [9, 8, 7, 6, 5], clamp=True)))
    B.append(("Memory/write-first/4x3", lambda: MemDut(4, 3, WRITE_FIRST, 0, False, False, None, clamp=True)))
    B.append(("Memory/read-first/8x12/gran4", lambda: MemDut(8, 12, READ_FIRST, 4, False, False, None, clamp=True)))
    B.append(("Memory/async/5x7", lambda: MemDut(5, 7, WRITE_FIRST, 0, False, True, [1, 2, 3, 4, 5, 6, 7], clamp=True)))
    # several ports on one clock, mixed modes, non-power-of-two depths, wide words, init files
    WF, RF, NC = WRITE_FIRST, READ_FIRST, NO_CHANGE
    B.append(("Memory/2port/wf-rw/gran8+rf-ro/re/16x8", lambda: MemDutN(16, 8, [0xbeef, 1, 2], [
        dict(w=True, mode=WF, gran=8), dict(mode=RF, re=True)])))
    B.append(("Memory/2port/rf-rw+wf-ro/8x6", lambda: MemDutN(8, 6, [1, 2, 3, 4, 5, 6], [
        dict(w=True, mode=RF), dict(mode=WF)])))
    B.append(("Memory/3port/nc-rw+async-ro+wf-ro/re/9x5", lambda: MemDutN(9, 5, [0x1ff, 0x100], [
        dict(w=True, mode=NC, gran=0), dict(asyn=True), dict(mode=WF, re=True)])))
    B.append(("Memory/2port/wf-ro+wf-rw/12x7/gran4", lambda: MemDutN(12, 7, None, [
        dict(mode=WF), dict(w=True, mode=WF, gran=4)])))
    B.append(("Memory/write-first/72x4/gran8/init", lambda: MemDutN(72, 4, [(0xa5 << 64) | 0x0123456789abcdef, (1 << 72) - 1, 7], [
        dict(w=True, mode=WF, gran=8)])))
    B.append(("Memory/read-first/64x3/init", lambda: MemDutN(64, 3, [0xffffffff00000001, 1 << 63], [
        dict(w=True, mode=RF), dict(asyn=True)])))
    B.append(("Memory/no-change/33x2/full-we", lambda: MemDutN(33, 2, [1 << 32], [dict(w=True, mode=NC, gran=11, full_we=True)])))
    # two clock domains (clocks tick independently); explicit READ_FIRST ports are not rewritten by memory.py
    B.append(("Memory/dualclock/rf-w@sys+rf-ro@b/8x8", lambda: MemDutN(8, 8, [3, 1, 4, 1, 5], [
        dict(w=True, mode=RF, cd="sys"), dict(mode=RF, cd="b", re=True)])))
    B.append(("Memory/dualclock/rf-w@sys+async-ro/10x6", lambda: MemDutN(10, 6, None, [
        dict(w=True, mode=RF, cd="sys"), dict(mode=RF, cd="b"), dict(asyn=True)])))
    B.append(("stream.SyncFIFO/8x4", lambda: stream.SyncFIFO([("data", 8)], 4)))

    class FifoNoReplace(Module):
        """stream.SyncFIFO with Migen's `replace` input tied low: with a non-power-of-two depth `replace` at
        produce = 0 addresses word `2^n - 1` ≥ depth (clamped by the simulator's Array, X in Verilog: outside the
        property)."""
        def __init__(self, layout, depth, **kw):
            self.submodules.f = f = stream.SyncFIFO(layout, depth, **kw)
            self.sink, self.source = f.sink, f.source
            inner = f.fifo.fifo if hasattr(f.fifo, "fifo") else f.fifo      # SyncFIFOBuffered wraps a SyncFIFO
            self.comb += inner.replace.eq(0)
    B.append(("stream.SyncFIFO/8x5", lambda: FifoNoReplace([("data", 8)], 5)))
    B.append(("stream.SyncFIFO/40x3/buffered", lambda: FifoNoReplace([("data", 40)], 3, buffered=True)))
    B.append(("stream.SyncFIFO/8x8/buffered", lambda: stream.SyncFIFO([("data", 8)], 8, buffered=True)))
    B.append(("wishbone.SRAM/64B", lambda: wishbone.SRAM(64, init=[0x11223344, 0x55667788])))
    B.append(("wishbone.SRAM/32B/ro", lambda: wishbone.SRAM(32, read_only=True, init=[1, 2, 3, 4])))
    B.append(("8b10b.Decoder", lambda: Dec8b10b()))
    B.append(("csr_bus.SRAM", lambda: csr_bus.SRAM(16, 0, bus=csr_bus.Interface(data_width=8, address_width=14))))
    return B


def run_memory_case(rng, name, mk, cycles, with_reset=False):
    """Returns (cycles run, failing-input dict or None, status)."""
    from migen.fhdl.tools import list_targets, list_special_ios
    from c01lib import Netlist
    try:
        fA, iosA, cdsA = L.prepare(mk(), allow_memories=True)
        fB, iosB, cdsB = L.prepare(mk(), allow_memories=True)
        cap = L.convert_capture(fB, iosB)
        sigs = L.module_signals(cap)
        ids = SigIds()
        for s in sigs:
            ids.get(s)
        name_ids = {cap.ns.get_name(s): ids.get(s) for s in sigs}
        mt = L.parse_module(cap.text, name_ids, allow_memories=True)
        if mt.unsupported:
            return 0, None, "unsupported: " + "; ".join(mt.unsupported[:2])
        pv = L.PyVSim(mt, mt.name_ids, cap.result.data_files)
        nl = Netlist(fA, clocks=tuple(cdsA))
        und = pv.undriven_report()
        if und is not None:
            und.update(oracle="golden-module (memory)", module=name, cycle=0, port=sorted(pv.undriven)[0],
                       simulator="reset value", verilog="x", trace=[])
            return 0, und, "ok"
    except L.Unsupported as ex:
        return 0, None, "unsupported: " + str(ex)[:100]
    f = cap.f
    targets = list_targets(f) | list_special_ios(f, ins=False, outs=True, inouts=True)
    clks = [cd.clk for cd in f.clock_domains]
    rsts = [cd.rst for cd in f.clock_domains if cd.rst is not None]
    in_idx = [k for k, s in enumerate(iosB) if s not in targets and not any(s is c for c in clks)]
    out_idx = [k for k, s in enumerate(iosB) if s in targets]
    if [cd.name for cd in f.clock_domains] != list(cdsA):
        return 0, None, "unsupported: clock domain order differs between the two builds"
    prev = None
    trace = []
    ticks = []
    for t in range(cycles):
        vals = stimulus(rng, [iosB[k] for k in in_idx], rsts, prev, t)
        if not with_reset:
            vals = [0 if any(iosB[k] is r for r in rsts) else v for k, v in zip(in_idx, vals)]
        prev = vals
        trace.append(vals)
        for k, v in zip(in_idx, vals):
            nl.set(iosA[k], v)
            pv.state[ids.get(iosB[k])] = v & ((1 << iosB[k].nbits) - 1)
        nl.settle()
        pv.settle()
        tick = [j for j in range(len(clks)) if len(clks) == 1 or rng.random() < 0.6]
        ticks.append(tick)
        for k in out_idx:
            a = nl.getu(iosA[k])
            b = pv.state[ids.get(iosB[k])]
            if a != b:
                t0 = cap.text
                return t, {"oracle": "golden-module (memory)", "module": name, "cycle": t,
                           "clocks": cdsA, "ticking_clocks_per_cycle": ticks[-6:],
                           "port": cap.ns.get_name(iosB[k]), "simulator": a, "verilog": b,
                           "inputs": [cap.ns.get_name(iosB[j]) for j in in_idx], "trace": trace[-6:],
                           "verilog_text": t0[t0.index("// Specialized Logic"):][:2500]}, "ok"
        nl.tick(tuple(cdsA[j] for j in tick))
        pv.tick({ids.get(clks[j]) for j in tick})
    return cycles, None, "ok"


def memory_findings():
    """Deviations of the memory templates from the simulator's memory model (Migen MemoryToArray), replayed as
    finding candidates: (id, what, reproduces, detail)."""
    from migen.fhdl.specials import WRITE_FIRST, NO_CHANGE
    out = []
    B = dict(memory_builders("quick"))
    # (a) NO_CHANGE with byte enables partially set
    import inspect
    mk_nc = B["Memory/no-change/16x4/gran8/re"]
    MemDut = mk_nc().__class__
    n, bad, st = run_memory_case(random.Random(5), "Memory/no-change/partial-we",
                                 lambda: MemDut(16, 4, NO_CHANGE, 8, True, False, None), 400)
    out.append(("C01-memory-nochange-partial-we",
                "NO_CHANGE port with we_granularity: the simulator (Migen MemoryToArray: If(~we, read)) reads unless ALL "
                "byte enables are set, the emitted text reads only when none is set (`if (!we)`)",
                bad is not None, bad and {k: bad[k] for k in ("cycle", "port", "simulator", "verilog", "trace")}))
    # (b) reset asserted: the simulator restores memory content and port registers, the text does not
    n, bad, st = run_memory_case(random.Random(6), "Memory/write-first/reset",
                                 B["Memory/write-first/8x8"], 400, with_reset=True)
    out.append(("C01-memory-not-reset",
                "asserting the domain reset restores the memory words and the read-port address/data registers in the "
                "simulator (they are ordinary sync registers after MemoryToArray); the emitted memory logic has no reset",
                bad is not None, bad and {k: bad[k] for k in ("cycle", "port", "simulator", "verilog", "trace")}))
    # (b2) several clocks on one memory: memory.py rewrites EVERY port to READ_FIRST
    MemDutN = B["Memory/2port/rf-rw+wf-ro/8x6"]().__class__
    n, bad, st = run_memory_case(random.Random(3), "Memory/dualclock/wf-rw@sys+wf-ro@b/8x8",
                                 lambda: MemDutN(8, 8, [3, 1, 4, 1, 5, 9, 2, 6], [
                                     dict(w=True, mode=WRITE_FIRST, cd="sys"), dict(mode=WRITE_FIRST, cd="b")]), 300)
    out.append(("C01-memory-multiclock-forced-read-first",
                "a memory whose ports use different clocks gets every port rewritten to READ_FIRST by memory.py (data "
                "register instead of the transparent address register): a WRITE_FIRST port reads `mem[adr_reg]` "
                "combinationally in the simulator (new data after a write, init word 0 at power-up) and a registered, "
                "uninitialised old value in the text",
                bad is not None, bad and {k: bad[k] for k in ("cycle", "port", "simulator", "verilog", "trace")}))
    # (c) a top-level port that is a register with a non-zero reset value carries no initialiser in the text
    from migen import Module, Signal, ClockDomain
    from c01lib import Netlist

    def build():
        m = Module()
        m.clock_domains.cd_sys = ClockDomain("sys")
        o = Signal(4, reset=9, name_override="o")
        m.sync += o.eq(o)
        return m, o
    mA, oA = build()
    nl = Netlist(mA.get_fragment(), clocks=("sys",))
    nl.settle()
    sim = nl.getu(oA)
    mB, oB = build()
    cap = L.convert_capture(mB.get_fragment(), {oB, mB.cd_sys.clk, mB.cd_sys.rst})
    sigs = L.module_signals(cap)
    ids = SigIds()
    for s_ in sigs:
        ids.get(s_)
    name_ids = {cap.ns.get_name(s_): ids.get(s_) for s_ in sigs}
    mt = L.parse_module(cap.text, name_ids)
    pv = L.PyVSim(mt, name_ids)
    pv.settle()
    ver = pv.state[ids.get(oB)]
    decl = [l for l in cap.text.splitlines() if " o" in l and "reg" in l][:1]
    out.append(("C01-output-reg-no-initialiser",
                "`output reg` ports were declared without `= reset` (only internal regs got the initialiser): a port "
                "register with reset value 9 powers up as 9 in the simulator and was uninitialised (0 after synthesis, "
                "X in a Verilog simulator) in the text until the first reset; since the fix it carries `= 4'd9`",
                sim != ver, {"simulator": sim, "verilog": ver, "declaration": decl}))
    return out


# ----------------------------------------------------------------------------------------------------------
# Glue: convert() reached through Platform.get_verilog (ios taken from the constraint manager, sim special
# overrides, IO naming from the back-trace), the way a build does
# ----------------------------------------------------------------------------------------------------------

def platform_glue_case(rng, cycles, regular_comb):
    """A small design on a SimPlatform with requested pins, converted by `platform.get_verilog(fragment, ...)`
    (verilator.py passes regular_comb=False); real simulator on the original vs golden reading of the text.
    Returns (cycles, failing input or None)."""
    from migen import Module, Signal, ClockDomain, If, Cat
    from litex.build.generic_platform import Pins, Subsignal
    from litex.build.sim.platform import SimPlatform
    from c01lib import Netlist
    io = [("sys_clk", 0, Pins(1)), ("sys_rst", 0, Pins(1)), ("user_led", 0, Pins(5)), ("user_btn", 0, Pins(3)),
          ("bus", 0, Subsignal("dat", Pins(40)), Subsignal("stb", Pins(1)), Subsignal("ack", Pins(1)))]

    def build():
        plat = SimPlatform("SIM", io)
        m = Module()
        m.clock_domains.cd_sys = ClockDomain("sys")
        clk, rst = plat.request("sys_clk"), plat.request("sys_rst")
        led, btn, bus = plat.request("user_led"), plat.request("user_btn"), plat.request("bus")
        m.comb += [m.cd_sys.clk.eq(clk), m.cd_sys.rst.eq(rst)]
        cnt = Signal(40, reset=(1 << 39) | 5)
        m.sync += [If(bus.stb, cnt.eq(cnt + Cat(btn, btn[0:2]))), bus.ack.eq(bus.stb & ~bus.ack)]
        m.comb += [led.eq(cnt[35:40] ^ Cat(btn, btn[0:2])), bus.dat.eq(cnt)]
        return plat, m.get_fragment(), dict(clk=clk, rst=rst, led=led, btn=btn, stb=bus.stb, ack=bus.ack, dat=bus.dat)
    platA, fA, pA = build()
    platB, fB, pB = build()
    try:
        cap = L.convert_capture(fB, (), via=lambda: platB.get_verilog(fB, name="sim", regular_comb=regular_comb))
        sigs = L.module_signals(cap)
        ids = SigIds()
        for s_ in sigs:
            ids.get(s_)
        name_ids = {cap.ns.get_name(s_): ids.get(s_) for s_ in sigs}
        mt = L.parse_module(cap.text, name_ids)
        if mt.unsupported:
            return 0, {"oracle": "platform-glue", "what": "text outside the readable subset: %s" % mt.unsupported[:2]}
        pv = L.PyVSim(mt, name_ids)
    except (L.ParseError, L.Unsupported, KeyError, IndexError, TypeError, AssertionError) as ex:
        return 0, {"oracle": "platform-glue", "error": repr(ex)[:300],
                   "what": "Platform.get_verilog on a small design fails or emits unreadable text"}
    # the requested pins must be the module's ports, under their requested names
    want = {"sys_clk", "sys_rst", "user_led", "user_btn", "bus_dat", "bus_stb", "bus_ack", "sim_trace"}   # sim_trace: SimPlatform's own pin
    got = {n_ for n_ in mt.decls if mt.decls[n_]["kind"] in ("iw", "ow", "or", "io")}
    if got != want:
        return 0, {"oracle": "platform-glue", "ports": sorted(got), "expected": sorted(want),
                   "what": "the ports of the generated top level are not the requested platform pins"}
    nl = Netlist(fA, clocks=("sys",))
    trace = []
    for t in range(cycles):
        vals = dict(btn=rng.randrange(8), stb=rng.randrange(2), rst=1 if t == 1 else 0)
        trace.append(vals)
        for k, v in vals.items():
            nl.set(pA[k], v)
            pv.state[ids.get(pB[k])] = v
        nl.settle()
        pv.settle()
        for k in ("led", "ack", "dat"):
            a, b = nl.getu(pA[k]), pv.state[ids.get(pB[k])]
            if a != b:
                return t, {"oracle": "platform-glue", "cycle": t, "port": k, "simulator": a, "verilog": b,
                           "regular_comb": regular_comb, "trace": trace[-6:],
                           "what": "design converted through SimPlatform.get_verilog: simulator and text differ"}
        # the platform clock pin drives the domain clock through a comb assignment: tick both views of it
        nl.tick(("sys",))
        pv.tick({ids.get(cap.f.clock_domains["sys"].clk)})
    return cycles, None


def platform_glue_lean(ctx, cycles, dis):
    """The same small platform design, converted by `SimPlatform.get_verilog` with both comb emitters, through the
    Lean tie (model printer vs text, Lean Verilog semantics on the text vs stepF vs real Evaluator)."""
    from migen import Module, Signal, ClockDomain, If, Cat, Case
    from litex.build.generic_platform import Pins, Subsignal
    from litex.build.sim.platform import SimPlatform
    io = [("sys_clk", 0, Pins(1)), ("sys_rst", 0, Pins(1)), ("user_led", 0, Pins(5)), ("user_btn", 0, Pins(3)),
          ("bus", 0, Subsignal("dat", Pins(40)), Subsignal("stb", Pins(1)), Subsignal("ack", Pins(1)))]
    n = 0
    for regular_comb in (True, False):
        holder = {}

        def build():
            plat = SimPlatform("SIM", io)
            m = Module()
            m.clock_domains.cd_sys = ClockDomain("sys")
            clk, rst = plat.request("sys_clk"), plat.request("sys_rst")
            led, btn, bus = plat.request("user_led"), plat.request("user_btn"), plat.request("bus")
            m.comb += [m.cd_sys.clk.eq(clk), m.cd_sys.rst.eq(rst)]
            cnt = Signal(40, reset=(1 << 39) | 5)
            sel = Signal(2)
            m.sync += [If(bus.stb, cnt.eq(cnt + Cat(btn, btn[0:2]))), bus.ack.eq(bus.stb & ~bus.ack), sel.eq(sel + 1)]
            # several targets under shared control structure + a later override (per-target filtering matters)
            m.comb += [Case(sel, {0: [led.eq(cnt[35:40])], "default": [led.eq(cnt[0:5] ^ Cat(btn, btn[0:2])), bus.dat.eq(cnt)]}),
                       If(btn[0], led.eq(0x15)).Else(bus.dat[0:8].eq(0xa5))]
            holder["plat"] = plat
            return m.get_fragment(), [], ["sys"]

        def capture(f, kw, regular_comb=regular_comb):
            plat = holder["plat"]
            cap = L.convert_capture(f, (), via=lambda: plat.get_verilog(f, name="sim", regular_comb=regular_comb))
            cap.name = "sim"
            return cap
        try:
            r = run_module_case(ctx.lean, ctx.rng, "platform-glue regular_comb=%s" % regular_comb, build, cycles, dis,
                                with_orig=False, variant="synth" if regular_comb else "sim", capture=capture)
            n += r.cycles
            if not r.status.startswith("ok"):
                dis.append(Dis("platform-glue", status=r.status, regular_comb=regular_comb,
                               what="the design converted through SimPlatform.get_verilog is outside the tied subset"))
        except Exception as ex:
            traceback.print_exc()
            dis.append(Dis("module-exception", module="platform-glue", regular_comb=regular_comb, error=repr(ex)[:300]))
    return n


# ----------------------------------------------------------------------------------------------------------
# Instances: the text emitted by litex/gen/fhdl/instance.py against the Instance items (module name, instance
# name, every parameter with its value, every port with its connection, order inputs/outputs/inouts)
# ----------------------------------------------------------------------------------------------------------

def instance_text_check(rng, n_inst, lean=None):
    """Returns (instances checked, first problem or None).  Port connections are read by the expression reader
    and evaluated against the real Evaluator on random valuations; parameters are compared by value."""
    import re
    from migen import Module, Signal, Instance, Cat, Constant
    checked = 0
    for k in range(n_inst):
        mw = rng.choice([3, 9, 40])
        us = make_sigs(rng, 3, maxw=mw, p_signed=0.0, prefix="w")
        ss = make_sigs(rng, 1, maxw=min(mw, 6), p_signed=1.0, prefix="t")
        sigs = us + ss
        outs = make_sigs(rng, 2, maxw=8, p_signed=0.0, prefix="o")
        pad = Signal(rng.randint(1, 4), name_override="pad")
        g = L.SafeGen(rng, us, ss)         # connections without intermediate-overflow sites
        params = []
        for j in range(rng.randint(0, 5)):
            kind = rng.choice(["int", "const", "str", "float", "pre", "neg"])
            nm = "P%d_%s" % (j, "x" * rng.randint(0, 6))
            val = {"int": rng.randrange(1 << rng.choice([1, 8, 40])), "neg": -rng.randrange(1, 100),
                   "const": Constant(rng.randrange(16), (rng.randint(4, 9), False)),
                   "str": rng.choice(["TRUE", "a b", "RISING_EDGE", ""]), "float": rng.choice([1.5, 0.25, 100.0]),
                   "pre": Instance.PreformattedParam("%d'h%x" % (12, rng.randrange(4096)))}[kind]
            params.append((nm, kind, val))
        ins = [("I%d_%s" % (j, "y" * rng.randint(0, 5)), g.top(rng.randint(1, 2))) for j in range(rng.randint(0, 3))]
        onames = [("O%d" % j, o) for j, o in enumerate(outs[:rng.randint(0, 2)])]
        ionames = [("IO0", pad)] if rng.random() < 0.4 else []
        kw = {}
        for nm, kind, val in params:
            kw["p_" + nm] = val
        for nm, e in ins:
            kw["i_" + nm] = e
        for nm, o in onames:
            kw["o_" + nm] = o
        for nm, o in ionames:
            kw["io_" + nm] = o
        directive = rng.choice([None, None, "syn_keep=1"])
        iname = rng.choice([None, "u_foo"])
        m = Module()
        inst = Instance("FOO_%d" % k, name=iname or "FOO_%d" % k, synthesis_directive=directive, **kw) if iname else \
            Instance("FOO_%d" % k, synthesis_directive=directive, **kw)
        m.specials += inst
        ios = set(sigs) | set(outs) | {pad}
        try:
            cap = L.convert_capture(m.get_fragment(), ios)
        except Exception as ex:
            return checked, {"oracle": "instance-text", "error": repr(ex)[:300], "what": "convert fails on an Instance"}
        text = cap.text
        body = text[text.index("// Specialized Logic"):text.index("endmodule")]
        prob = _check_instance_text(body, cap, inst, "FOO_%d" % k, params, ins, onames, ionames, directive, sigs + outs + [pad], rng)
        if prob is None and lean is not None:
            prob = _lean_instance(lean, body, cap, inst, "FOO_%d" % k, sigs + outs + [pad])
        checked += 1
        if prob is not None:
            prob.update(oracle="instance-text", instance_text=body[body.index("FOO"):][:1500] if "FOO" in body else body[:600])
            return checked, prob
    return checked, None


def systask_text_check(rng, n_mod, cycles):
    """`Display` / `Finish` statements (`$display("fmt", args...)` / `$finish;` in `_generate_node`) and the hierarchy
    comment block (`LiteXContext.top` set, as a SoC build does): a safe module with Display / Finish statements nested
    in If / Case of its `sys` domain; the real simulator on the design (Display prints `fmt % values` from the
    pre-edge values; reaching a Finish raises in `Evaluator.execute`) against the independent reading of the text
    ($display records format + argument values, $finish sets a flag), every cycle: same lines in the same order, same
    cycle of the first Finish, same port values.  Returns (cycles, failing input or None)."""
    import io
    import contextlib
    from migen import If, Case, Display, Finish
    from litex.gen.context import LiteXContext
    from c01lib import Netlist
    n = 0
    systask_text_check.lines = 0          # lines displayed on both sides (coverage of the comparison)
    systask_text_check.finishes = 0
    for k in range(n_mod):
        seed = rng.randrange(1 << 30)

        def build():
            r = random.Random(seed)
            m, ios = safe_module(r)
            sg = sorted(ios, key=lambda s_: s_.duid)
            by = lambda pfx: [s_ for s_ in sg if (s_.name_override or "").startswith(pfx) and (s_.name_override or "")[1:].isdigit()]
            ins, regs, sins = by("i"), by("r"), by("t")
            args = [r.choice(regs), r.choice(ins)] + ([r.choice(sins)] if sins else [])
            fmt = " ".join("%s=%%d" % a.name_override for a in args) + " #%d" % k
            st = [If(ins[0][0] & ~ins[-1][0], Display(fmt, *args)),
                  Case(ins[0][0:1], {1: [Display("one %d", regs[0])], "default": [If(regs[-1][0], Display("dflt"))]}),
                  If(ins[0][0] & ins[-1][0] & (regs[0][0] == r.randrange(2)), Finish())]
            r.shuffle(st)
            m.sync += st
            f = m.get_fragment()
            return m, f, sg, [cd.name for cd in f.clock_domains]
        mA, fA, iosA, cdsA = build()
        mB, fB, iosB, cdsB = build()
        what = "Display/Finish text vs simulator"
        try:
            LiteXContext.top = mB if k % 2 else None
            try:
                cap = L.convert_capture(fB, iosB)
            finally:
                LiteXContext.top = None
            sigs = L.module_signals(cap)
            ids = SigIds()
            for s_ in sigs:
                ids.get(s_)
            name_ids = {cap.ns.get_name(s_): ids.get(s_) for s_ in sigs}
            mt = L.parse_module(cap.text, name_ids)
            if mt.unsupported:
                return n, {"oracle": "systask", "seed": seed, "what": "text outside the readable subset: %s" % mt.unsupported[:2]}
            if not mt.systasks:
                return n, {"oracle": "systask", "seed": seed, "what": "the Display/Finish statements of the design are missing from the text"}
            pv = L.PyVSim(mt, name_ids)
            nl = Netlist(fA, clocks=tuple(cdsA))
        except (L.ParseError, L.Unsupported, KeyError, IndexError, TypeError, AssertionError) as ex:
            return n, {"oracle": "systask", "seed": seed, "error": repr(ex)[:300],
                       "what": "convert of a design with Display/Finish fails or emits unreadable text"}
        from migen.fhdl.tools import list_targets
        targets = list_targets(cap.f)
        clks = [cd.clk for cd in cap.f.clock_domains]
        rsts = [cd.rst for cd in cap.f.clock_domains if cd.rst is not None]
        in_idx = [j for j, s_ in enumerate(iosB) if s_ not in targets and not any(s_ is c for c in clks)]
        out_idx = [j for j, s_ in enumerate(iosB) if s_ in targets]
        prev, trace = None, []
        for t in range(cycles):
            vals = stimulus(rng, [iosB[j] for j in in_idx], rsts, prev, t)
            prev = vals
            trace.append(vals)
            for j, v in zip(in_idx, vals):
                nl.set(iosA[j], v)
                pv.state[ids.get(iosB[j])] = v & ((1 << iosB[j].nbits) - 1)
            nl.settle()
            pv.settle()
            n += 1
            for j in out_idx:
                a, b = nl.getu(iosA[j]), pv.state[ids.get(iosB[j])]
                if a != b:
                    return n, {"oracle": "systask", "seed": seed, "cycle": t, "port": cap.ns.get_name(iosB[j]),
                               "simulator": a, "verilog": b, "trace": trace[-6:], "what": what + ": port values differ"}
            buf = io.StringIO()
            fin_real = False
            with contextlib.redirect_stdout(buf):
                try:
                    nl.tick(tuple(cdsA))
                except NotImplementedError:
                    fin_real = True          # Evaluator.execute reached the Finish statement
            pv.displayed = []
            pv.tick({ids.get(c) for c in clks})
            want = []
            for fmt, args in pv.displayed:
                vs_ = [(v - (1 << w) if (sg_ and v >> (w - 1)) else v) for v, w, sg_ in args]
                want.append(fmt % tuple(vs_))
            got = buf.getvalue().splitlines()
            if pv.finished != fin_real:
                return n, {"oracle": "systask", "seed": seed, "cycle": t, "simulator_finished": fin_real,
                           "verilog_finished": pv.finished, "trace": trace[-6:], "what": what + ": $finish / Finish reached on one side only"}
            if fin_real:
                systask_text_check.finishes += 1
                break
            systask_text_check.lines += len(want)
            if got != want:
                return n, {"oracle": "systask", "seed": seed, "cycle": t, "simulator_prints": got[:4], "verilog_displays": want[:4],
                           "trace": trace[-6:], "what": what + ": the lines displayed in this cycle differ"}
    return n, None


def _lean_instance(lean, body, cap, inst, of, allsigs):
    """Lean `printInstance` (LitexModel/Fhdl/Instance.lean) on the Instance's items == the parameter / connection
    lists parsed from the real text, name by name, IN ORDER, node for node."""
    import re
    from migen import Instance
    from migen.fhdl.structure import Constant
    hx = lambda t: "x" + t.encode().hex()
    ns = cap.ns
    ids = SigIds()
    for s_ in allsigs:
        ids.get(s_)
    names = {ns.get_name(s_): (i, s_.nbits, s_.signed) for i, s_ in enumerate(allsigs)}
    iname = ns.get_name(inst)
    code = "\n".join(l for l in body.splitlines() if not l.strip().startswith("//"))
    m = re.search(r"\b%s\s+(#\((?P<par>.*?)\n\)\s*)?%s\s*\((?P<ports>.*)\)\s*(/\* synthesis .*? \*/)?;" % (re.escape(of), re.escape(iname)), code, re.S)

    def conns(txt):
        out = []
        for line in (txt or "").split("\n"):
            line = line.strip().rstrip(",")
            if line:
                mm = re.match(r"\.(\w+)\s*\((.*)\)$", line, re.S)
                out.append((mm.group(1), mm.group(2)))
        return out
    ps, qs = [], []
    for it in inst.items:
        if isinstance(it, Instance.Parameter):
            v = it.value
            if isinstance(v, Constant):
                ps += [it.name, "c", str(v.value), str(v.nbits), "1" if v.signed else "0"]
            elif isinstance(v, str) and not isinstance(v, Instance.PreformattedParam):
                ps += [it.name, "s", hx(v)]
            else:
                ps += [it.name, "v", hx(str(v))]
        elif isinstance(it, (Instance.Input, Instance.Output, Instance.InOut)):
            d = "i" if isinstance(it, Instance.Input) else ("o" if isinstance(it, Instance.Output) else "x")
            qs += [d, it.name] + ser_expr(it.expr, ids)
    npar = sum(1 for it in inst.items if isinstance(it, Instance.Parameter))
    nport = sum(1 for it in inst.items if isinstance(it, (Instance.Input, Instance.Output, Instance.InOut)))
    tps, tqs = [], []
    tp, tq = conns(m.group("par")), conns(m.group("ports"))
    for n_, txt in tp:
        try:
            tps += [n_, "e"] + parse_vexpr(txt, {})
        except (L.ParseError, IndexError):
            tps += [n_, "r", hx(txt)]
    for n_, txt in tq:
        tqs += [n_] + parse_vexpr(txt, names)
    line = "inst %d %s ; %d %s ; %d %s ; %d %s" % (npar, " ".join(ps), nport, " ".join(qs), len(tp), " ".join(tps),
                                                  len(tq), " ".join(tqs))
    ans = lean.call_batch([line])[0]
    if ans.strip() != "ok":
        return {"what": "Lean printInstance differs from the parameter/connection list of the real text: %s" % ans[:200]}
    return None


def _check_instance_text(body, cap, inst, of, params, ins, outs, inouts, directive, allsigs, rng):
    import re
    ns = cap.ns
    iname = ns.get_name(inst)
    # drop comment lines, keep the synthesis directive for a separate test
    code = "\n".join(l for l in body.splitlines() if not l.strip().startswith("//"))
    m = re.search(r"\b%s\s+(#\((?P<par>.*?)\n\)\s*)?%s\s*\((?P<ports>.*)\)\s*(?P<dir>/\* synthesis .*? \*/)?;" % (re.escape(of), re.escape(iname)),
                  code, re.S)
    if not m:
        return {"what": "no instantiation `%s [#(…)] %s (…);` in the text" % (of, iname)}
    if (directive is None) != (m.group("dir") is None) or (directive and m.group("dir") != "/* synthesis %s */" % directive):
        return {"what": "synthesis directive %r not rendered as given: %r" % (directive, m.group("dir"))}

    def conns(txt):
        out = []
        for line in (txt or "").split("\n"):
            line = line.strip().rstrip(",")
            if not line:
                continue
            mm = re.match(r"\.(\w+)\s*\((.*)\)$", line, re.S)
            if not mm:
                return None
            out.append((mm.group(1), mm.group(2)))
        return out
    got_p = conns(m.group("par"))
    got_io = conns(m.group("ports"))
    if got_p is None or got_io is None:
        return {"what": "a parameter/port line is not of the form .NAME (VALUE)"}
    # named association: the order is immaterial, the set of names (no duplicates) is not
    if sorted(n for n, _ in got_p) != sorted(n for n, _, _ in params):
        return {"what": "parameter names", "text": [n for n, _ in got_p], "instance": [n for n, _, _ in params]}
    got_p = sorted(got_p)
    params = sorted(params, key=lambda x: x[0])
    for (n, txt), (_, kind, val) in zip(got_p, params):
        ok = True
        if kind in ("int", "neg", "const"):
            want = val.value if hasattr(val, "value") else val
            try:
                tree, _ = L.build_vtree(parse_vexpr(txt, {}))
                L.v_size(tree)
                W = max(tree.w, 64)
                ok = L.v_assign_value(tree, {}, W) == want & ((1 << W) - 1)
            except (L.ParseError, IndexError):
                ok = False
        elif kind == "str":
            ok = txt == '"%s"' % val
        elif kind == "float":
            try:
                ok = float(txt) == val
            except ValueError:
                ok = False
        else:
            ok = txt == str(val)
        if not ok:
            return {"what": "parameter %s (%s) has value %r in the instance, text %r" % (n, kind, getattr(val, "value", val), txt)}
    want_io = [(n, e) for n, e in ins] + [(n, e) for n, e in outs] + [(n, e) for n, e in inouts]
    if sorted(n for n, _ in got_io) != sorted(n for n, _ in want_io):
        return {"what": "port names", "text": [n for n, _ in got_io], "instance": [n for n, _ in want_io]}
    got_io = sorted(got_io)
    want_io = sorted(want_io, key=lambda x: x[0])
    names = {ns.get_name(s_): (i, s_.nbits, s_.signed) for i, s_ in enumerate(allsigs)}
    ev = Evaluator([], {})
    for (n, txt), (_, e) in zip(got_io, want_io):
        try:
            tree, _ = L.build_vtree(parse_vexpr(txt, names))
            L.v_size(tree)
        except (L.ParseError, KeyError) as ex:
            return {"what": "connection of port %s unreadable: %r (%r)" % (n, txt, ex)}
        from migen.fhdl.bitcontainer import value_bits_sign
        from migen.fhdl.structure import Signal
        nb = value_bits_sign(e)[0]
        for _ in range(12):
            env = [rng.choice([sig_range(s_)[0], sig_range(s_)[-1], rng.randrange(sig_range(s_)[0], sig_range(s_)[-1] + 1)]) for s_ in allsigs]
            ev.signal_values = dict(zip(allsigs, env))
            try:
                real = ev.eval(e) & ((1 << nb) - 1)
            except ValueError:
                continue
            benv = {i: v & ((1 << s_.nbits) - 1) for i, (s_, v) in enumerate(zip(allsigs, env))}
            # a port connection is sized by the expression itself
            if tree.w != nb and isinstance(e, Signal):
                return {"what": "port %s: connection %r has %d bits, the signal %d" % (n, txt, tree.w, nb)}
            gold = L.v_eval(tree, benv, max(tree.w, nb), tree.s) & ((1 << min(tree.w, nb)) - 1)
            if gold != real & ((1 << min(tree.w, nb)) - 1):
                return {"what": "port %s: connection %r evaluates to %d, the Instance expression to %d" % (n, txt, gold, real),
                        "env": {ns.get_name(s_): v for s_, v in zip(allsigs, env)}}
    return None


def prbs_pause_probe():
    """C01-prbs-python-bool-invert: `PRBSRX(with_errors_saturation=False)` used `~with_errors_saturation` on a Python
    bool (= -1, always truthy after masking), so the simulator kept counting errors while `pause` was asserted and
    the emitted Verilog (`$signed({1'd0, (~pause)}) & ...`) did not.  Probe: the real Evaluator on the design and the
    golden reading of the emitted text, `pause` = 1, garbage input, PRBS7 checker selected: the two `errors`
    counters must agree (and stay 0)."""
    from litex.soc.cores.prbs import PRBSRX
    from c01lib import Netlist
    rng = random.Random(11)

    def mk():
        dut = PRBSRX(8)
        ports = {"config": dut.config, "pause": dut.pause, "i": dut.i, "errors": dut.errors}
        f, ios, cds = L.prepare(dut)
        return f, ios, cds, {nm: next(k for k, s_ in enumerate(ios) if s_ is sg) for nm, sg in ports.items()}
    fA, iosA, cdsA, pos = mk()
    fB, iosB, cdsB, posB = mk()
    assert pos == posB
    nl = Netlist(fA, clocks=tuple(cdsA))
    cap = L.convert_capture(fB, iosB)
    sigs = L.module_signals(cap)
    ids = SigIds()
    for s_ in sigs:
        ids.get(s_)
    name_ids = {cap.ns.get_name(s_): ids.get(s_) for s_ in sigs}
    pv = L.PyVSim(L.parse_module(cap.text, name_ids), name_ids)
    clks = [cd.clk for cd in cap.f.clock_domains]
    rst_pos = [k for k, s_ in enumerate(iosB) if any(s_ is cd.rst for cd in cap.f.clock_domains)]

    def errors():
        return nl.getu(iosA[pos["errors"]]), pv.state[ids.get(iosB[pos["errors"]])]
    at_pause = None
    for t in range(40):
        vals = {pos["config"]: 1, pos["pause"]: 1 if t >= 8 else 0, pos["i"]: rng.randrange(256)}
        vals.update({k: 0 for k in rst_pos})
        for k, v in vals.items():
            nl.set(iosA[k], v)
            pv.state[ids.get(iosB[k])] = v
        nl.settle()
        pv.settle()
        if t == 8:
            at_pause = errors()
        nl.tick(tuple(cdsA))
        pv.tick({ids.get(c) for c in clks})
    end = errors()
    fails = end[0] != end[1] or end[0] != at_pause[0]
    return ("C01-prbs-python-bool-invert",
            "PRBSRX(with_errors_saturation=False): error counter while `pause` is asserted (garbage input, PRBS7 "
            "selected): the simulator must hold it, as the emitted Verilog does",
            fails, {"errors_when_pause_rises": {"simulator": at_pause[0], "verilog": at_pause[1]},
                    "errors_after_32_paused_cycles": {"simulator": end[0], "verilog": end[1]}})


def mem_lean_tie(ctx, cycles, dis):
    """Lean memory model (LitexModel/Fhdl/Memory.lean) against the real code, one port / one clock:
       memEdgeF/memReadF == the real simulator (MemoryToArray) on the design, EVERY edge (also with partial byte
       enables and with reset asserted: the model is faithful outside the theorems' hypotheses too);
       memEdgeV/memReadV == the independent reading of the text memory.py emitted, every edge;
       and where `memInOk` held on every edge so far the two Lean sides must agree (mem_run_equiv_partial)."""
    from migen.fhdl.specials import READ_FIRST, WRITE_FIRST, NO_CHANGE
    from c01lib import Netlist
    MemDut = dict(memory_builders("quick"))["Memory/no-change/16x4/gran8/re"]().__class__
    M = {"wf": WRITE_FIRST, "rf": READ_FIRST, "nc": NO_CHANGE, "as": WRITE_FIRST}
    #        width depth mode  gran re     init                     full_we
    grid = [(8, 8, "wf", 0, False, [1, 2, 3], False), (16, 4, "wf", 8, True, None, False),
            (8, 6, "rf", 0, False, [1, 2, 3, 4, 5, 6], False), (12, 5, "rf", 4, True, [0xfff], False),
            (8, 8, "nc", 0, False, [9], False), (16, 3, "nc", 8, True, None, False), (33, 7, "nc", 11, False, [1 << 32], True),
            (10, 4, "as", 0, False, [0x3ff, 5], False), (12, 12, "as", 4, False, None, False),
            (72, 3, "wf", 8, False, [(0xa5 << 64) | 0x0123456789abcdef, 7], False), (4, 3, "wf", 2, True, None, False),
            (6, 5, "wf", 0, True, [9, 8, 7, 6, 5], False)]
    rng = ctx.rng
    tot = dict(cases=0, edges=0, inok_edges=0)
    for (w, depth, mode, gran, has_re, init, full_we), clean in [(g_, c_) for g_ in grid for c_ in (True, False)]:
        # clean run: inside the theorems' hypotheses on every edge (no reset, NO_CHANGE enables all-or-nothing)
        name = "mem %dx%d %s g%d re%d%s" % (w, depth, mode, gran, has_re, " clean" if clean else "")

        def mk():
            return MemDut(w, depth, M[mode], gran, has_re, mode == "as", init, full_we=full_we, clamp=True)
        try:
            dA, dB = mk(), mk()
            fA, iosA, cdsA = L.prepare(dA, allow_memories=True)
            fB, iosB, cdsB = L.prepare(dB, allow_memories=True)
            cap = L.convert_capture(fB, iosB)
            sigs = L.module_signals(cap)
            ids = SigIds()
            for s_ in sigs:
                ids.get(s_)
            name_ids = {cap.ns.get_name(s_): ids.get(s_) for s_ in sigs}
            mt = L.parse_module(cap.text, name_ids, allow_memories=True)
            pv = L.PyVSim(mt, mt.name_ids, cap.result.data_files)
            nl = Netlist(fA, clocks=tuple(cdsA))
        except Exception as ex:
            dis.append(Dis("mem-lean-exception", case=name, error=repr(ex)[:300]))
            continue
        clkB = [cd.clk for cd in cap.f.clock_domains]
        rstA = [cd.rst for cd in fA.clock_domains if cd.rst is not None][0]
        rstB = [cd.rst for cd in cap.f.clock_domains if cd.rst is not None][0]
        nwe = 1 if (gran == 0 or gran >= w) else w // gran

        def drive(d, pvside, nm, v):
            sg = getattr(d, nm)
            if pvside:
                pv.state[ids.get(sg)] = v & ((1 << sg.nbits) - 1)
            else:
                nl.set(sg, v)
        lines, reals, texts = [], [], []
        for t in range(cycles):
            adr = rng.randrange(1 << len(dA.adr))
            dw = rng.randrange(1 << w)
            we = rng.choice([0, 1]) if full_we else rng.choice([0, (1 << nwe) - 1, rng.randrange(1 << nwe)])
            if clean and mode == "nc" and not full_we:
                we = rng.choice([0, (1 << nwe) - 1])
            re = rng.randrange(2)
            rst = 1 if (not clean and t > 5 and rng.random() < 0.04) else 0
            for pvside, d in ((False, dA), (True, dB)):
                drive(d, pvside, "adr", adr)
                drive(d, pvside, "dat_w", dw)
                drive(d, pvside, "we1" if full_we else "we", we)
                if has_re and mode != "as":
                    drive(d, pvside, "re", re)
            nl.set(rstA, rst)
            pv.state[ids.get(rstB)] = rst
            nl.settle()
            pv.settle()
            nl.tick(tuple(cdsA))
            pv.tick({ids.get(c) for c in clkB})
            reals.append(nl.getu(dA.dat_r))
            texts.append(pv.state[ids.get(dB.dat_r)])
            we_bits = ((1 << nwe) - 1 if we else 0) if full_we else we
            lines.append("%d %d %d %d %d" % (min(adr, depth - 1), dw, we_bits, re, rst))
        g_eff = 0 if gran >= w else gran
        ans = ctx.lean.call_batch(["mem %d %d %s %d %d ; %s ; %s" % (
            w, g_eff, mode, 1 if (has_re and mode != "as") else 0, depth, " ".join(map(str, init or [])), " ; ".join(lines))])[0]
        if ans.startswith("bad"):
            dis.append(Dis("driver", case=name, answer=ans[:100]))
            continue
        parts = [p_.split() for p_ in ans.split(";")]
        if parts[0] != ["1"]:
            dis.append(Dis("mem-lean-cfg", case=name, what="memCfgOk fails on a configuration of the grid"))
        all_ok = True
        tot["cases"] += 1
        for t, (p_, rv, tv) in enumerate(zip(parts[1:], reals, texts)):
            fF, fV, inok, steq = int(p_[0]), int(p_[1]), p_[2] == "1", p_[3] == "1"
            tot["edges"] += 1
            if fF != rv:
                dis.append(Dis("memEdgeF", case=name, edge=t, inputs=lines[max(0, t - 3):t + 1], lean=fF, real=int(rv),
                               what="Lean memEdgeF/memReadF differs from the real simulator (MemoryToArray)"))
                break
            if fV != tv:
                dis.append(Dis("memEdgeV", case=name, edge=t, inputs=lines[max(0, t - 3):t + 1], lean=fV, text=int(tv),
                               what="Lean memEdgeV/memReadV differs from the independent reading of the memory.py text"))
                break
            all_ok = all_ok and inok
            if all_ok:
                tot["inok_edges"] += 1
                if not steq or fF != fV:
                    dis.append(Dis("theorem-contradicted", case=name, edge=t,
                                   what="memInOk held on every edge but memEdgeF and memEdgeV states/outputs differ"))
                    break
    ctx.cov.add_cases("Lean memory port model: memEdgeF vs real simulator, memEdgeV vs text reader, every edge (%d "
                      "configurations: modes x granularity x re x init x non-power-of-two depth x 33/72-bit words)"
                      % tot["cases"], tot["edges"], tot["inok_edges"], exhaustive=False)
    ctx.log("Lean memory tie: %s" % tot)


def memn_lean_tie(ctx, cycles, dis):
    """Lean multi-port memory model (LitexModel/Fhdl/MemoryN.lean) against the real code: memories with 1-3 ports on
    one or two clocks, every mode mix (incl. the multi-clock WRITE_FIRST / NO_CHANGE ports memory.py rewrites to
    READ_FIRST: open finding), mixed granularities, read enables, two writers (never the same word in one instant):
       edgeFN/readFN == the real simulator (MemoryToArray) on the design, every port's dat_r after EVERY instant;
       edgeVN/readVN == the independent reading of the text memory.py emitted, every instant;
       and where memCfgOkN holds and insOk held on every instant so far the two Lean sides must agree
       (mem_ports_run_equiv_partial)."""
    from migen.fhdl.specials import READ_FIRST, WRITE_FIRST, NO_CHANGE
    from c01lib import Netlist
    MemDutN = dict(memory_builders("quick"))["Memory/2port/rf-rw+wf-ro/8x6"]().__class__
    WF, RF, NC = WRITE_FIRST, READ_FIRST, NO_CHANGE
    MN = {WF: "wf", RF: "rf", NC: "nc"}
    grid = [
        (16, 8, [0xbeef, 1, 2], [dict(w=True, mode=WF, gran=8), dict(mode=RF, re=True)]),
        (8, 6, [1, 2, 3, 4, 5, 6], [dict(w=True, mode=RF), dict(mode=WF)]),
        (9, 5, [0x1ff, 0x100], [dict(w=True, mode=NC, gran=0), dict(asyn=True), dict(mode=WF, re=True)]),
        (12, 7, None, [dict(mode=WF), dict(w=True, mode=WF, gran=4)]),
        (16, 5, [0xbeef, 1, 2, 3, 0x1234], [dict(w=True, mode=WF, gran=8), dict(mode=RF, re=True), dict(w=True, mode=WF)]),
        (12, 4, None, [dict(w=True, mode=NC, gran=4, re=True), dict(w=True, mode=RF, gran=6)]),
        (72, 3, [(0xa5 << 64) | 0x0123456789abcdef, 7], [dict(w=True, mode=WF, gran=8), dict(asyn=True, w=True)]),
        # two clock domains
        (8, 8, [3, 1, 4, 1, 5], [dict(w=True, mode=RF, cd="sys"), dict(mode=RF, cd="b", re=True)]),
        (10, 6, None, [dict(w=True, mode=RF, cd="sys", gran=5), dict(mode=RF, cd="b"), dict(asyn=True)]),
        (8, 8, [3, 1, 4], [dict(w=True, mode=WF, cd="sys"), dict(mode=RF, cd="b")]),            # forced READ_FIRST (finding)
        (8, 4, [9, 8], [dict(w=True, mode=NC, cd="sys"), dict(w=True, mode=WF, cd="b", re=True)]),  # forced READ_FIRST (finding)
    ]
    rng = ctx.rng
    tot = dict(cases=0, instants=0, inok_instants=0, cfg_ok_cases=0)
    for width, depth, init, ports in grid:
        name = "memN %dx%d %s" % (width, depth, "+".join("%s%s%s@%s" % (
            "as" if pd.get("asyn") else MN[pd.get("mode", WF)], "-w" if pd.get("w") else "", "-re" if pd.get("re") else "",
            pd.get("cd", "sys")) for pd in ports))

        def mk():
            return MemDutN(width, depth, init, [dict(pd) for pd in ports])
        try:
            dA, dB = mk(), mk()
            fA, iosA, cdsA = L.prepare(dA, allow_memories=True)
            fB, iosB, cdsB = L.prepare(dB, allow_memories=True)
            cap = L.convert_capture(fB, iosB)
            sigs = L.module_signals(cap)
            ids = SigIds()
            for s_ in sigs:
                ids.get(s_)
            name_ids = {cap.ns.get_name(s_): ids.get(s_) for s_ in sigs}
            mt = L.parse_module(cap.text, name_ids, allow_memories=True)
            pv = L.PyVSim(mt, mt.name_ids, cap.result.data_files)
            nl = Netlist(fA, clocks=tuple(cdsA))
        except Exception as ex:
            dis.append(Dis("memn-lean-exception", case=name, error=repr(ex)[:300]))
            continue
        doms = list(cdsA)
        clk_of = {cd.name: cd.clk for cd in cap.f.clock_domains}
        nwe = [(1 if (pd.get("gran", 0) == 0 or pd.get("gran", 0) >= width) else width // pd["gran"]) if pd.get("w") else 0
               for pd in ports]
        specs = []
        for pd in ports:
            g = pd.get("gran", 0)
            specs.append("%d %s %d %d %d" % (0 if g >= width else g, "as" if pd.get("asyn") else MN[pd.get("mode", WF)],
                                             1 if (pd.get("re") and not pd.get("asyn")) else 0, 1 if pd.get("w") else 0,
                                             doms.index(pd.get("cd", "sys"))))
        lines, reals, texts = [], [], []
        for t in range(cycles):
            tick = [d for d in doms if len(doms) == 1 or rng.random() < 0.6]
            used = set()
            toks = []
            for n, pd in enumerate(ports):
                adr = rng.randrange(1 << max(1, (depth - 1).bit_length()))
                dw = rng.randrange(1 << width)
                we = rng.choice([0, (1 << nwe[n]) - 1, rng.randrange(1 << nwe[n])]) if pd.get("w") else 0
                eff = min(adr, depth - 1)
                if we and eff in used:
                    we = 0              # two ports writing one word in one instant: a race in Verilog, never driven
                if we:
                    used.add(eff)
                re = rng.randrange(2)
                for pvside, d in ((False, dA), (True, dB)):
                    for nm, v in (("adr%d" % n, adr), ("dat_w%d" % n, dw), ("we%d" % n, we), ("re%d" % n, re)):
                        sg = getattr(d, nm, None)
                        if sg is None:
                            continue
                        if pvside:
                            pv.state[ids.get(sg)] = v & ((1 << sg.nbits) - 1)
                        else:
                            nl.set(sg, v)
                toks.append("%d %d %d %d" % (eff, dw, we, re))
            nl.settle()
            pv.settle()
            nl.tick(tuple(tick))
            pv.tick({ids.get(clk_of[d]) for d in tick})
            reals.append([nl.getu(getattr(dA, "dat_r%d" % n)) for n in range(len(ports))])
            texts.append([pv.state[ids.get(getattr(dB, "dat_r%d" % n))] for n in range(len(ports))])
            lines.append("%d %s %s" % (len(tick), " ".join(str(doms.index(d)) for d in tick), " ".join(toks)))
        ans = ctx.lean.call_batch(["memn %d %d ; %s ; %s ; %s" % (
            width, depth, " ".join(map(str, init or [])), " ".join(specs), " ; ".join(lines))])[0]
        if ans.startswith("bad"):
            dis.append(Dis("driver", case=name, answer=ans[:100]))
            continue
        parts = ans.split(" ; ")
        cfg_ok = parts[0].strip() == "1"
        tot["cases"] += 1
        tot["cfg_ok_cases"] += 1 if cfg_ok else 0
        all_ok = cfg_ok
        for t, (p_, rv, tv) in enumerate(zip(parts[1:], reals, texts)):
            head, _, vpart = p_.partition("|")
            hw = head.split()
            inok, steq = hw[0] == "1", hw[1] == "1"
            fF = [int(x) for x in hw[2:]]
            fV = [int(x) for x in vpart.split()]
            tot["instants"] += 1
            if fF != [int(x) for x in rv]:
                dis.append(Dis("edgeFN", case=name, instant=t, inputs=lines[max(0, t - 3):t + 1], lean=fF, real=[int(x) for x in rv],
                               what="Lean edgeFN/readFN differs from the real simulator (MemoryToArray) on a multi-port memory"))
                break
            if fV != [int(x) for x in tv]:
                dis.append(Dis("edgeVN", case=name, instant=t, inputs=lines[max(0, t - 3):t + 1], lean=fV, text=[int(x) for x in tv],
                               what="Lean edgeVN/readVN differs from the independent reading of the memory.py text"))
                break
            all_ok = all_ok and inok
            if all_ok:
                tot["inok_instants"] += 1
                if not steq or fF != fV:
                    dis.append(Dis("theorem-contradicted", case=name, instant=t,
                                   what="memCfgOkN and insOk held on every instant but edgeFN and edgeVN differ"))
                    break
    ctx.cov.add_cases("Lean multi-port memory model: edgeFN vs real simulator, edgeVN vs text reader, every instant (%d "
                      "configurations: 1-3 ports x modes x granularities x re x one/two clocks x two writers)"
                      % tot["cases"], tot["instants"], tot["inok_instants"], exhaustive=False)
    ctx.log("Lean multi-port memory tie: %s" % tot)


def l3_memories(ctx, cycles, dis):
    tot = dict(cases=0, unsupported=0, cycles=0)
    for name, mk in memory_builders(ctx.tier):
        try:
            n, bad, status = run_memory_case(ctx.rng, name, mk, cycles)
        except Exception as ex:
            traceback.print_exc()
            dis.append(Dis("memory-exception", module=name, error=repr(ex)[:300]))
            continue
        tot["cases"] += 1
        tot["cycles"] += n
        if not status.startswith("ok"):
            tot["unsupported"] += 1
            ctx.cov.notes.append("memory case %s: %s" % (name, status))
        if bad is not None:
            dis.append(Dis("memory-template", **bad))
    ctx.cov.add_cases("L3 memories: real Simulator (MemoryToArray) vs golden reading of the memory.py text (%d cases)"
                      % tot["cases"], tot["cycles"], tot["cycles"], exhaustive=False)
    ctx.log("L3 memories: %s" % tot)


# ----------------------------------------------------------------------------------------------------------
# Lowering index arithmetic: Lean lowerCat / lowerRep vs the real _lower_slice_cat / _lower_slice_replicate
# ----------------------------------------------------------------------------------------------------------

def lowering_arith(ctx, n_cases, dis):
    from litex.gen.fhdl.verilog import _lower_slice_cat, _lower_slice_replicate
    from migen.fhdl.structure import Cat, Replicate
    rng = ctx.rng
    lines, metas = [], []
    for k in range(n_cases):
        sigs = make_sigs(rng, rng.randint(2, 4), maxw=rng.choice([2, 4, 7]))
        g = ExprGen(rng, sigs, lowered=True, tame=True)

        def nest(d):
            if d <= 0 or rng.random() < 0.3:
                return g.word(1)
            if rng.random() < 0.6:
                return Cat(*[nest(d - 1) for _ in range(rng.randint(1, 4))])
            return Replicate(nest(d - 1), rng.randint(1, 4))
        kind = rng.choice(["cat", "rep"])
        node = Cat(*[nest(2) for _ in range(rng.randint(1, 4))]) if kind == "cat" else Replicate(nest(2), rng.randint(1, 4))
        n = len(node)
        if n == 0 or n > 200:
            continue
        start = rng.randrange(0, n)
        length = rng.randint(1, n - start)
        ids = SigIds()
        for s in sigs:
            ids.get(s)
        fn = _lower_slice_cat if kind == "cat" else _lower_slice_replicate
        rnode, rstart = fn(node, start, length)
        lines.append("low %s %d %d ; %s" % (kind, start, length, " ".join(ser_expr(node, ids))))
        wit = {"sigs": [[s_.nbits, bool(s_.signed)] for s_ in sigs],
               "expr": ["slice", dump_ast(node, sigs), start, start + length], "lw": length}
        metas.append((kind, start, length, "%d %s" % (rstart, " ".join(ser_expr(rnode, ids))), rnode is not node, wit))
    moved = 0
    for (kind, start, length, want, changed, wit), ans in zip(metas, ctx.lean.call_batch(lines)):
        moved += 1 if changed else 0
        if " ".join(ans.split()) != want:
            dis.append(Dis("lowering-arith", fn="_lower_slice_" + ("cat" if kind == "cat" else "replicate"),
                           start=start, length=length, real=want[:200], lean=ans[:200], witness=wit))
            if len(dis) > 5:
                break
    ctx.cov.add_cases("_lower_slice_cat/_replicate index arithmetic vs Lean lowerCat/lowerRep", len(metas), moved,
                      exhaustive=False)
    ctx.log("lowering arithmetic: %d cases (%d descended into an element)" % (len(metas), moved))
    lowering_drop(ctx, n_cases // 3, dis)


def lowering_drop(ctx, n_cases, dis):
    """The last decision of the real `_ComplexSliceLowerer.visit_Slice` (drop the slice / keep it on the signal or
    on a proxy signal) vs Lean `dropsSlice`, on the node the real index arithmetic resolves the slice to."""
    from litex.gen.fhdl.verilog import _ComplexSliceLowerer, _lower_slice_cat, _lower_slice_replicate
    from migen.fhdl.structure import Cat, Replicate, _Slice
    rng = ctx.rng
    lines, metas = [], []
    for k in range(n_cases):
        sigs = make_sigs(rng, rng.randint(2, 4), maxw=rng.choice([1, 2, 4, 7]), p_signed=0.4)
        g = ExprGen(rng, sigs, lowered=True, tame=False)
        r = rng.random()
        if r < 0.35:
            base = rng.choice(sigs)
        elif r < 0.55:
            base = Cat(*[g.gen(1) for _ in range(rng.randint(1, 3))])
        elif r < 0.7:
            base = Replicate(g.gen(1), rng.randint(1, 3))
        else:
            base = g.gen(rng.randint(1, 2))
        n = len(base)
        if n == 0 or n > 64:
            continue
        if rng.random() < 0.7:
            start, length = 0, n                       # the interesting case: the slice covers the node
        else:
            start = rng.randrange(0, n)
            length = rng.randint(1, n - start)
        e = _Slice(base, start, start + length)
        if rng.random() < 0.2 and length > 0:
            e = _Slice(e, 0, length)                   # nested full slice
        # resolved node: the real walk
        node, st = e, 0
        while isinstance(node, _Slice):
            st += node.start
            node = node.value
            while True:
                node, st = _lower_slice_cat(node, st, length)
                former = node
                node, st = _lower_slice_replicate(node, st, length)
                if node is former:
                    break
        low = _ComplexSliceLowerer()
        res = low.visit(e)
        dropped = not isinstance(res, _Slice)
        ids = SigIds()
        for s_ in sigs:
            ids.get(s_)
        try:
            lines.append("drop %d %d ; %s" % (st, length, " ".join(ser_expr(node, ids))))
        except L.Unsupported:
            continue
        metas.append((dropped, st, length, node))
    ndrop = 0
    for (dropped, st, length, node), ans in zip(metas, ctx.lean.call_batch(lines)):
        ndrop += 1 if dropped else 0
        if ans.strip() != ("1" if dropped else "0"):
            ids = SigIds()
            dis.append(Dis("lowering-drop", start=st, length=length, node=" ".join(ser_expr(node, ids))[:200], real_dropped=dropped,
                           lean=ans[:50], what="_ComplexSliceLowerer.visit_Slice drop decision differs from Lean dropsSlice"))
            if len(dis) > 5:
                break
    ctx.cov.add_cases("_ComplexSliceLowerer drop-the-slice decision vs Lean dropsSlice", len(metas), ndrop, exhaustive=False)
    ctx.log("lowering drop decision: %d cases (%d dropped)" % (len(metas), ndrop))


# ----------------------------------------------------------------------------------------------------------
# Corpus of witnesses (run first) and finding probes
# ----------------------------------------------------------------------------------------------------------

def build_ast(a, sigs):
    from migen.fhdl.structure import _Operator, _Slice, Cat, Replicate, Constant, Mux
    k = a[0]
    if k == "sig":
        return sigs[a[1]]
    if k == "const":
        return Constant(a[1], (a[2], a[3]))
    if k == "op":
        return _Operator({"<<": "<<<", ">>": ">>>"}.get(a[1], a[1]), [build_ast(x, sigs) for x in a[2:]])
    if k == "mux":
        return Mux(*[build_ast(x, sigs) for x in a[1:]])
    if k == "slice":
        return _Slice(build_ast(a[1], sigs), a[2], a[3])
    if k == "cat":
        return Cat(*[build_ast(x, sigs) for x in a[1:]])
    if k == "rep":
        return Replicate(build_ast(a[1], sigs), a[2])
    raise ValueError(k)


def dump_ast(e, sigs):
    """Inverse of build_ast."""
    from migen.fhdl.structure import _Operator, _Slice, Cat, Replicate, Constant, Signal
    if isinstance(e, Signal):
        return ["sig", next(i for i, s in enumerate(sigs) if s is e)]
    if isinstance(e, Constant):
        return ["const", e.value, e.nbits, bool(e.signed)]
    if isinstance(e, _Operator):
        if e.op == "m":
            return ["mux"] + [dump_ast(o, sigs) for o in e.operands]
        return ["op", e.op] + [dump_ast(o, sigs) for o in e.operands]
    if isinstance(e, _Slice):
        return ["slice", dump_ast(e.value, sigs), e.start, e.stop]
    if isinstance(e, Cat):
        return ["cat"] + [dump_ast(o, sigs) for o in e.l]
    if isinstance(e, Replicate):
        return ["rep", dump_ast(e.v, sigs), e.n]
    raise ValueError(type(e))


def run_witness(ctx, w):
    """Returns dict(simulator, verilog, lean_verilog|None, text)."""
    from migen import Signal, Module
    sigs = [Signal((n, sg), name_override="s%d" % i) for i, (n, sg) in enumerate(w["sigs"])]
    e = build_ast(w["expr"], sigs)
    lw = w["lw"]
    if w["kind"] == "expr":
        ids = SigIds()
        for s in sigs:
            ids.get(s)
        ns = FlatNS(ids)
        text, _ = _generate_expression(ns, e)
        toks = parse_vexpr(text, ns.names())
        tree, _ = L.build_vtree(toks)
        L.v_size(tree)
        ev = Evaluator([], {})
        ev.signal_values = {s: v for s, v in zip(sigs, w["env"])}
        sim = truncate(ev.eval(e), lw, False)
        benv = {i: v & ((1 << s.nbits) - 1) for i, (s, v) in enumerate(zip(sigs, w["env"]))}
        gold = L.v_assign_value(tree, benv, lw)
        lean = None
        if ctx.lean is not None:
            ans = ctx.lean.call_batch(["x %d ; %s ; %s ; %s" % (lw, " ".join(ser_expr(e, ids)), " ".join(toks),
                                                              " ".join(map(str, w["env"])))])[0]
            parts = [p.split() for p in ans.split(";")]
            lean = dict(printeq=parts[0][0], storeF=int(parts[1][1]), assignV=int(parts[1][2]), fits=parts[1][3] == "1")
        return dict(simulator=sim, verilog=gold, lean=lean, text=text)
    # module: y.eq(expr) through the real convert; original design simulated by the real Simulator
    from c01lib import Netlist

    def build():
        ss = [Signal((n, sg), name_override="s%d" % i) for i, (n, sg) in enumerate(w["sigs"])]
        y = Signal(lw, name_override="y")
        m = Module()
        if w["kind"] == "case":
            # Case(expr, {key_k: y.eq(k + 1), ..., "default": y.eq(0)})
            from migen import Case
            cases = {k: y.eq(n + 1) for n, k in enumerate(w["keys"])}
            cases["default"] = y.eq(0)
            m.comb += Case(build_ast(w["expr"], ss), cases)
        else:
            m.comb += y.eq(build_ast(w["expr"], ss))
        return m.get_fragment(), ss, y
    fA, sA, yA = build()
    nl = Netlist(fA, clocks=())
    for s, v in zip(sA, w["env"]):
        nl.set(s, v)
    nl.settle()
    sim = nl.getu(yA)
    fB, sB, yB = build()
    cap = L.convert_capture(fB, set(sB) | {yB})
    ids, msigs, groups, secs = L.ser_module(cap)
    name_ids = {cap.ns.get_name(s): ids.get(s) for s in msigs}
    mt = L.parse_module(cap.text, name_ids)
    pv = L.PyVSim(mt, name_ids)
    for s, v in zip(sB, w["env"]):
        pv.state[ids.get(s)] = v & ((1 << s.nbits) - 1)
    pv.settle()
    if pv.undriven:
        pv.state[ids.get(yB)] = "x (wire bits not driven: %s)" % pv.undriven_report()["undriven_wire_bits"]
    t = cap.text
    body = t[t.index("// Combinatorial Logic"):t.index("// Synchronous Logic")]
    return dict(simulator=sim, verilog=pv.state[ids.get(yB)], lean=None,
                text=" ".join(l.strip() for l in body.splitlines() if l.strip() and not l.startswith("//")))


def load_witnesses():
    p = os.path.join(CORPUS, "witnesses.json")
    if not os.path.exists(p):
        return []
    return json.load(open(p))["witnesses"]


def corpus_run(ctx, dis):
    n = 0
    reproduced = []
    for w in load_witnesses():
        try:
            r = run_witness(ctx, w)
        except Exception as ex:
            dis.append(Dis("corpus-exception", id=w["id"], error=repr(ex)[:300]))
            continue
        n += 1
        ln = r["lean"]
        if ln is not None:
            # the Lean side must tell the same story as the real code / golden reading
            if ln["printeq"] != "ok" or ln["storeF"] != r["simulator"] or ln["assignV"] != r["verilog"]:
                dis.append(Dis("corpus-lean", id=w["id"], lean=ln, simulator=r["simulator"], verilog=r["verilog"],
                               what="Lean model and real code / golden reading disagree on a corpus witness"))
            if ln["fits"] and r["simulator"] != r["verilog"]:
                dis.append(Dis("theorem-contradicted", id=w["id"], lean=ln))
        if w["status"] in ("regression", "fixed"):
            # "fixed" = witness of a repaired finding: the two sides must now agree (it stays a probe, see probes())
            if r["simulator"] != r["verilog"] or r["simulator"] != w["simulator"] or ("text" in w and r["text"] != w["text"]):
                dis.append(Dis("corpus-regression", id=w["id"], got=r, expected={k: w[k] for k in ("simulator", "verilog")},
                               what=w["what"]))
            if ln is not None and "fits" in w and ln["fits"] != w["fits"]:
                dis.append(Dis("corpus-fits", id=w["id"], lean=ln, expected_fits=w["fits"],
                               what="the side condition Fits of the printer theorem does not classify the witness as recorded"))
        else:
            if r["simulator"] != r["verilog"]:
                reproduced.append(w["id"])
                if (r["simulator"], r["verilog"]) != (w["simulator"], w["verilog"]):
                    ctx.cov.notes.append("witness %s diverges with other values than recorded: %s" % (w["id"], r))
            else:
                ctx.cov.notes.append("finding witness %s no longer reproduces (simulator = verilog = %s, text %s)" % (
                    w["id"], r["simulator"], r["text"]))
    for fid, what, rep, detail in memory_findings():
        n += 1
        if rep:
            reproduced.append(fid)
        else:
            ctx.cov.notes.append("finding witness %s no longer reproduces" % fid)
    ctx.cov.add_cases("corpus witnesses (%d findings reproduce)" % len(reproduced), n, n, exhaustive=True)
    ctx.reproduced = reproduced
    ctx.log("corpus: %d witnesses, findings that reproduce: %s" % (n, ", ".join(reproduced)))


def correspond(ctx):
    dis = []
    quick = ctx.tier == "quick"
    corpus_run(ctx, dis)
    lowering_arith(ctx, 3000 if quick else 30000, dis)
    l1_negative_positions(ctx, dis)
    array_index_tie(ctx, dis)
    if len(dis) <= 10:
        l1_random(ctx, 1500 if quick else 12000, dis)
    if len(dis) <= 10:
        l2_random(ctx, 90 if quick else 900, 40 if quick else 120, dis)
    if len(dis) <= 10:
        l2_option_variants(ctx, 18 if quick else 90, 30 if quick else 100, dis)
    if len(dis) <= 10:
        l2_cores(ctx, 250 if quick else 2500, dis)
    if len(dis) <= 10:
        l2_cores_sim(ctx, 60 if quick else 150, dis, 4 if quick else 1)
    if len(dis) <= 10:
        l3_memories(ctx, 300 if quick else 3000, dis)
    if len(dis) <= 10:
        mem_lean_tie(ctx, 120 if quick else 1500, dis)
    if len(dis) <= 10:
        memn_lean_tie(ctx, 100 if quick else 1500, dis)
    if len(dis) <= 10:
        run_simulation_tie(ctx, 14 if quick else 140, 10 if quick else 100, 50 if quick else 120, dis)
    # independent golden reading (also the failing-input oracle): must accept the unchanged tree
    t0 = time.time()
    n1, bad1 = oracle_expressions(ctx.rng, 1000 if quick else 10000)
    n2, bad2 = oracle_modules(ctx.rng, 40 if quick else 400, 40)
    ctx.cov.add_cases("independent golden reading (python) of the real text vs real Evaluator, safe domain",
                      n1 + n2, n1 + n2, exhaustive=False)
    ctx.log("golden reading: %d expression cases, %d module cycles, %.1fs" % (n1, n2, time.time() - t0))
    n3, bad3 = instance_text_check(ctx.rng, 60 if quick else 600, ctx.lean)
    ctx.cov.add_cases("Instance text (instance.py) vs the Instance items: names, order, parameter values, port connections "
                      "evaluated against the real Evaluator", n3, n3, exhaustive=False)
    bad4 = None
    n4 = 0
    for rc in (True, False):
        c4, b4 = platform_glue_case(ctx.rng, 60 if quick else 600, rc)
        n4 += c4
        bad4 = bad4 or b4
    ctx.cov.add_cases("design converted through SimPlatform.get_verilog (platform ios, sim overrides, both comb emitters)",
                      n4, n4, exhaustive=False)
    n6, bad6 = systask_text_check(ctx.rng, 6 if quick else 40, 40)
    ctx.cov.add_cases("Display/Finish statements and the hierarchy block: real simulator vs independent reading of the text "
                      "(%d displayed lines compared, %d runs ended by Finish)" % (systask_text_check.lines, systask_text_check.finishes),
                      n6, n6, exhaustive=False)
    if bad6 is not None:
        dis.append(Dis("golden-oracle", **bad6))
    n5 = platform_glue_lean(ctx, 60 if quick else 600, dis)
    ctx.cov.add_cases("design converted through SimPlatform.get_verilog, both comb emitters, Lean tie", n5, n5, exhaustive=False)
    ctx.log("instances: %d checked; platform glue: %d cycles (golden reading) + %d (Lean tie)" % (n3, n4, n5))
    for bad in (bad1, bad2, bad3, bad4):
        if bad is not None:
            dis.append(Dis("golden-oracle", **bad))
    ctx.rule = ("L1: one case = one (expression, valuation) evaluated by the real Evaluator, Lean evalF and Lean evalV "
                "on the real text; non-trivial = Fits holds (the theorem applies and equality was checked). "
                "L2: one case = one clock cycle of a module with all signals compared three ways.")
    ctx.extra_trusted = ["IEEE 1364-2005 expression/assignment/always-block semantics as formalised in "
                         "lean/LitexModel/Verilog/{Expr,Stmt}.lean (no Verilog simulator in the sandbox)",
                         "harness/c01lib.py: FHDL serialiser and parser of the emitted Verilog subset"]
    return dis


# ----------------------------------------------------------------------------------------------------------
# Independent oracle (no Lean model involved): real Evaluator vs the golden reading of the real text
# ----------------------------------------------------------------------------------------------------------

def oracle_expressions(rng, n_expr, log=None):
    """Safe-domain expressions: real `_generate_expression` text read by harness/c01lib.v_eval vs the real
    Evaluator.  Returns (cases evaluated, first failing input or None)."""
    n = 0
    for k in range(n_expr):
        wide = k % 8 == 7
        us = make_sigs(rng, rng.randint(2, 3), maxw=rng.choice([33, 40, 65]) if wide else rng.choice([3, 5, 8]), p_signed=0.0, prefix="u")
        ss = make_sigs(rng, rng.randint(0, 2), maxw=rng.choice([34, 64]) if wide else rng.choice([3, 5]), p_signed=1.0, prefix="t")
        sigs = us + ss
        g = L.SafeGen(rng, us, ss)
        e = g.top(rng.randint(1, 3))
        if len(e) > (400 if wide else 40):
            continue
        ids = SigIds()
        for s in sigs:
            ids.get(s)
        ns = FlatNS(ids)
        try:
            text, _ = _generate_expression(ns, e)
            tree, _ = L.build_vtree(parse_vexpr(text, ns.names()))
            L.v_size(tree)
        except (L.ParseError, L.Unsupported, TypeError) as ex:
            return n, {"oracle": "golden-reading", "text": None, "error": repr(ex)}
        used = used_signals(e)
        envs, _ = expr_envs(rng, sigs, used, max_exh_bits=9, nrand=40)
        lw = rng.choice([33, 64, 100]) if wide else rng.choice([1, 3, 8, 12, 20])
        ev = Evaluator([], {})
        for env in envs:
            ev.signal_values = {s: v for s, v in zip(sigs, env)}
            real = truncate(ev.eval(e), lw, False)
            benv = {i: v & ((1 << s.nbits) - 1) for i, (s, v) in enumerate(zip(sigs, env))}
            gold = L.v_assign_value(tree, benv, lw)
            n += 1
            if real != gold:
                return n, {"oracle": "golden-reading", "verilog_text": text, "target_width": lw,
                           "replay": {"kind": "expr", "sigs": [[s.nbits, bool(s.signed)] for s in sigs],
                                      "expr": dump_ast(e, sigs), "lw": lw, "env": list(env)},
                           "signals": {"s%d" % i: {"width": s.nbits, "signed": s.signed, "value": v}
                                       for i, (s, v) in enumerate(zip(sigs, env))},
                           "simulator_stores": real, "verilog_stores": gold,
                           "what": "an expression without any intermediate-overflow site is stored differently by "
                                   "the real Evaluator and by the emitted Verilog text (IEEE 1364 reading)"}
    return n, None


def safe_module(rng, maxw=6, sim_variant=False):
    """Tame module: every site fits statically, so text and simulator must agree on every cycle.  Unsigned
    registers/comb signals (some wider than 32/64 bits), optional signed inputs, one or two clock domains."""
    from migen import Module, ClockDomain, Signal
    m = Module()
    m.clock_domains.cd_sys = ClockDomain("sys")
    doms = ["sys"]
    if rng.random() < 0.4:
        m.clock_domains.cd_b = ClockDomain("b")
        doms.append("b")
        if rng.random() < 0.4:
            m.clock_domains.cd_c = ClockDomain("c")
            doms.append("c")
    if rng.random() < 0.15:
        maxw = rng.choice([33, 40, 65])
    ins = make_sigs(rng, rng.randint(2, 3), maxw=maxw, prefix="i", p_signed=0.0)
    sins = make_sigs(rng, rng.randint(1, 2), maxw=min(maxw, 6), prefix="t", p_signed=1.0) if rng.random() < 0.5 else []
    regs = []
    for k in range(rng.randint(1, 4)):
        w = rng.randint(1, maxw)
        regs.append(Signal(w, name_override="r%d" % k, reset=rng.choice([0, 1, rng.randrange(1 << w)])))
    combs = []
    readable = ins + regs
    for k in range(rng.randint(1, 2)):
        c = Signal(rng.randint(1, maxw), name_override="c%d" % k)
        g = L.SafeGen(rng, list(readable), list(sins), complex_slices=True)
        sg = L.StmtGen(rng, SafeAdapter(g))
        m.comb += sg.stmts([c], rng.randint(0, 2))
        combs.append(c)
        readable = readable + [c]
    if rng.random() < 0.6:
        # one comb group driving 2-3 signals from shared If/Case structure, with later overrides of single targets
        multi = [Signal(rng.randint(1, maxw), name_override="d%d" % k, reset=rng.choice([0, 1]))
                 for k in range(rng.randint(2, 3))]
        g = L.SafeGen(rng, list(readable), list(sins), complex_slices=True)
        m.comb += L.multi_target_stmts(L.StmtGen(rng, SafeAdapter(g), allow_cat=not sim_variant), multi)
        combs += multi
        readable = readable + multi
    if rng.random() < 0.3:
        # a clock read as data (ClockSignal is lowered to the domain's clk signal by convert)
        from migen.fhdl.structure import ClockSignal
        ck = Signal(name_override="ckd")
        m.comb += ck.eq(ClockSignal(rng.choice(doms)) ^ ins[0][0])
        combs.append(ck)
    g = L.SafeGen(rng, list(readable), list(sins), complex_slices=True)
    sg = L.StmtGen(rng, SafeAdapter(g))
    # every register is driven from exactly one clock domain
    dom_of = [rng.choice(doms) for _ in regs]
    for d in doms:
        rs = [r_ for r_, dn in zip(regs, dom_of) if dn == d]
        if rs:
            getattr(m.sync, d).__iadd__(sg.stmts(rs, rng.randint(1, 2)))
    # registers (`output reg` ports carry their `= reset` initialiser) and comb signals as ports
    ios = set(ins) | set(sins) | set(combs) | set(regs)
    for d in doms:
        cd = getattr(m, "cd_" + d)
        ios |= {cd.clk, cd.rst}
    return m, ios


class SafeAdapter:
    """Gives SafeGen the interface StmtGen expects from ExprGen."""
    tame = True

    def __init__(self, g):
        self.g = g

    def gen(self, depth):
        return self.g.top(max(1, depth))

    def boolean(self, depth):
        # If / Elif conditions: 0/1-valued, or (25 %) a wide operand whose simulator value is negative (`~x`, a signed
        # signal): Evaluator.execute masks it to its width, the text tests the self-determined value
        if self.g.rng.random() < 0.25:
            return self.g.negword(max(1, depth))
        return self.g.boolean(depth, True)

    def atom(self):
        return self.g.atom()

    def case_test(self):
        """Test of a Case: an atom, `~atom` (unbounded value negative: the simulator truncates the test to its
        declared width, Verilog evaluates it in that width — the keys are narrower), or a signed signal."""
        r = self.g.rng
        if self.g.s and r.random() < 0.25:
            return r.choice(self.g.s)
        a = self.g.atom()
        if r.random() < 0.4:
            from migen.fhdl.structure import _Operator
            return _Operator("~", [a])
        return a

    def case_keys(self, test):
        """Keys the test can take (a key outside the test's range never matches in the simulator but its bit
        pattern may in Verilog: outside the property); negative keys for signed tests."""
        from migen.fhdl.bitcontainer import value_bits_sign
        r = self.g.rng
        n, sg = value_bits_sign(test)
        if sg:
            lo, hi = max(-(1 << (n - 1)), -8), min((1 << (n - 1)) - 1, 7)
        else:
            lo, hi = 0, (1 << min(n, 4)) - 1
        pool = list(range(lo, hi + 1))
        return r.sample(pool, k=min(r.randint(1, 4), len(pool)))

    def array_key(self):
        return self.g.array_key()


def run_safe_module(seed, cycles, rng=None, trace=None, ticks=None):
    """One safe module (deterministic in `seed`): the real simulator on the ORIGINAL design vs the golden reading
    (PyVSim) of the text the real convert emitted.  Every 4th seed uses the simulation-flavoured comb emitter
    (`convert(regular_comb=False)`, what the LiteX sim platform asks for).  Clock domains tick independently.
    Returns (cycles run, failing input or None, skipped: bool)."""
    from migen.fhdl.tools import list_targets
    from c01lib import Netlist
    kw = {"regular_comb": False} if seed % 4 == 3 else {}
    if seed % 8 == 5:
        # no initialisers in the text: a reg powers up X in Verilog; the reader starts it at the simulator's reset
        # value (the property speaks of the declared reset/initial state), everything else is compared as usual
        kw = {"regs_init": False}

    def build():
        r = random.Random(seed)
        m, ios = safe_module(r, sim_variant=bool(kw))
        f = m.get_fragment()
        return f, sorted(ios, key=lambda s: s.duid), [cd.name for cd in f.clock_domains]
    fA, iosA, cdsA = build()
    fB, iosB, cdsB = build()
    try:
        cap = L.convert_capture(fB, iosB, **kw)
        ids, sigs, groups, secs = L.ser_module(cap)
        name_ids = {cap.ns.get_name(s): ids.get(s) for s in sigs}
        mt = L.parse_module(cap.text, name_ids)
        if mt.unsupported:
            return 0, None, True
        pv = L.PyVSim(mt, name_ids)
        if kw.get("regs_init") is False:
            for nm, d_ in mt.decls.items():
                if d_["kind"] in ("r", "or") and d_["init"] is None:
                    sg_ = sigs[name_ids[nm]]
                    pv.state[name_ids[nm]] = sg_.reset.value & ((1 << sg_.nbits) - 1)
    except (L.ParseError, L.Unsupported, KeyError, IndexError, TypeError) as ex:
        return 0, {"oracle": "golden-module", "error": repr(ex), "seed": seed,
                   "what": "the text emitted for a safe module cannot be read"}, False
    nl = Netlist(fA, clocks=tuple(cdsA))
    drv, in_region = pv.driver_report()
    if drv is not None and not in_region:
        # (hits inside the region of the open finding C01-sim-backend-cat-target are classified under it, see probes())
        t0 = cap.text
        drv.update(oracle="golden-module", seed=seed, cycle=0, convert_options=kw,
                   replay={"kind": "safe-module", "seed": seed, "trace": [], "ticks": []},
                   verilog_text=t0[t0.index("module"):][:3000])
        return 0, drv, False
    und = pv.undriven_report()
    if und is not None:
        nl.settle()
        t0 = cap.text
        und.update(oracle="golden-module", seed=seed, cycle=0, convert_options=kw,
                   replay={"kind": "safe-module", "seed": seed, "trace": [], "ticks": []},
                   simulator_holds={nm: nl.getu(iosA[j]) for j, sg in enumerate(iosB)
                                    for nm in [cap.ns.get_name(sg)] if nm in pv.undriven},
                   verilog_text=t0[t0.index("module"):][:3000])
        return 0, und, False
    targets = list_targets(cap.f)
    cds = [cd.name for cd in cap.f.clock_domains]
    clks = [cd.clk for cd in cap.f.clock_domains]
    in_idx = [j for j, s in enumerate(iosB) if s not in targets and not any(s is c for c in clks)]
    out_idx = [j for j, s in enumerate(iosB) if s in targets]
    rsts = [cd.rst for cd in cap.f.clock_domains if cd.rst is not None]
    replaying = trace is not None
    trace = trace if replaying else []
    ticks = ticks if replaying else []
    prev = None
    n = 0
    for t in range(len(trace) if replaying else cycles):
        if replaying:
            vals, tick = trace[t], ticks[t]
        else:
            vals = stimulus(rng, [iosB[j] for j in in_idx], rsts, prev, t)
            tick = [d for d in cds if len(cds) == 1 or rng.random() < 0.65]
            trace.append(vals)
            ticks.append(tick)
        prev = vals
        for j, v in zip(in_idx, vals):
            nl.set(iosA[j], v)
            pv.state[ids.get(iosB[j])] = v & ((1 << iosB[j].nbits) - 1)
        nl.settle()
        pv.settle()
        n += 1
        for j in out_idx:
            a = nl.getu(iosA[j])
            b = pv.state[ids.get(iosB[j])]
            if a != b:
                t0 = cap.text
                return n, {"oracle": "golden-module", "seed": seed, "cycle": t, "port": cap.ns.get_name(iosB[j]),
                           "replay": {"kind": "safe-module", "seed": seed, "trace": trace, "ticks": ticks},
                           "simulator": a, "verilog": b, "convert_options": kw,
                           "inputs": [cap.ns.get_name(iosB[j2]) for j2 in in_idx], "trace": trace,
                           "ticking_domains_per_cycle": ticks,
                           "verilog_text": t0[t0.index("module"):][:3000],
                           "what": "the real simulator on the design and the IEEE-1364 reading of the emitted "
                                   "text differ on a port (no intermediate-overflow site in this module)"}, False
        nl.tick(tuple(tick))
        pv.tick({ids.get(c) for c, d in zip(clks, cds) if d in tick})
    return n, None, False


# ----------------------------------------------------------------------------------------------------------
# Tie to the real `run_simulation` (Simulator.run / TimeManager / generator processing): the simulation users run
# ----------------------------------------------------------------------------------------------------------

def edge_schedule(desc, n_instants):
    """Instants of a clock description {name: (period, phase)} (even periods, 0 <= phase < period/2), derived from
    the description alone: clock `name` is low at t = 0, rises at every t > 0 with t = period/2 - phase (mod period)
    and falls period/2 later.  Returns [(t, rising names (sorted), falling names (sorted), levels after the instant)]."""
    ev = {}
    horizon = (n_instants + 2) * max(p for p, _ in desc.values())
    for name, (period, phase) in desc.items():
        assert period % 2 == 0 and 0 <= phase < period // 2
        t = period // 2 - phase
        while t <= horizon:
            ev.setdefault(t, (set(), set()))[0].add(name)
            ev.setdefault(t + period // 2, (set(), set()))[1].add(name)
            t += period
    level = {name: 0 for name in desc}
    out = []
    for t in sorted(ev)[:n_instants]:
        r_, f_ = ev[t]
        for nm in r_:
            level[nm] = 1
        for nm in f_:
            level[nm] = 0
        out.append((t, sorted(r_), sorted(f_), dict(level)))
    return out


def random_clock_desc(rng, doms, with_tb):
    """1-3 design domains (+ a test-bench clock): different periods and phases, rising edges mostly NOT coincident."""
    desc = {}
    for d in list(doms) + (["tb"] if with_tb else []):
        period = rng.choice([4, 6, 10, 10, 14, 20])
        desc[d] = (period, rng.randrange(0, period // 2))
    return desc


def run_simulation_case(seed, n_instants, kind, lean=None):
    """One module (deterministic in `seed`), simulated by the REAL `run_simulation` with generators — a driver on
    one clock writing the inputs, one passive sampler per clock reading every named signal — and, with the edge
    schedule derived independently from the clock description (`edge_schedule`), by
      kind="safe": the independent reading (PyVSim) of the text the real convert emitted (safe module);
      kind="lean": Lean stepF (all named signals, every instant) and stepV on the real text (random module).
    A sample taken by the generator of clock d at its k-th rising edge is the settled state BEFORE that instant.
    Returns (instants compared, failing input or None)."""
    from migen.fhdl.tools import list_signals, list_targets
    from litex.gen.sim.core import run_simulation
    r0 = random.Random(seed)

    def build():
        r = random.Random(seed)
        if kind == "safe":
            m, ios = safe_module(r)
        else:
            m, ios = L.random_module(r, maxw=r.choice([3, 5, 9]), tame=(seed % 3 != 0))
        return m, sorted(ios, key=lambda s: s.duid)
    mA, iosA = build()
    mB, iosB = build()
    fB = mB.get_fragment()
    doms = [cd.name for cd in fB.clock_domains]
    rr = random.Random(seed ^ 0x5a5a)
    desc = random_clock_desc(rr, doms, with_tb=rr.random() < 0.5)
    driver_dom = "tb" if "tb" in desc else rr.choice(doms)
    sched = edge_schedule(desc, n_instants)
    # ---- text side
    try:
        cap = L.convert_capture(fB, iosB)
        ids, sigs, groups, secs = L.ser_module(cap)
        name_ids = {cap.ns.get_name(s): ids.get(s) for s in sigs}
        mt = L.parse_module(cap.text, name_ids)
        if mt.unsupported or (kind == "lean" and mt.blocking):
            return 0, None
        pv = L.PyVSim(mt, name_ids) if kind == "safe" else None
        items, decls = L.ser_vmodule(mt, name_ids) if kind == "lean" else (None, None)
    except (L.ParseError, L.Unsupported) as ex:
        return 0, None
    f = cap.f
    targets = list_targets(f)
    clkB = {cd.name: cd.clk for cd in f.clock_domains}
    in_idx = [j for j, s in enumerate(iosB) if s not in targets and not any(s is c for c in clkB.values())]
    rstsB = [cd.rst for cd in f.clock_domains if cd.rst is not None]
    # ---- real run_simulation on build A
    fA = mA.get_fragment()
    named = {s.name_override: s for s in list_signals(fA) if s.name_override}
    for cd in fA.clock_domains:
        named[cd.clk.name_override] = cd.clk
        if cd.rst is not None:
            named[cd.rst.name_override] = cd.rst
    obs_names = sorted(n_ for n_ in named if n_ in name_ids)
    obs_sigs = [named[n_] for n_ in obs_names]
    samples = {d: [] for d in desc}
    n_drv = sum(1 for _, r_, _, _ in sched if driver_dom in r_)
    writes = []
    prev = [None]

    def driver():
        for k in range(n_drv):
            vals = stimulus(rr, [iosB[j] for j in in_idx], rstsB, prev[0], k)
            prev[0] = vals
            writes.append(vals)
            for j, v in zip(in_idx, vals):
                yield iosA[j].eq(v)
            yield

    def sampler(d):
        def gen():
            yield "passive"
            while True:
                vals = yield obs_sigs
                samples[d].append(vals)
                yield
        return gen()
    gens = {d: [sampler(d)] for d in desc}
    gens[driver_dom] = [sampler(driver_dom), driver()]     # sample first, then drive
    try:
        run_simulation(fA, gens, clocks={d: (p, ph) if ph else p for d, (p, ph) in desc.items()})
    except Exception as ex:
        return 0, {"oracle": "run_simulation", "seed": seed, "kind": kind, "clocks": desc, "error": repr(ex)[:300],
                   "what": "the real run_simulation raises on a generated module"}
    # ---- reference run with the independent schedule: cycle n = [apply the inputs written at the previous driver
    #      edge and the clock levels, settle, observe = state before instant n, rising edges of instant n]
    cur = {j: iosB[j].reset.value for j in in_idx}      # until the driver's first write: the reset values
    level = {d: 0 for d in desc}
    wk = 0
    ref = []          # per instant: dict name -> value (bits) or Lean line parts
    cyc_lines = []
    rise_count = {d: 0 for d in desc}
    checks = []       # (instant index, domain, sample index)
    for n, (t, r_, f_, lev) in enumerate(sched):
        if kind == "safe":
            for j in in_idx:
                pv.state[ids.get(iosB[j])] = cur[j] & ((1 << iosB[j].nbits) - 1)
            for d, c in clkB.items():
                pv.state[ids.get(c)] = level.get(d, 0)
            pv.settle()
            ref.append({n_: pv.state[name_ids[n_]] for n_ in obs_names})
            pv.tick({ids.get(clkB[d]) for d in r_ if d in clkB})
        else:
            tclks = [clkB[d] for d in r_ if d in clkB]
            vals = [cur[j] for j in in_idx] + [level.get(d, 0) for d in clkB]
            cyc_lines.append("%d %s %s" % (len(tclks), " ".join(str(ids.get(c)) for c in tclks), " ".join(map(str, vals))))
        for d in r_:
            checks.append((n, d, rise_count[d]))
            rise_count[d] += 1
        if driver_dom in r_ and wk < len(writes):
            for j, v in zip(in_idx, writes[wk]):
                cur[j] = v
            wk += 1
        level = dict(lev)
    sigsB_by_name = {cap.ns.get_name(s): s for s in sigs}
    if kind == "lean":
        ins_ids = [ids.get(iosB[j]) for j in in_idx] + [ids.get(c) for c in clkB.values()]
        obs_ids = [name_ids[n_] for n_ in obs_names]
        line = "sim %d ; %s ; %s ; %s ; %s ; %s ; %s ; %s ; %s ; %s" % (
            64, " ".join(secs["sigs"]), " ".join(secs["comb"]), " ".join(secs["sync"]), " ".join(items), " ".join(decls),
            " ".join([str(len(cap.ios))] + [str(ids.get(s)) for s in sorted(cap.ios, key=lambda s: s.duid)]),
            " ".join([str(len(ins_ids))] + list(map(str, ins_ids))),
            " ".join([str(len(obs_ids))] + list(map(str, obs_ids))), " ; ".join(cyc_lines))
        ans = lean.call_batch([line])[0]
        if ans.startswith("bad"):
            return 0, {"oracle": "run_simulation", "seed": seed, "kind": kind, "what": "Lean driver rejects the module", "answer": ans[:100]}
        parts = ans.split(" ; ")
        lean_rows = []
        for p_ in parts[1:]:
            body, _, nf = p_.partition("!")
            ws = body.split()
            lean_rows.append((int(ws[0]), ws[1] == "1", [int(x) for x in ws[2:]]))
    compared = 0
    for n, d, k in checks:
        if k >= len(samples[d]):
            continue
        samp = samples[d][k]
        compared += 1
        for i_, n_ in enumerate(obs_names):
            sB = sigsB_by_name[n_]
            if any(sB is c for c in clkB.values()) and False:
                continue
            real = samp[i_]
            if kind == "safe":
                want = ref[n][n_]
                same = (real & ((1 << sB.nbits) - 1)) == want
            else:
                want = lean_rows[n][2][i_]
                same = real == want
            if not same:
                return compared, {
                    "oracle": "run_simulation vs " + ("independent reading of the emitted text" if kind == "safe" else "Lean stepF"),
                    "seed": seed, "kind": kind, "clocks": desc, "driver_clock": driver_dom,
                    "replay": {"kind": "run-simulation", "seed": seed, "case": kind, "instants": n_instants},
                    "instant": n, "time": sched[n][0], "rising": sched[n][1], "sampled_by_clock": d, "signal": n_,
                    "run_simulation": int(real), "expected_before_this_instant": int(want),
                    "schedule": [(t_, r2, f2) for t_, r2, f2, _ in sched[:n + 1]][-8:],
                    "inputs": [cap.ns.get_name(iosB[j]) for j in in_idx], "writes_at_driver_edges": writes[:wk][-6:],
                    "what": "a signal sampled by a generator of the real run_simulation differs from the state the "
                            "design must be in before that instant (edge schedule derived from the clock description)"}
    if kind == "lean":
        # stepV on the real text vs stepF under the same schedule: the module theorem's claim
        prev_fits = True
        for n, (mism, fits, _) in enumerate(lean_rows):
            if mism and fits and prev_fits:
                return compared, {"oracle": "run_simulation schedule: Lean stepV(real text) vs stepF", "seed": seed,
                                  "kind": kind, "clocks": desc, "instant": n, "signal": cap.ns.get_name(sigs[mism - 1]),
                                  "what": "all side conditions hold but stepV (real text) and stepF differ"}
            prev_fits = fits
    return compared, None


def run_simulation_tie(ctx, n_safe, n_lean, n_instants, dis):
    tot = dict(safe=0, lean=0, instants=0)
    for kind, n_mod in (("safe", n_safe), ("lean", n_lean)):
        for k in range(n_mod):
            seed = ctx.rng.randrange(1 << 30)
            try:
                c, bad = run_simulation_case(seed, n_instants, kind, ctx.lean)
            except Exception as ex:
                traceback.print_exc()
                c, bad = 0, {"oracle": "run_simulation", "seed": seed, "kind": kind, "error": repr(ex)[:300],
                             "what": "exception in the run_simulation tie (seed reproduces it)"}
            tot[kind] += 1 if c else 0
            tot["instants"] += c
            if bad is not None:
                dis.append(Dis("run-simulation", **{("case" if k_ == "kind" else k_): v_ for k_, v_ in bad.items()}))
                ctx.sim_tie_bad = bad
                break
    ctx.cov.add_cases("real run_simulation (generators, 1-3 clocks + test-bench clock, different periods/phases) vs the "
                      "independent reading of the text / Lean stepF+stepV under an independently derived edge schedule",
                      tot["instants"], tot["instants"], exhaustive=False)
    ctx.log("run_simulation tie: %s" % tot)


def oracle_modules(rng, n_mod, cycles):
    """Safe-domain modules, see run_safe_module.  Returns (cycles, first failing input or None)."""
    n = 0
    skipped = 0
    for k in range(n_mod):
        seed = rng.randrange(1 << 30)
        try:
            c, bad, skip = run_safe_module(seed, cycles, rng)
        except Exception as ex:      # a changed printer/simulator that crashes or never settles on a safe module
            return n, {"oracle": "golden-module", "seed": seed, "error": repr(ex)[:300],
                       "what": "exception while converting / simulating a safe module (seed reproduces it)"}
        n += c
        skipped += 1 if skip else 0
        if bad is not None:
            return n, bad
    if n_mod >= 20 and skipped * 4 > n_mod:
        return n, {"oracle": "golden-module", "what": "%d of %d safe modules produce text outside the readable subset"
                   % (skipped, n_mod)}
    return n, None


def oracle_core(rng, name, mk, cycles=600):
    """Real core: the real simulator on the original design vs the golden reading (PyVSim) of the text the real
    convert emitted, ports, every cycle.  (Not part of `correspond`: cores with a listed, reachable intermediate-
    overflow site diverge legitimately; used by `search` to turn a NEW site into a concrete failing input.)"""
    from migen.fhdl.tools import list_targets, list_special_ios
    from c01lib import Netlist
    fA, iosA, cdsA = L.prepare(mk())
    fB, iosB, cdsB = L.prepare(mk())
    cap = L.convert_capture(fB, iosB)
    sigs = L.module_signals(cap)
    ids = SigIds()
    for s_ in sigs:
        ids.get(s_)
    name_ids = {cap.ns.get_name(s_): ids.get(s_) for s_ in sigs}
    mt = L.parse_module(cap.text, name_ids)
    if mt.unsupported:
        return None
    pv = L.PyVSim(mt, name_ids)
    nl = Netlist(fA, clocks=tuple(cdsA))
    f = cap.f
    targets = list_targets(f) | list_special_ios(f, ins=False, outs=True, inouts=True)
    clks = [cd.clk for cd in f.clock_domains]
    rsts = [cd.rst for cd in f.clock_domains if cd.rst is not None]
    in_idx = [k for k, s_ in enumerate(iosB) if s_ not in targets and not any(s_ is c for c in clks)]
    out_idx = [k for k, s_ in enumerate(iosB) if s_ in targets]
    prev, trace = None, []
    for t in range(cycles):
        vals = stimulus(rng, [iosB[k] for k in in_idx], rsts, prev, t)
        prev = vals
        trace.append(vals)
        for k, v in zip(in_idx, vals):
            nl.set(iosA[k], v)
            pv.state[ids.get(iosB[k])] = v & ((1 << iosB[k].nbits) - 1)
        nl.settle()
        pv.settle()
        for k in out_idx:
            a, b = nl.getu(iosA[k]), pv.state[ids.get(iosB[k])]
            if a != b:
                return {"oracle": "golden-module (real core)", "module": name, "cycle": t, "port": cap.ns.get_name(iosB[k]),
                        "simulator": a, "verilog": b, "inputs": [cap.ns.get_name(iosB[j]) for j in in_idx],
                        "trace": trace[-8:],
                        "what": "the real simulator on the core and the IEEE-1364 reading of the text emitted for it "
                                "differ on a port"}
        nl.tick(tuple(cdsA))
        pv.tick({ids.get(c) for c in clks})
    return None


def search(ctx, disagreements, proof_info):
    """Failing-input search with oracles that do not use the Lean model: (1) the golden reading of the real
    text vs the real Evaluator on expressions / modules without overflow sites; (2) if that finds nothing, a
    correspondence disagreement that is itself a concrete semantic difference (values on a valuation)."""
    rng = random.Random(ctx.seed + 77)
    stb = getattr(ctx, "sim_tie_bad", None)
    if stb is not None and stb.get("kind") == "safe":
        return stb
    if any(d.to_json()["kind"] == "run-simulation" for d in disagreements):
        for k in range(80):
            try:
                c, bad = run_simulation_case(rng.randrange(1 << 30), 60, "safe")
            except Exception as ex:
                bad = {"oracle": "run_simulation", "error": repr(ex)[:300]}
            if bad is not None:
                return bad
    # the model of the simulator and the real Evaluator part on an expression: look for a design + stimulus on which
    # the property itself fails, starting from the very expression / valuation of the disagreement
    seen = 0
    for d in disagreements:
        j = d.to_json()
        if j["kind"] in ("evalF", "storeF") and "expr" in j and seen < 6:
            seen += 1
            try:
                bad = search_eval_witness(ctx, j, rng)
            except Exception:
                bad = None
            if bad is not None:
                return bad
    n1, bad = oracle_expressions(rng, 3000)
    if bad is None:
        n2, bad = oracle_modules(rng, 150, 40)
    if bad is None:
        for name, mk in memory_builders("thorough"):
            try:
                n3, bad, status = run_memory_case(rng, name, mk, 1500)
            except Exception as ex:
                bad = {"oracle": "golden-module (memory)", "module": name, "error": repr(ex)[:300]}
            if bad is not None:
                break
    if bad is not None:
        return bad
    # a new overflow site in a real core: look for a reachable divergence on that core
    builders = dict(core_builders("thorough"))
    for name in sorted({d.to_json().get("module") for d in disagreements if d.to_json()["kind"] == "new-overflow-site"}):
        if name in builders:
            try:
                bad = oracle_core(rng, name, builders[name])
            except Exception as ex:
                bad = None
            if bad is not None:
                bad["new_sites"] = [d.to_json()["site"] for d in disagreements
                                    if d.to_json()["kind"] == "new-overflow-site" and d.to_json().get("module") == name][:4]
                return bad
    # a slice the real lowerer resolves differently from the model: look for a valuation on which `y.eq(slice)`
    # is simulated and printed differently
    for d in disagreements:
        j = d.to_json()
        if j["kind"] == "lowering-arith" and "witness" in j:
            bad = search_slice_witness(ctx, j["witness"], rng)
            if bad is not None:
                return bad
    for d in disagreements:
        j = d.to_json()
        if j["kind"] in ("lowering",):
            return j
    return None


def ast_selfdet_safe(a, sigs):
    """Independent (model-free) structural sufficient condition, on a dumped AST: the node's Migen width is the
    self-determined width of its text and its bit pattern in that width is the same on both sides - signals,
    constants in range, slices of signals, `~`/bitwise/comparison/Mux/Cat/Replicate of such nodes, `-s` of a signed
    signal.  No `+ - * <<< >>>` (Migen widens, Verilog keeps the operand width)."""
    k = a[0]
    if k == "sig":
        return True
    if k == "const":
        v, w, sg = a[1], a[2], a[3]
        return w > 0 and ((-(1 << (w - 1)) <= v < (1 << (w - 1))) if sg else (0 <= v < (1 << w)))
    if k == "slice":
        return a[1][0] == "sig" and 0 <= a[2] < a[3] <= sigs[a[1][1]][0]
    if k in ("cat",):
        return len(a) > 1 and all(ast_selfdet_safe(x, sigs) for x in a[1:])
    if k == "rep":
        return a[2] >= 1 and ast_selfdet_safe(a[1], sigs)
    if k == "mux":
        return all(ast_selfdet_safe(x, sigs) for x in a[1:])
    if k == "op":
        op, args = a[1], a[2:]
        if op == "~" or op in ("&", "|", "^", "<", "<=", "==", "!=", ">", ">="):
            return all(ast_selfdet_safe(x, sigs) for x in args)
        if op == "-" and len(args) == 1:
            return args[0][0] == "sig" and sigs[args[0][1]][1]
    return False


def ast_top_safe(a, sigs):
    """Right-hand side of `y.eq(...)`: ring operators (+ - * unary - ~ & | ^, `<<<` by a small constant) over
    self-determined-safe operands are exact modulo 2^len(y) on both sides."""
    if ast_selfdet_safe(a, sigs):
        return True
    if a[0] == "op":
        op, args = a[1], a[2:]
        if op in ("+", "-", "*", "&", "|", "^", "~"):
            return all(ast_top_safe(x, sigs) for x in args)
        if op in ("<<<", "<<") and args[1][0] == "const" and 0 <= args[1][1] <= 8 and not args[1][3]:
            return ast_top_safe(args[0], sigs)
    return False


def ast_subtrees(a):
    yield a
    if a[0] in ("op",):
        for x in a[2:]:
            yield from ast_subtrees(x)
    elif a[0] in ("mux", "cat"):
        for x in a[1:]:
            yield from ast_subtrees(x)
    elif a[0] in ("slice", "rep"):
        yield from ast_subtrees(a[1])


def search_eval_witness(ctx, j, rng, tries=60):
    """A disagreement between the Lean model of the simulator (evalF/storeF) and the real Evaluator on an expression:
    turn it into a concrete design + stimulus on which the PROPERTY fails, without the Lean model - the smallest
    sub-expression `t` that is structurally overflow-free (`ast_top_safe`) and for which `y.eq(t)`, converted by the
    real convert and read by the independent reader, differs from the real simulator on the design."""
    lean = ctx.lean
    ctx.lean = None
    try:
        sigs = j["sigs"]
        ranges = [range(-(1 << (n - 1)), 1 << (n - 1)) if sg else range(0, 1 << n) for n, sg in sigs]
        cands = [t for t in ast_subtrees(j["expr"]) if t[0] not in ("sig", "const") and ast_top_safe(t, sigs)]
        cands.sort(key=lambda t: len(json.dumps(t)))
        for t in cands[:12]:
            lw = max(1, min(64, 2 + sum(n for n, _ in sigs)))
            for k in range(tries):
                env = list(j["env"]) if k == 0 else [rng.choice([r_[0], r_[-1], rng.randrange(r_[0], r_[-1] + 1)]) for r_ in ranges]
                w = dict(id="search", kind="module", status="finding", what="", sigs=sigs, expr=t, lw=lw, env=env)
                try:
                    r = run_witness(ctx, w)
                except Exception as ex:
                    return {"oracle": "golden-module (expression)", "replay": {"kind": "module", "sigs": sigs, "expr": t, "lw": lw, "env": env},
                            "error": repr(ex)[:300], "what": "convert / simulation of y.eq(expression) fails"}
                if r["simulator"] != r["verilog"]:
                    return {"oracle": "golden-module (expression)",
                            "replay": {"kind": "module", "sigs": sigs, "expr": t, "lw": lw, "env": env},
                            "signals": {"s%d" % i: v for i, v in enumerate(env)}, "expression": t,
                            "simulator": r["simulator"], "verilog": r["verilog"], "verilog_text": r["text"],
                            "what": "y.eq(e) for an expression e without any intermediate-overflow site: the real "
                                    "simulator on the design and the reading of the emitted text differ"}
    finally:
        ctx.lean = lean
    return None


def search_slice_witness(ctx, wit, rng, tries=120):
    """`y.eq(<slice expression>)` through the real convert vs the real simulator on the original design."""
    lean = ctx.lean
    ctx.lean = None
    try:
        ranges = [range(-(1 << (n - 1)), 1 << (n - 1)) if sg else range(0, 1 << n) for n, sg in wit["sigs"]]
        for k in range(tries):
            env = [rng.choice([r_[0], r_[-1], rng.randrange(r_[0], r_[-1] + 1)]) for r_ in ranges]
            w = dict(wit, id="search", kind="module", status="finding", what="", env=env)
            try:
                r = run_witness(ctx, w)
            except Exception as ex:
                return {"oracle": "golden-module (slice)", "replay": {"kind": "module", **{k_: w[k_] for k_ in ("sigs", "expr", "lw", "env")}},
                        "error": repr(ex)[:300], "what": "convert / simulation of y.eq(slice) fails"}
            if r["simulator"] != r["verilog"]:
                return {"oracle": "golden-module (slice)", "replay": {"kind": "module", **{k_: w[k_] for k_ in ("sigs", "expr", "lw", "env")}},
                        "signals": {"s%d" % i: v for i, v in enumerate(env)}, "expression": wit["expr"],
                        "simulator": r["simulator"], "verilog": r["verilog"], "verilog_text": r["text"],
                        "what": "y.eq(slice of a Cat/Replicate): the real simulator on the design and the reading of "
                                "the emitted text differ"}
    finally:
        ctx.lean = lean
    return None


def candidate_probe_sim_cat_target():
    """Probe of the open finding C01-sim-backend-cat-target (called from probes()):
    convert(regular_comb=False) on `b.eq(0); Cat(a, b).eq(y); If(en, b.eq(z))`.  `_generate_combinatorial_logic_sim`
    keeps the Cat assignment for BOTH targets: for `a` it is the only statement, `_use_wire` holds and the text gets
    `assign {b, a} = y;` although `_list_comb_wires` (which works on group_by_targets groups) declared a and b `reg`
    - a continuous assignment to a reg (illegal Verilog) that also drives `b` a second time next to b's always block.
    Returns (still_fails, what)."""
    from migen import Module, Signal, If, Cat

    class DUT(Module):
        def __init__(self):
            self.y, self.z, self.en = Signal(8, name_override="y"), Signal(4, name_override="z"), Signal(name_override="en")
            self.a, self.b = Signal(4, name_override="a"), Signal(4, name_override="b")
            self.comb += [self.b.eq(0), Cat(self.a, self.b).eq(self.y), If(self.en, self.b.eq(self.z))]
    d = DUT()
    cap = L.convert_capture(d, [d.y, d.z, d.en, d.a, d.b], regular_comb=False)
    sigs = L.module_signals(cap)
    ids = SigIds()
    for s_ in sigs:
        ids.get(s_)
    name_ids = {cap.ns.get_name(s_): ids.get(s_) for s_ in sigs}
    mt = L.parse_module(cap.text, name_ids)
    regs = {name_ids[n_] for n_, dd in mt.decls.items() if dd["kind"] in ("r", "or")}
    drivers = {}
    bad_assign = False
    for k, it in enumerate(mt.items):
        if it[0] == "assign":
            # left-hand side: `i <id> w s` or `k <n>` followed by n such identifiers
            if it[1] == "i":
                tg = {int(it[2])}
            elif it[1] == "k":
                tg = {int(it[3 + 4 * j + 1]) for j in range(int(it[2])) if it[3 + 4 * j] == "i"}
            else:
                tg = set()
            if tg & regs:
                bad_assign = True
        else:
            tg = {ids.get(t) for t in (d.a, d.b) if (" i %d " % ids.get(t)) in (" " + " ".join(it) + " ")}
        for t in tg:
            drivers.setdefault(t, []).append(k)
    multi = sorted(t for t, l in drivers.items() if len(l) > 1)
    fails = bad_assign or bool(multi)
    return fails, ("convert(regular_comb=False): comb `Cat(a, b).eq(y)` sharing a target with other statements is emitted as "
                   "`assign {b, a} = y;` on signals declared reg and drives b from two processes "
                   "(continuous assignment to a reg: %s; multiply driven: %s)" % (bad_assign, multi))


def candidate_probe_array_negative_key():
    """Probe of C01-array-key-unmasked (reported to the runner once the id is listed in known_findings.json).  `Evaluator.eval`, `_ArrayProxy` branch: `idx = min(len(choices) - 1, eval(key))`
    does not reduce the key to its width.  A key whose simulator value is a negative Python int (`arr[~x]`, a signed
    key holding a negative value) indexes the Python list from the END (`choices[-2]`) or raises IndexError below
    -len, while the emitted text (`case (~x)` with `default:` = last element) selects by the key's bit pattern.
    Witness: arr = Array([1, 2, 4]); y.eq(arr[~x]), x 2 bit: x=1 -> simulator 2, Verilog 4; x=3 -> IndexError.
    One-line fix: mask the key: `self.eval(node.key, postcommit) & (2**len(node.key) - 1)`.
    The generators keep Array keys unsigned slices (never negative) so the correspondence stays outside this region.
    Returns (still_fails, what)."""
    from migen import Module, Signal, Array
    from c01lib import Netlist

    class D(Module):
        def __init__(self):
            self.x, self.y = Signal(2, name_override="x"), Signal(4, name_override="y")
            self.comb += self.y.eq(Array([Constant(1, 4), Constant(2, 4), Constant(4, 4)])[~self.x])
    out = []
    for xv in (1, 2, 3):
        dA, dB = D(), D()
        cap = L.convert_capture(dB, [dB.x, dB.y])
        sigs = L.module_signals(cap)
        ids = SigIds()
        for s_ in sigs:
            ids.get(s_)
        ni = {cap.ns.get_name(s_): ids.get(s_) for s_ in sigs}
        pv = L.PyVSim(L.parse_module(cap.text, ni), ni)
        pv.state[ids.get(dB.x)] = xv
        pv.settle()
        nl = Netlist(dA, clocks=())
        try:
            nl.set(dA.x, xv)
            nl.settle()
            sim = nl.getu(dA.y)
        except IndexError:
            sim = "IndexError"
        out.append((xv, sim, pv.state[ids.get(dB.y)]))
    fails = any(sim != ver for _, sim, ver in out)
    return fails, "Array([1,2,4])[~x], x 2 bit: (x, simulator, Verilog) = %s" % (out,)


def probes(ctx):
    """Replay the witness of every finding.  Only findings listed in known_findings.json are handed to the
    runner (an unlisted failing probe would be reported as a violation; the candidates are reported to the
    coordinator and recorded in the evidence notes until they are listed or fixed)."""
    out = []
    listed = {e.get("id") for e in ctx.known}
    lean = ctx.lean
    ctx.lean = None          # probes use the real code and the python golden reading only
    try:
        for w in load_witnesses():
            if w["status"] not in ("finding", "fixed"):
                continue
            try:
                r = run_witness(ctx, w)
                fails = r["simulator"] != r["verilog"]
                what = "%s: simulator stores %s, Verilog text %r stores %s" % (w["what"], r["simulator"], r["text"], r["verilog"])
            except Exception as ex:
                fails, what = True, "probe crashed: %r" % (ex,)
            if w["id"] in listed:
                out.append((w["id"], fails, what))
            elif fails:
                ctx.cov.notes.append("CANDIDATE-FINDING (not yet in known_findings.json) " + w["id"] + ": " + what)
        try:
            cfails, cwhat = candidate_probe_sim_cat_target()
        except Exception as ex:
            cfails, cwhat = True, "probe crashed: %r" % (ex,)
        if "C01-sim-backend-cat-target" in listed:
            out.append(("C01-sim-backend-cat-target", cfails, cwhat))
        elif cfails:
            ctx.cov.notes.append("CANDIDATE-FINDING (not yet in known_findings.json) C01-sim-backend-cat-target: " + cwhat)
        try:
            afails, awhat = candidate_probe_array_negative_key()
        except Exception as ex:
            afails, awhat = True, "probe crashed: %r" % (ex,)
        if "C01-array-key-unmasked" in listed:
            out.append(("C01-array-key-unmasked", afails, awhat))
        elif afails:
            ctx.cov.notes.append("CANDIDATE-FINDING (not yet in known_findings.json) C01-array-key-unmasked: " + awhat)
        for fid, what, rep, detail in memory_findings() + [prbs_pause_probe()]:
            if fid in listed:
                out.append((fid, rep, what + " " + json.dumps(detail)))
            elif rep:
                ctx.cov.notes.append("CANDIDATE-FINDING (not yet in known_findings.json) " + fid + ": " + what + " " + json.dumps(detail)[:300])
    finally:
        ctx.lean = lean
    return out


def replay(ctx, payload):
    """Re-execute a replay file on the real code: exit status 1 if the recorded failing input still makes the
    simulator and the emitted Verilog part, 0 if not (or if the file holds no re-executable input)."""
    fi = payload.get("failing_input") or {}
    rp = fi.get("replay")
    print(json.dumps({k: v for k, v in fi.items() if k not in ("replay", "trace")}, indent=1)[:3000])
    if not rp:
        print("no re-executable failing input in this replay file")
        return 0
    ctx.lean = None
    if rp["kind"] in ("expr", "module"):
        r = run_witness(ctx, dict(rp))
        print("simulator stores %s, Verilog text %r stores %s" % (r["simulator"], r["text"], r["verilog"]))
        return 1 if r["simulator"] != r["verilog"] else 0
    if rp["kind"] == "run-simulation":
        if rp["case"] != "safe":
            print("replay of a Lean-side run_simulation case needs the full check")
            return 0
        c, bad = run_simulation_case(rp["seed"], rp["instants"], "safe")
        if bad is not None:
            print("instant %s (t=%s) signal %s: run_simulation %s, expected %s" % (
                bad.get("instant"), bad.get("time"), bad.get("signal"), bad.get("run_simulation"), bad.get("expected_before_this_instant")))
            return 1
        print("run_simulation case replayed without divergence")
        return 0
    if rp["kind"] == "safe-module":
        n, bad, skip = run_safe_module(rp["seed"], 0, None, rp["trace"], rp.get("ticks") or [["sys"]] * len(rp["trace"]))
        if bad is not None:
            print("cycle %s port %s: simulator %s, verilog %s" % (bad.get("cycle"), bad.get("port"), bad.get("simulator"),
                                                               bad.get("verilog")))
            return 1
        print("trace replayed without divergence")
        return 0
    return 0
    return 0
