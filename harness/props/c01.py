"""C01 — generated Verilog behaves exactly like the simulated FHDL design.

Three-way tie (see DESIGN §7.C01):
  (i)   printer correspondence : Lean `printE`/`printStmt` of the serialised real FHDL tree == the tree parsed
                                 from the text the real printer emitted, node by node;
  (ii)  simulator correspondence: Lean `evalF`/`stepF` == the real `Evaluator` on the same stimuli;
  (iii) Lean as Verilog simulator: `evalV`/`stepV` on the parsed REAL text == `evalF`/`stepF` whenever the side
                                 condition `Fits` of the theorem holds; inputs on which it does not hold and the
                                 two semantics part are overflow-site witnesses (tracked, not alarms).
"""
import itertools, json, os, time
import c01lib as L
from c01lib import SigIds, FlatNS, ExprGen, ser_expr, parse_vexpr, truncate, make_sigs, sig_range, used_signals
from litex.gen.fhdl.expression import _generate_expression
from litex.gen.sim.core import Evaluator

VERIF = os.path.dirname(os.path.dirname(os.path.dirname(os.path.abspath(__file__))))
CORPUS = os.path.join(VERIF, "corpus", "C01")


class Dis:
    def __init__(self, kind, **kw):
        self.kind = kind
        self.kw = kw

    def to_json(self):
        d = {"kind": self.kind}
        d.update(self.kw)
        return d


# ----------------------------------------------------------------------------------------------------------
# L1: expressions
# ----------------------------------------------------------------------------------------------------------

def corner_values(s):
    r = sig_range(s)
    vals = {r[0], r[-1], 0 if 0 in r else r[0]}
    if s.signed:
        vals.add(-1)
        if s.nbits > 1:
            vals.add(1)
    else:
        vals.add(min(1, r[-1]))
    return sorted(vals)


def expr_envs(rng, sigs, used, max_exh_bits=10, nrand=48):
    """Valuations of `sigs` (list aligned with ids): exhaustive over the used signals when narrow."""
    bits = sum(s.nbits for s in used)
    idx = {id(s): k for k, s in enumerate(sigs)}
    envs = []
    if bits <= max_exh_bits:
        for combo in itertools.product(*[sig_range(s) for s in used]):
            env = [0] * len(sigs)
            for s, v in zip(used, combo):
                env[idx[id(s)]] = v
            envs.append(env)
        return envs, True
    corners = [corner_values(s) for s in used]
    for _ in range(nrand):
        env = [0] * len(sigs)
        for s, cv in zip(used, corners):
            if rng.random() < 0.4:
                v = rng.choice(cv)
            else:
                r = sig_range(s)
                v = rng.randrange(r[0], r[-1] + 1)
            env[idx[id(s)]] = v
        envs.append(env)
    return envs, False


def check_expr_batch(ctx, cases, dis, stats, witnesses):
    """cases: list of dict(e, sigs, lw, envs, exh, tag).  Runs the three-way comparison."""
    lines = []
    metas = []
    for c in cases:
        ids = SigIds()
        for s in c["sigs"]:
            ids.get(s)
        ns = FlatNS(ids)
        try:
            fe = ser_expr(c["e"], ids)
            text, psign = _generate_expression(ns, c["e"])
            ve = parse_vexpr(text, ns.names())
        except (L.ParseError, L.Unsupported) as ex:
            dis.append(Dis("parse", tag=c["tag"], error=repr(ex)))
            continue
        # real simulator
        ev = Evaluator([], {})
        real = []
        for env in c["envs"]:
            ev.signal_values = {s: v for s, v in zip(c["sigs"], env)}
            try:
                real.append(ev.eval(c["e"]))
            except ValueError:      # negative shift count
                real.append(None)
        envs = c["envs"]
        CH = 128
        for k in range(0, len(envs), CH):
            chunk = envs[k:k + CH]
            lines.append("x %d ; %s ; %s ; %s" % (c["lw"], " ".join(fe), " ".join(ve),
                                                  " ; ".join(" ".join(map(str, e)) for e in chunk)))
            metas.append((c, text, chunk, real[k:k + CH]))
    answers = ctx.lean.call_batch(lines)
    for (c, text, chunk, real), ans in zip(metas, answers):
        if ans.startswith("bad"):
            dis.append(Dis("driver", tag=c["tag"], text=text, answer=ans))
            continue
        parts = [p.split() for p in ans.split(";")]
        head = parts[0]
        if head[0] != "ok":
            dis.append(Dis("printer", tag=c["tag"], text=text, where=head[0],
                           what="Lean printE differs from the tree parsed from the real text"))
            stats["printer_diff"] += 1
            continue
        stats["printed"] += 1
        for env, rv, p in zip(chunk, real, parts[1:]):
            f, af, av, fits = int(p[0]), int(p[1]), int(p[2]), p[3] == "1"
            stats["evals"] += 1
            if rv is None:
                stats["neg_shift"] += 1
                if fits:
                    dis.append(Dis("fits-on-raise", tag=c["tag"], text=text, env=env))
                continue
            if f != rv:
                dis.append(Dis("evalF", tag=c["tag"], text=text, env=env, lean=f, real=int(rv)))
                continue
            if af != truncate(int(rv), c["lw"], False):
                dis.append(Dis("assignF", tag=c["tag"], text=text, env=env, lean=af, real=int(rv)))
                continue
            if fits:
                stats["fits"] += 1
                if av != af:
                    dis.append(Dis("theorem-contradicted", tag=c["tag"], text=text, env=env, lw=c["lw"],
                                   verilog=av, fhdl=af,
                                   what="Fits holds but Verilog and FHDL values differ (model bug)"))
            else:
                stats["nonfit"] += 1
                if av != af:
                    stats["nonfit_differ"] += 1
                    if len(witnesses) < 6:
                        witnesses.append({"text": text, "lw": c["lw"], "env": env, "verilog": av, "fhdl": af})
        if len(dis) > 20:
            break


def l1_random(ctx, n_expr, dis):
    rng = ctx.rng
    stats = dict(printed=0, printer_diff=0, evals=0, fits=0, nonfit=0, nonfit_differ=0, neg_shift=0, exhaustive=0)
    witnesses = []
    cases = []
    for k in range(n_expr):
        sigs = make_sigs(rng, rng.randint(2, 4), maxw=rng.choice([3, 5, 9]))
        g = ExprGen(rng, sigs, lowered=True)
        e = g.gen(rng.randint(1, 3))
        used = used_signals(e)
        envs, exh = expr_envs(rng, sigs, used, max_exh_bits=8 if ctx.tier == "quick" else 11)
        stats["exhaustive"] += 1 if exh else 0
        lw = rng.choice([1, 2, 4, 8, 9, 16, 24])
        cases.append(dict(e=e, sigs=sigs, lw=lw, envs=envs, exh=exh, tag="rand%d" % k))
        if len(cases) >= 50:
            check_expr_batch(ctx, cases, dis, stats, witnesses)
            cases = []
            if len(dis) > 20:
                break
    if cases:
        check_expr_batch(ctx, cases, dis, stats, witnesses)
    ctx.cov.add_cases("L1 random expressions (%d, %d exhaustive over inputs)" % (n_expr, stats["exhaustive"]),
                      stats["evals"], stats["fits"], exhaustive=False)
    for k, v in stats.items():
        ctx.cov.count("l1." + k, v)
    ctx.cov.samples += witnesses[:3]
    ctx.log("L1: %s" % stats)
    return stats


def correspond(ctx):
    dis = []
    n = 600 if ctx.tier == "quick" else 6000
    l1_random(ctx, n, dis)
    return dis


def search(ctx, disagreements, proof_info):
    return None


def probes(ctx):
    return []


def replay(ctx, payload):
    print(json.dumps(payload, indent=1)[:4000])
    return 0
