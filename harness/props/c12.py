"""C12 — CSR banks give software exact, side-effect-free register semantics.

Correspondence:
  A  exhaustive co-exploration: single real `CSRBank`s (8-bit bus: sizes from {1,3,8,9,17}; 32-bit bus: sizes from
     {1,32,33}; both orderings; +/- atomic, +/- write_from_dev, fields incl. pulse), `csr_bus.SRAM` windows (4x8
     with/without paging, read-only, 2x16 with sub-word staging, odd depth), small real `CSRBankArray`s behind
     `Interconnect` / `InterconnectShared` (two banks, paged memory window with its page register in a bank);
  B  seeded lock-step co-simulation of realistic register sets harvested from the repo cores (Timer, UART,
     SPIMaster, Watchdog) rebuilt detached and run through the real `CSRBankArray` (8/32-bit, both orderings),
     plus random register sets and large memory windows;
  C  Python-level differential: `_sort_gathered_items` / `AutoCSR.get_csrs(sort=True)`, `CSRFieldAggregate`
     (offset resolution / overlap rejection), simple-CSR layout of `GenericBank`.
  G  the CSR bus glue: bank arrays built THROUGH `Interface` / `Interface.like` / `Interconnect` / `InterconnectShared`
     with address widths 14..18, pagings 0x400/0x800/0x1000, data widths 8/32 and banks at locations 0, 1, 2^k-1, 2^k,
     2^k+1 and the last one (A: tiny arrays, exhaustively; B: small real SoCs -- `SoCMini` subclasses with `csr_map`-pinned
     peripherals -- simulated with the SoC's own `csr_bankarray` + `csr_interconnect`, driven at `soc.csr.masters`);
     arrays whose structure the MODEL computes (`scan`: registers + memories + page registers of one object);
     Python-level: `Interface.like` widths, `SoCCSRHandler.n_locs`, `CSRBankArray.scan` structure incl. constants,
     field access-mode resolution and `check_names`, `get_memories`/`get_constants`/`CSRConstant`, nested gatherer order
     and names (applied once), the documented simulation helpers under the real `run_simulation`.
Registers are bound to the objects the harness created (by identity): a register the array dropped, displaced or put
behind a bus that lost address bits is observed as one that does not react at its address.
Monitors (independent of the Lean model): `csrlib.RegFileMonitor`, `csrlib.SramMonitor`, `csrlib.ArrayMonitor`, and the
direct property checks inside the mode-C loops.
"""
import random
from explore import Job, run_jobs, generic_search, replay_with_monitor
from csrlib import (Reg, Field, BankInst, SramInst, ArrayInst, SocArrayInst, SocGlueInst, STORAGE, STATUS, RAW, build_reg,
                    spec_of, lean_regs, bus_write, build_guarded, InstanceError, ref_sort, ref_page_bits)

FMT = "adr, re, we, dat_w [per master], then (dev_we_k, dev_dat_k) per register; SRAM: adr, re, we, dat_w, page"
FINDING_ATOMIC_LITTLE = "C12-atomic-little-ordering"


def S(size=1, n=None, **kw):
    return Reg(STORAGE, size, n=n, **kw)


def T(size=1, n=None, **kw):
    return Reg(STATUS, size, n=n, **kw)


def R(size=1, n=None, **kw):
    return Reg(RAW, size, n=n, **kw)


def bank_sets_8():
    """Register sets for exhaustive co-exploration on an 8-bit bus (sizes from {1,3,8,9,17})."""
    return [
        ("st17a_wfd", [S(17, atomic=True, wfd=True, reset=0x1A5C3)]),
        ("st17", [S(17)]),
        ("st17a", [S(17, atomic=True)]),
        ("st9_wfd", [S(9, wfd=True, reset=0x155)]),
        ("st9a+sta9", [S(9, atomic=True), T(9)]),
        ("st1+sta3+raw8", [S(1, reset=1), T(3), R(8)]),
        ("sta17", [T(17)]),
        ("sta9rw+st3", [T(9, wfd=True), S(3)]),
        ("st8+st8a+raw1", [S(8), S(8, atomic=True), R(1)]),
        ("fields", [S(1, fields=[Field("go", 1, pulse=True), Field("mode", 2, reset=2), Field("hi", 3, offset=8)]),
                    T(1, fields=[Field("a", 1), Field("b", 2, offset=2)])]),
        ("st3+st9a+st1", [S(3, reset=5), S(9, atomic=True), S(1)]),
    ]


def bank_sets_32():
    return [
        ("st33", [S(33)]),
        ("st33a_wfd", [S(33, atomic=True, wfd=True)]),
        ("st32+sta33", [S(32, reset=0xDEADBEEF), T(33)]),
        ("st1+raw32+sta1", [S(1), R(32), T(1)]),
        ("st33a+st1", [S(33, atomic=True), S(1)]),
    ]


def is_atomic_little(ordering, regs, bw):
    return ordering == "little" and any(r.kind == STORAGE and r.atomic and r.eff_size() > bw for r in regs)


def harvest():
    """Register sets of real cores (specs only; rebuilt detached from the cores' logic)."""
    from litex.soc.cores.timer import Timer
    from litex.soc.cores.uart import UART
    from litex.soc.cores.spi import SPIMaster
    from litex.soc.cores.watchdog import Watchdog
    out = []
    for nm, core in (("timer", Timer()), ("uart", UART(phy=None)), ("spi", SPIMaster(None, 8, 100e6, 1e6)),
                     ("wdt", Watchdog())):
        regs = [spec_of(c) for c in core.get_csrs()]
        for r in regs:
            r.name = nm + "_" + r.name
        out.append((nm, regs))
    return out


def random_regs(rng, bw, n):
    regs = []
    for _ in range(n):
        k = rng.choice((STORAGE, STORAGE, STATUS, RAW))
        if k == RAW:
            regs.append(R(rng.randint(1, bw)))
        elif k == STATUS:
            regs.append(T(rng.choice((1, 3, bw - 1, bw, bw + 1, 2 * bw + 1, 64)), wfd=rng.random() < 0.3))
        else:
            size = rng.choice((1, 3, bw - 1, bw, bw + 1, 2 * bw, 2 * bw + 1, 3 * bw + 2, 64))
            regs.append(S(size, reset=rng.getrandbits(size), atomic=rng.random() < 0.5, wfd=rng.random() < 0.4))
    return regs


def jobs(tier, seed=0):
    quick = tier == "quick"
    J = []
    budget = 420.0 if quick else 2400.0

    def mk(ctor, name, *a, **kw):
        def make():
            ctor.budget_s = budget
            return build_guarded(name, ctor, *a, **kw)
        return make
    A = lambda ctor, name, *a, **kw: J.append(Job("A", mk(ctor, name, *a, **kw), max_states=20000 if quick else 400000))
    B = lambda ctor, name, *a, **kw: J.append(Job("B", mk(ctor, name, *a, **kw), cycles=2500 if quick else 20000,
                                                  runs=1 if quick else 4))
    BA = lambda ctor, name, *a, **kw: J.append(Job("B", mk(ctor, name, *a, **kw), cycles=1000 if quick else 4000,
                                                   runs=1 if quick else 2))
    hv = harvest()
    # ---- B, long ones first (the pool hands jobs out in list order): realistic register sets through the real array
    for bw in (8, 32):
        for ordering in ("big", "little"):
            BA(ArrayInst, "arrayB/%d/%s/timer+uart+spi+wdt" % (bw, ordering),
               [(nm, regs, [(32, 16, False, None)] if nm == "uart" else []) for nm, regs in hv],
               {"timer": 0, "uart": 1, "spi": 2, "wdt": 5}, {("uart", 0): 3},
               bw=bw, ordering=ordering, paging=0x800, nmasters=1 if ordering == "big" else 2)
    # the array as a real SoC builds it (SoC.do_finalize glue: paging/ordering/width forwarding, bank numbers)
    BA(SocArrayInst, "socB/8/little/paging0x400", bw=8, paging=0x400, ordering="little")
    BA(SocArrayInst, "socB/32/big/paging0x1000", bw=32, paging=0x1000, ordering="big")
    # the same peripherals written as AutoCSR modules (get_csrs(sort=True): fixed locations, reserved fillers,
    # registers in a child module, memories found by get_memories), non-default paging and address width
    BA(ArrayInst, "arrayB/8/big/autocsr+fixed-n",
       [("p", [S(9), T(3, n=6), S(17, atomic=True, n=0), R(8), S(1, wfd=True)], [(8, 40, False, None)]),
        ("q", [T(64), S(3, n=3)], [])],
       {"p": 6, "q": 1}, {("p", 0): 7}, bw=8, ordering="big", paging=0x80, aw=10, style="autocsr", child=2)
    BA(ArrayInst, "arrayB/32/little/autocsr+fixed-n",
       [("p", [S(65, atomic=True), T(33, n=3), S(32, reset=0xFFFFFFFF), R(32)], [(64, 6, False, [2 ** 64 - 1, 5])])],
       {"p": 3}, {("p", 0): 0}, bw=32, ordering="little", paging=0x100, aw=12, nmasters=2, style="autocsr", child=1)
    # ---- the CSR bus glue (Interface / like / Interconnect / InterconnectShared / SoC.do_finalize) with every
    # supported address width and paging: banks at locations 0, 1, 2^k-1, 2^k, 2^k+1 (k = the bank-select bits that lie
    # above address bit 13) and the last location, reached THROUGH the glue.  Small real SoCs (B) ...
    for (aw, paging, bw, ordering, nm_, marks) in (
            (15, 0x800, 8, "big", 1, (31, 32, 33)), (16, 0x400, 32, "big", 2, (63, 64, 65, 129)),
            (18, 0x1000, 8, "little", 1, (15, 16, 17, 128)), (14, 0x800, 32, "big", 1, (30,)),
            (17, 0x400, 8, "big", 1, (64, 255, 256, 257))):
        n_locs = (4 << aw) // paging
        locs = list(marks) + [n_locs - 1]
        memloc = next(x for x in range(n_locs - 2, 0, -1) if x not in locs)
        per = [("p%d" % l, l, [S(3, reset=l & 7), T(bw + 1)] if i % 2 == 0 else [S(bw + 1, atomic=(i % 4 == 1)), R(min(bw, 8))],
                [(8, (paging // 4) + 5, [l & 0xFF, 7], memloc)] if i == 1 else [])
               for i, l in enumerate(locs)]
        BA(SocGlueInst, "socglueB/aw%d/paging%#x/%d/%s/%dmasters" % (aw, paging, bw, ordering, nm_), bw=bw, paging=paging,
           ordering=ordering, aw=aw, periphs=per, nmasters=nm_)
    # ... and tiny arrays behind the real interconnects, exhaustively (A): one-bit registers in banks at the marked
    # locations; InterconnectShared with one master (what a SoC builds), with two masters, and plain Interconnect
    for (aw, paging, bw, marks, kw) in (
            (15, 0x800, 8, (0, 1, 31, 32, 33, 63), dict(shared=True)),
            (16, 0x400, 8, (1, 64, 65, 193, 255), dict(shared=True, nmasters=2)),
            (18, 0x1000, 32, (0, 17, 144, 255), dict(shared=False)),
            (17, 0x800, 8, (3, 131, 255), dict(shared=True))):
        per = [("b%02d" % i, [S(1)] if i % 3 != 1 else [T(1)], []) for i, l in enumerate(marks)]
        A(ArrayInst, "glueA/aw%d/paging%#x/%d/%s" % (aw, paging, bw, "+".join("%s=%s" % kv for kv in sorted(kw.items()))),
          per, {"b%02d" % i: l for i, l in enumerate(marks)}, {}, bw=bw, ordering="big", paging=paging, aw=aw,
          via_scan=True, data_values=(0xA5,), **kw)
    # registers AND a (paged) memory in one object, through the model's `scan`
    A(ArrayInst, "glueA/aw7/regs+paged-mem/via-scan", [("a", [S(1), T(1)], [(8, 4, False, None)]), ("m", [], [(8, 2, False, [3])])],
      {"a": 33}, {("a", 0): 32, ("m", 0): 63}, bw=8, ordering="big", paging=8, aw=7, shared=True, via_scan=True,
      data_values=(0xA5,))
    BA(ArrayInst, "glueB/aw17/autocsr/regs+paged-mem/via-scan",
       [("p", [S(9), T(3, n=5), S(17, atomic=True, n=0), R(8)], [(16, 300, False, [0xBEEF]), (8, 3, False, None)]),
        ("q", [], [(32, 70, False, None)]), ("r", [S(1, wfd=True)], [])],
       {"p": 127, "r": 128}, {("p", 0): 64, ("p", 1): 255, ("q", 0): 1}, bw=8, ordering="big", paging=0x800, aw=17,
       shared=True, via_scan=True, style="autocsr", child=1)
    # ---- A
    for ordering in ("big", "little"):
        for nm, regs in bank_sets_8():
            dv = (0x3C3C3C3C3C,) if (quick and nm == "st17a_wfd") else (0x3C3C3C3C3C, 0xFFFFFFFFFF)
            A(BankInst, "bank8/%s/%s" % (ordering, nm), regs, bw=8, ordering=ordering, paging=0x20, address=1,
              dev_values=dv, monitor_atomic=not is_atomic_little(ordering, regs, 8))
        for nm, regs in bank_sets_32():
            A(BankInst, "bank32/%s/%s" % (ordering, nm), regs, bw=32, ordering=ordering, paging=0x20, address=2,
              data_values=(0xA5A5A5A5,), dev_values=(0x1C3C3C3C3C3C3C3C3,),
              monitor_atomic=not is_atomic_little(ordering, regs, 32))
        # corners: 4-word atomic register; more than 64 bits on a 32-bit bus; narrow address bus with the bank at the
        # last page; bank number 0
        regs = [S(32, atomic=True)]
        A(BankInst, "bank8/%s/st32a-4words" % ordering, regs, bw=8, ordering=ordering, paging=0x20, address=1,
          data_values=(0xA5,), monitor_atomic=not is_atomic_little(ordering, regs, 8))
        regs = [S(65, atomic=True, wfd=True, reset=2 ** 64 + 0xFFFFFFFF), T(64)]
        A(BankInst, "bank32/%s/st65a_wfd+sta64" % ordering, regs, bw=32, ordering=ordering, paging=0x40, address=0,
          data_values=(0xFFFFFFFF,), dev_values=(0x1A5A5A5A5FFFFFFFF,), alias=False, monitor_atomic=not is_atomic_little(ordering, regs, 32))
        A(BankInst, "bank16/%s/st17+sta16" % ordering, [S(17, reset=0x1FFFF), T(16)], bw=16, ordering=ordering, paging=0x40,
          address=5, data_values=(0xA5A5,), dev_values=(0x1C3C3C3C3,))
        A(BankInst, "bank8/%s/aw6-last-page" % ordering, [S(9), T(9)], bw=8, ordering=ordering, paging=0x20, address=7, aw=6,
          data_values=(0xA5,))
    if not quick:
        for ordering in ("big", "little"):
            for nm, regs in [("st3+st9a_wfd+st1", [S(3, reset=5), S(9, atomic=True, wfd=True), S(1)]),
                             ("st9_wfd+sta9rw", [S(9, wfd=True), T(9, wfd=True)]),
                             ("st8a+st9+raw3+sta1", [S(8, atomic=True), S(9), R(3), T(1)])]:
                A(BankInst, "bank8/%s/%s" % (ordering, nm), regs, bw=8, ordering=ordering, paging=0x20, address=1,
                  monitor_atomic=not is_atomic_little(ordering, regs, 8))
            for nm, regs in [("st33a", [S(33, atomic=True, wfd=True)]), ("st17+sta16+st1", [S(17), T(16), S(1)])]:
                A(BankInst, "bank16/%s/%s" % (ordering, nm), regs, bw=16, ordering=ordering, paging=0x40, address=5,
                  data_values=(0xA5A5, 0x5A5A), dev_values=(0x1C3C3C3C3,),
                  monitor_atomic=not is_atomic_little(ordering, regs, 16))
        A(SramInst, "sram/4x16-on-8/staging", 16, 4, paging=0x40, data_values=(0xA5,))
        A(SramInst, "sram/2x32-on-8/ratio4", 32, 2, paging=0x40, data_values=(0xA5,))
        A(SramInst, "sram/8x8/paged2", 8, 8, paging=0x10, data_values=(0xA5,))
        A(ArrayInst, "array/little/2banks+mem/2masters",
          [("a", [S(9, atomic=True)], []), ("b", [T(3)], [(8, 2, False, None)])],
          {"a": 0, "b": 2}, {("b", 0): 3}, bw=8, ordering="little", paging=0x20, nmasters=2, data_values=(0xA5,))
    # bank whose words exactly fill / overflow its page (paging 8 -> 2 words per bank): the third word is unreachable
    A(BankInst, "bank8/big/overflow-page", [S(17)], bw=8, ordering="big", paging=8, address=1)
    A(BankInst, "bank8/big/default-paging", [S(9), T(1)], bw=8, ordering="big", paging=0x800, address=3,
      extra_adrs=(0x1ff + (3 << 9), 0x3fff))
    # the constructors' own default paths (bus=None -> Interface(), default paging/ordering/address)
    A(BankInst, "bank8/big/constructor-defaults", [S(9, atomic=True), R(3)], default_bus=True)
    # memory windows
    A(SramInst, "sram/4x8", 8, 4, paging=0x800)
    A(SramInst, "sram/4x8/paged", 8, 4, paging=8)
    A(SramInst, "sram/4x8/ro", 8, 4, paging=0x20, read_only=True, init=[1, 2, 3, 4])
    A(SramInst, "sram/2x16-on-8/staging", 16, 2, paging=0x20, init=[0x1234])
    A(SramInst, "sram/3x8/odd-depth", 8, 3, paging=0x20, init=[1, 2, 3])
    A(SramInst, "sram/4x4-on-8/narrow", 4, 4, paging=0x20)
    A(SramInst, "sram/2x12-on-8/partial-top-word", 12, 2, paging=0x20, init=[0xABC])
    A(SramInst, "sram/2x32-on-8/ratio4/word0", 32, 2, paging=0x40, data_values=(0xA5,), nadr=4)
    A(SramInst, "sram/6x8/paged-nonpow2", 8, 6, paging=0x10, data_values=(0xA5,))
    A(SramInst, "sram/4x8/bus_read_only-attr", 8, 4, paging=0x20, read_only=True, init=[9, 8, 7, 6], via="bus_read_only")
    A(SramInst, "sram/4x8/constructor-defaults", 8, 4, address=2, via="default_bus")
    A(SramInst, "sram/4x8/by-size", 8, 4, paging=0x20, init=[4, 3], via="size")
    # bank arrays (tiny: the array netlist steps ~1k cycles/s)
    for ordering in ("big", "little"):
        A(ArrayInst, "array/%s/2banks" % ordering, [("a", [S(9, atomic=True)], []), ("b", [T(3), S(1, wfd=True)], [])],
          {"a": 0, "b": 2}, {}, bw=8, ordering=ordering, paging=0x20, data_values=(0xA5,))
    A(ArrayInst, "array/big/bank+paged-mem", [("a", [S(1)], [(8, 4, False, None)])],
      {"a": 1}, {("a", 0): 0}, bw=8, ordering="big", paging=8, data_values=(0xA5,))
    A(ArrayInst, "array/big/shared-2masters", [("a", [S(3)], []), ("b", [T(3)], [])],
      {"a": 1, "b": 2}, {}, bw=8, ordering="big", paging=0x20, nmasters=2, data_values=(0xA5,))
    A(ArrayInst, "array/big/autocsr-fixed-n", [("a", [S(3), T(1, n=3)], []), ("b", [S(1)], [(8, 2, True, [7, 9])])],
      {"a": 2, "b": 1}, {("b", 0): 3}, bw=8, ordering="big", paging=0x10, aw=8, data_values=(0xA5,), style="autocsr",
      child=1)
    # ---- B
    rng = random.Random(seed * 31 + 5)
    for k in range(4 if quick else 12):
        bw = rng.choice((8, 8, 16, 32))
        ordering = rng.choice(("big", "little"))
        regs = random_regs(rng, bw, rng.randint(1, 6))
        paging = rng.choice((0x800, 0x800, 0x400, 0x100, 0x1000))
        aw = rng.choice((14, 14, 12, 16))
        address = rng.randrange(0, (1 << aw) // (paging // 4))
        B(BankInst, "bankB/%d/%s/random%d" % (bw, ordering, k), regs, bw=bw, ordering=ordering, paging=paging, aw=aw,
          address=address, monitor_atomic=not is_atomic_little(ordering, regs, bw))
    # staging ratios 4 and 8 (memory word = 4x / 8x the bus width): every sub-word written with a distinct value and
    # read back (scripted prefix), then random traffic
    B(SramInst, "sramB/8x32-on-8/ratio4-fill", 32, 8, bw=8, paging=0x100, script=True)
    B(SramInst, "sramB/4x64-on-8/ratio8-fill", 64, 4, bw=8, paging=0x100, script=True, init=[2 ** 64 - 1])
    B(SramInst, "sramB/4x128-on-32/ratio4-fill", 128, 4, bw=32, paging=0x100, script=True)
    B(SramInst, "sramB/16x32-on-8/ratio4-paged-fill", 32, 16, bw=8, paging=0x40, script=True)
    B(SramInst, "sramB/64x32-on-32", 32, 64, bw=32, paging=0x80)
    B(SramInst, "sramB/64x32-on-8/paged", 32, 64, bw=8, paging=0x80)
    B(SramInst, "sramB/5x4-on-8/paged-odd", 4, 5, bw=8, paging=0x10)
    B(SramInst, "sramB/100x64-on-32/nonpow2-depth", 64, 100, bw=32, paging=0x100, aw=12, init=[2 ** 64 - 1, 2 ** 63 + 1])
    B(SramInst, "sramB/1024x32-on-32/paged", 32, 1024, bw=32, paging=0x800, init=list(range(7, 300, 3)))
    return J


# ---------------------------------------------------------------------------------------------------------
# mode C: Python-level code

ITEM_KINDS = ("csr", "storage", "status", "status_fields", "status_rw", "storage_fields", "constant")


def _mk_item(kind, name, n):
    """One gatherable item of the given class with the DECLARED fixed location `n` (the oracle uses the declared
    value, never the attribute the constructor stored)."""
    from litex.soc.interconnect import csr
    if kind == "csr":
        return csr.CSR(1, name=name, n=n)
    if kind == "storage":
        return csr.CSRStorage(9, name=name, n=n)
    if kind == "storage_fields":
        return csr.CSRStorage(fields=[csr.CSRField("f", 2), csr.CSRField("g", 1, offset=4)], name=name, n=n)
    if kind == "status":
        return csr.CSRStatus(17, name=name, n=n)
    if kind == "status_fields":
        return csr.CSRStatus(fields=[csr.CSRField("f", 2), csr.CSRField("g", 1, offset=4)], name=name, n=n)
    if kind == "status_rw":
        return csr.CSRStatus(3, name=name, read_only=False, n=n)
    return csr.CSRConstant(5, name=name, n=n)


def _real_sort(fixed, kinds=None):
    """Run the real `_sort_gathered_items` on fresh items (classes given by `kinds`, default plain CSRs); returns
    ('ok', slots, names) | ('conflict',) | ('indexerror',)"""
    from litex.soc.interconnect import csr
    kinds = kinds or ["csr"] * len(fixed)
    items = [_mk_item(kd, "i%d" % k, n) for k, (n, kd) in enumerate(zip(fixed, kinds))]
    idx = {id(it): k for k, it in enumerate(items)}
    try:
        res = csr._sort_gathered_items(list(items))
    except ValueError:
        return ("conflict",)
    except IndexError:
        return ("indexerror",)
    return ("ok", [idx.get(id(x)) for x in res], [getattr(x, "name", None) for x in res])


def _sort_oracle(fixed, slots):
    """Property: a permutation (every item exactly once, other slots reserved) with fixed items at their n."""
    seen = [s for s in slots if s is not None]
    if sorted(seen) != list(range(len(fixed))):
        return "result is not a permutation of the items: %r" % (slots,)
    for k, n in enumerate(fixed):
        if n is not None and (n >= len(slots) or slots[n] != k):
            return "fixed item %d is not at location %d: %r" % (k, n, slots)
    return None


def correspond_sort(ctx, out, n_cases):
    rng = ctx.rng
    cases = []
    # exhaustive: all lists of length <= 3 over {None,0,1,2,3,4}
    import itertools
    vals = [None, 0, 1, 2, 3, 4]
    for L in range(0, 4):
        cases += [list(c) for c in itertools.product(vals, repeat=L)]
    n_exh = len(cases)
    for _ in range(n_cases):
        L = rng.randint(1, 8)
        cases.append([rng.choice([None, None, rng.randint(0, L + 3)]) for _ in range(L)])
    # every item class at a fixed location that differs from its automatic slot (directed), for each class
    directed = []
    for kd in ITEM_KINDS:
        directed += [([2, None, None], [kd, "csr", "storage"]), ([None, 0], ["storage", kd]),
                     ([None, None, 5], ["csr", "status", kd]), ([3], [kd])]
    kinds_of = []
    for ci, c in enumerate(cases):
        if ci < n_exh:
            kinds_of.append([ITEM_KINDS[(k + ci) % len(ITEM_KINDS)] for k in range(len(c))])
        else:
            kinds_of.append([rng.choice(ITEM_KINDS) for _ in c])
    for c, kds in directed:
        cases.append(c)
        kinds_of.append(kds)
    lines = ["sort " + " ".join(str(0 if n is None else n + 1) for n in c) for c in cases]
    ans = ctx.lean.call_batch(lines)
    nontriv = 0
    for c, kds, a in zip(cases, kinds_of, ans):
        real = _real_sort(c, kds)
        if real[0] == "ok":
            exp = "ok " + " ".join(str(0 if s is None else s + 1) for s in real[1])
            msg = _sort_oracle(c, real[1])
            if msg:
                out.append({"kind": "monitor:" + msg, "instance": "_sort_gathered_items", "fixed": c, "kinds": kds,
                            "real": real[1]})
            if any(n is not None for n in c):
                nontriv += 1
        else:
            exp = real[0]
        ctx.cov.count("sort:" + real[0])
        if a.strip() != exp.strip():
            out.append({"kind": "correspondence", "instance": "_sort_gathered_items", "fixed": c, "kinds": kds, "real": exp,
                        "model": a})
    ctx.cov.add_cases("_sort_gathered_items (all lists len<=3 over {None,0..4} + random)", len(cases), nontriv,
                      exhaustive=False)
    # through AutoCSR.get_csrs(sort=True) on a real module
    from migen import Module
    from litex.soc.interconnect import csr
    for _ in range(20):
        L = rng.randint(1, 5)
        fx = [rng.choice([None, rng.randint(0, L + 1)]) for _ in range(L)]

        class M(Module, csr.AutoCSR):
            pass
        m = M()
        objs = []
        kds = [rng.choice(ITEM_KINDS[:6]) for _ in fx]
        for k, n in enumerate(fx):
            o = _mk_item(kds[k], "z%d" % (L - k), n)       # names anti-sorted: DUID order rules
            setattr(m, "z%d" % (L - k), o)
            objs.append(o)
        try:
            res = m.get_csrs(sort=True)
            slots = [next((i for i, o in enumerate(objs) if o is x), None) for x in res]
            real = "ok " + " ".join(str(0 if i is None else i + 1) for i in slots)
            msg = _sort_oracle(fx, slots)
            if msg:
                out.append({"kind": "monitor:" + msg, "instance": "_sort_gathered_items", "fixed": fx, "kinds": kds,
                            "real": slots, "via": "AutoCSR.get_csrs(sort=True)"})
        except ValueError:
            real = "conflict"
        except IndexError:
            real = "indexerror"
        a = ctx.lean.call("sort", *[0 if n is None else n + 1 for n in fx])
        if a.strip() != real:
            out.append({"kind": "correspondence", "instance": "AutoCSR.get_csrs(sort=True)", "fixed": fx,
                        "real": real, "model": a})
    ctx.cov.add_cases("AutoCSR.get_csrs(sort=True)", 20, 20)


def _real_fields(c):
    """Build a real CSRStorage from field declarations `(size, offset|None, reset, pulse)`; returns the canonical
    answer and, if the *property* is violated (declared offsets not kept / overlap / packed wrongly / a clean list
    rejected), a message."""
    from litex.soc.interconnect import csr
    fields = [csr.CSRField("f%d" % k, size=s, offset=o, reset=r, pulse=p) for k, (s, o, r, p) in enumerate(c)]
    try:
        st = csr.CSRStorage(fields=fields, name="x")
    except ValueError:
        end = 0
        for (s, o, r, p) in c:
            if o is not None and o < end:
                return "rejected", None
            end = (end if o is None else o) + s
        return "rejected", "non-overlapping field list rejected"
    offs = [f.offset for f in fields]
    real = "ok %d %d %s" % (st.size, st.storage.reset.value, " ".join(map(str, offs)))
    end = 0
    for (s, o, r, p), fo in zip(c, offs):
        if (o is not None and fo != o) or fo < end or (o is None and fo != end):
            return real, "field offsets %r do not match declaration %r" % (offs, c)
        end = fo + s
    return real, None


def correspond_fields(ctx, out, n_cases):
    from litex.soc.interconnect import csr
    rng = ctx.rng
    cases = []
    for _ in range(n_cases):
        L = rng.randint(1, 5)
        c = []
        off = 0
        for k in range(L):
            size = rng.randint(1, 5)
            o = None
            x = rng.random()
            if x < 0.35:
                o = off + rng.randint(0, 3)
            elif x < 0.5:
                o = rng.randint(0, 12)
            c.append((size, o, rng.getrandbits(size), size == 1 and rng.random() < 0.3))
            off = (off if o is None else o) + size
        cases.append(c)
    lines = ["fields " + " ".join("%d %d %d %d" % (s, 0 if o is None else o + 1, r, int(p)) for (s, o, r, p) in c)
             for c in cases]
    ans = ctx.lean.call_batch(lines)
    nontriv = 0
    for c, a in zip(cases, ans):
        real, msg = _real_fields(c)
        if msg:
            out.append({"kind": "monitor:" + msg, "instance": "CSRFieldAggregate", "fields": c})
        if real != "rejected":
            nontriv += 1
        ctx.cov.count("fields:" + real.split()[0])
        if a.strip() != real.strip():
            out.append({"kind": "correspondence", "instance": "CSRFieldAggregate", "fields": c, "real": real, "model": a})
    ctx.cov.add_cases("CSRFieldAggregate offsets/size/reset/overlap", len(cases), nontriv)


def correspond_layout(ctx, out, n_cases):
    """Simple-CSR order of the real GenericBank vs `simpleCsrs`, and `addrOf` vs the position found there."""
    from litex.soc.interconnect import csr
    rng = ctx.rng
    n_ok = 0
    for t in range(n_cases):
        bw = rng.choice((8, 8, 16, 32, 64))
        ordering = rng.choice(("big", "little"))
        regs = random_regs(rng, bw, rng.randint(1, 6))
        objs = [build_reg(r, "q%d_" % k) for k, r in enumerate(regs)]
        bank = csr.GenericBank(objs, bw, ordering)
        real = []
        pos = {}
        for a, sc in enumerate(bank.simple_csrs):
            owner = next(k for k, o in enumerate(objs) if sc is o or sc in getattr(o, "simple_csrs", []))
            r = regs[owner]
            if r.kind == RAW:
                word = 0
            else:
                suffix = sc.name[len("q%d_" % owner):]
                word = int(suffix) if suffix else 0
            nw = -(-r.eff_size() // bw)
            lo = 0 if r.kind == RAW else word * bw
            last = 1 if (r.kind == RAW or sc is objs[owner].simple_csrs[-1]) else 0
            real += [owner, word, lo, sc.size, last]
            pos[(owner, word)] = a
        addrs = []
        for k, r in enumerate(regs):
            nw = 1 if r.kind == RAW else -(-r.eff_size() // bw)
            addrs += [pos[(k, j)] for j in range(nw)]
        exp = " ".join(map(str, real)) + " | " + " ".join(map(str, addrs))
        a = ctx.lean.call("layout", bw, 0 if ordering == "big" else 1, lean_regs(regs))
        if " ".join(a.split()) != " ".join(exp.split()):
            out.append({"kind": "correspondence", "instance": "GenericBank layout", "bw": bw, "ordering": ordering,
                        "regs": repr(regs), "real": exp, "model": a})
        # property: no two words share an address, every register bit is in exactly one word
        if len(set(addrs)) != len(addrs):
            out.append({"kind": "monitor:two words share an address", "instance": "GenericBank layout",
                        "regs": repr(regs)})
        n_ok += 1
    ctx.cov.add_cases("GenericBank simple-CSR layout / addrOf", n_cases, n_ok)


def correspond_glue(ctx, out):
    """Python-level ties of the glue model: `Interface.like` (both widths), `Interface(...)` port widths,
    `SoCCSRHandler.n_locs` for every supported address width / paging / data width."""
    from litex.soc.interconnect import csr_bus
    cases = [(aw, dw) for aw in list(range(1, 21)) + [32] for dw in (8, 16, 32, 64)]
    ans = ctx.lean.call_batch(["like %d %d" % c for c in cases])
    for (aw, dw), a in zip(cases, ans):
        src = csr_bus.Interface(data_width=dw, address_width=aw)
        cp = csr_bus.Interface.like(src)
        got = (len(src.adr), len(src.dat_w), len(src.dat_r), len(cp.adr), len(cp.dat_w), len(cp.dat_r))
        if got != (aw, dw, dw, aw, dw, dw):
            out.append({"kind": "monitor:Interface(data_width=%d, address_width=%d) / Interface.like of it have adr/dat_w/dat_r widths %r "
                                "(an interface narrower than the address space truncates the bank-select bits)" % (dw, aw, got),
                        "instance": "csr_bus.Interface.like", "address_width": aw, "data_width": dw})
        real = "%d %d" % (len(cp.adr), len(cp.dat_w))
        if a.strip() != real:
            out.append({"kind": "correspondence", "instance": "csr_bus.Interface.like", "address_width": aw, "data_width": dw,
                        "real": real, "model": a})
    ctx.cov.add_cases("Interface / Interface.like widths (aw 1..20,32 x dw 8..64)", len(cases), len(cases), exhaustive=True)
    import logging
    from litex.soc.integration.soc import SoCCSRHandler
    grid = [(dw, aw, pg) for dw in (8, 32) for aw in (14, 15, 16, 17, 18) for pg in (0x400, 0x800, 0x1000, 0x2000, 0x4000)]
    ans = ctx.lean.call_batch(["nlocs 32 %d %d" % (aw, pg) for (dw, aw, pg) in grid])
    lvl = logging.getLogger().level
    for (dw, aw, pg), a in zip(grid, ans):
        h = SoCCSRHandler(data_width=dw, address_width=aw, paging=pg)
        if h.n_locs * (pg // 4) != (1 << aw):
            out.append({"kind": "monitor:SoCCSRHandler(address_width=%d, paging=%#x).n_locs = %d: the locations do not tile the %d-bit "
                                "word address space" % (aw, pg, h.n_locs, aw), "instance": "SoCCSRHandler.n_locs",
                        "address_width": aw, "paging": pg})
        if a.strip() != str(h.n_locs):
            out.append({"kind": "correspondence", "instance": "SoCCSRHandler.n_locs", "address_width": aw, "paging": pg,
                        "real": h.n_locs, "model": a})
    ctx.cov.add_cases("SoCCSRHandler.n_locs (all supported widths/pagings)", len(grid), len(grid), exhaustive=True)


def _scan_case(rng):
    """A random source for `CSRBankArray`: objects with registers and/or memories and/or constants."""
    bw = rng.choice((8, 8, 32))
    paging = rng.choice((0x20, 0x100, 0x800))
    pw = paging // 4
    locs = rng.sample(range(0, 64), 24)
    objs = []
    for oi in range(rng.randint(1, 4)):
        style = rng.choice(("plain", "autocsr"))
        regs = random_regs(rng, bw, rng.choice((0, 0, 1, 2, 3)))
        mems = []
        for _ in range(rng.choice((0, 0, 1, 1, 2))):
            w = rng.choice((8, bw, 2 * bw))
            d = rng.choice((2, 3, max(2, pw // 2), pw, pw + 1, 3 * pw))
            mems.append((w, d, style == "plain" and rng.random() < 0.3, locs.pop(), [rng.getrandbits(w) for _ in range(rng.choice((0, 2)))]))
        consts = [rng.randrange(1, 1000) for _ in range(rng.choice((0, 0, 1, 2)))]
        objs.append({"style": style, "regs": regs, "mems": mems, "consts": consts, "loc": locs.pop()})
    return {"bw": bw, "paging": paging, "ordering": rng.choice(("big", "little")), "objs": objs}


def _real_scan(case):
    """Build the real `CSRBankArray` for a case; returns (canonical structure string, property message or None)."""
    from migen import Module, Memory
    from litex.soc.interconnect import csr, csr_bus
    bw, paging = case["bw"], case["paging"]

    class Src:
        pass

    class Plain:
        def __init__(self):
            self.c, self.m, self.k = [], [], []

        def get_csrs(self):
            return list(self.c)

        def get_memories(self):
            return list(self.m)

        def get_constants(self):
            return list(self.k)

    class Auto(Module, csr.AutoCSR):
        pass
    src = Src()
    reg_objs, mem_objs, loc_of = [], [], {}
    for oi, o in enumerate(case["objs"]):
        name = "o%d" % oi
        obj = Plain() if o["style"] == "plain" else Auto()
        ro = []
        for k, r in enumerate(o["regs"]):
            c = build_reg(r, "%s_r%d" % (name, k))
            if o["style"] == "plain":
                obj.c.append(c)
            else:
                setattr(obj, "r%d" % k, c)
            ro.append(c)
        mo = []
        for mi, (w, d, rd_only, mloc, init) in enumerate(o["mems"]):
            m = Memory(w, d, init=init or None, name="%s_m%d" % (name, mi))
            if o["style"] == "plain":
                obj.m.append((True, m) if rd_only else m)
            else:
                setattr(obj, "m%d" % mi, m)
            loc_of[id(m)] = mloc
            mo.append(m)
        for ki, v in enumerate(o["consts"]):
            c = csr.CSRConstant(v, name="%s_k%d" % (name, ki))
            if o["style"] == "plain":
                obj.k.append(c)
            else:
                setattr(obj, "k%d" % ki, c)
        setattr(src, name, obj)
        reg_objs.append(ro)
        mem_objs.append(mo)
        loc_of[name] = o["loc"]

    def address_map(nm, memory):
        return loc_of[nm] if memory is None else loc_of[id(memory)]
    arr = csr_bus.CSRBankArray(src, address_map, data_width=bw, paging=paging, ordering=case["ordering"])
    kn = lambda c: 0 if isinstance(c, csr.CSRStorage) else 1 if isinstance(c, csr.CSRStatus) else 2
    btoks = [len(arr.banks)]
    for (nm, csrs, mapaddr, rmap) in arr.banks:
        btoks += [mapaddr, len(csrs)] + [x for c in csrs for x in (kn(c), c.size)]
    stoks = [len(arr.srams)]
    for (nm, memory, mapaddr, mmap) in arr.srams:
        pgb = mmap._page.size if mmap._page is not None else 0
        link = [0, 0, 0]
        if mmap._page is not None:
            for bi, (bn, csrs, _, _) in enumerate(arr.banks):
                for ri, c in enumerate(csrs):
                    if c is mmap._page:
                        link = [1, bi, ri]
        stoks += [mapaddr, pgb] + link
    ctoks = [x for (nm, c) in arr.constants for x in (int(nm[1:]), c.constant)]
    real = " ".join(map(str, btoks)) + " | " + " ".join(map(str, stoks)) + " | " + " ".join(map(str, ctoks))
    # ---- the property, checked directly: every register of an object is in the bank of that object, at its index, at
    # the object's location; a memory spanning more than one page has a page register of the right size in that bank
    msg = None
    bank_of = {nm: (csrs, mapaddr) for (nm, csrs, mapaddr, rmap) in arr.banks}
    for oi, o in enumerate(case["objs"]):
        name = "o%d" % oi
        csrs, mapaddr = bank_of.get(name, ([], None))
        for k, c in enumerate(reg_objs[oi]):
            if not (k < len(csrs) and csrs[k] is c):
                msg = msg or "register %d of object %s (which also has %d memories) is not register %d of the object's bank: the bank holds %r" % (
                    k, name, len(o["mems"]), k, [x.name for x in csrs])
        if reg_objs[oi] and mapaddr != o["loc"]:
            msg = msg or "bank of object %s sits at location %r, address_map said %d" % (name, mapaddr, o["loc"])
        for mi, (w, d, rd_only, mloc, init) in enumerate(o["mems"]):
            pb = ref_page_bits(w, d, bw, paging)
            mm = next((mmap for (nm, memory, ma, mmap) in arr.srams if memory is mem_objs[oi][mi]), None)
            if mm is None:
                msg = msg or "memory %d of object %s got no window" % (mi, name)
            elif pb and (mm._page is None or mm._page.size != pb or not any(c is mm._page for c in csrs)):
                msg = msg or "memory %d of object %s spans %d pages but its %d-bit page register is not in the object's bank" % (mi, name, 1 << pb, pb)
        exp_consts = list(o["consts"])
        got_consts = [c.constant for (nm, c) in arr.constants if nm == name]
        if sorted(got_consts) != sorted(exp_consts):
            msg = msg or "constants of object %s: collected %r, declared %r" % (name, got_consts, exp_consts)
    return real, msg


def _scan_lean_line(case):
    bw, paging = case["bw"], case["paging"]
    pbits = (paging // 4 - 1).bit_length()
    toks = [bw, 0 if case["ordering"] == "big" else 1, pbits, len(case["objs"])]
    for o in case["objs"]:
        toks.append("%d %s" % (o["loc"], lean_regs(o["regs"])))
        toks.append(len(o["mems"]))
        for (w, d, rd_only, mloc, init) in o["mems"]:
            toks.append("%d %d %d %d %d %s" % (w, d, int(rd_only), mloc, len(init), " ".join(map(str, init))))
        toks.append("%d %s" % (len(o["consts"]), " ".join(map(str, o["consts"]))))
    return "scan " + " ".join(map(str, toks))


def correspond_scan(ctx, out, n_cases):
    """`CSRBankArray.scan` on random sources (objects with registers and/or memories and/or constants, plain and AutoCSR)
    against the model's `scan`, with the direct property check (no register dropped or displaced)."""
    import io, contextlib
    rng = ctx.rng
    cases = [_scan_case(rng) for _ in range(n_cases)]
    # directed: registers + small memory; registers + paged memory; memory only; paged memory only
    for mems in ([(8, 3, False, 40, [])], [(8, 100, False, 40, [])], [(8, 3, False, 40, []), (16, 100, False, 41, [5, 6])]):
        for regs in ([S(9), T(3)], []):
            for style in ("plain", "autocsr"):
                cases.append({"bw": 8, "paging": 0x20, "ordering": "big",
                              "objs": [{"style": style, "regs": list(regs), "mems": list(mems), "consts": [11], "loc": 5},
                                       {"style": "plain", "regs": [R(8)], "mems": [], "consts": [], "loc": 6}]})
    ans = ctx.lean.call_batch([_scan_lean_line(c) for c in cases])
    nontriv = 0
    for c, a in zip(cases, ans):
        with contextlib.redirect_stdout(io.StringIO()):
            real, msg = _real_scan(c)
        if msg:
            out.append({"kind": "monitor:" + msg, "instance": "CSRBankArray.scan", "case": _case_json(c)})
        if any(o["regs"] and o["mems"] for o in c["objs"]):
            nontriv += 1
        if " ".join(a.split()) != " ".join(real.split()):
            out.append({"kind": "correspondence", "instance": "CSRBankArray.scan", "case": _case_json(c), "real": real, "model": a})
    ctx.cov.add_cases("CSRBankArray.scan: banks / page links / constants (random + directed sources)", len(cases), nontriv)


def _case_json(c):
    return {"bw": c["bw"], "paging": c["paging"], "ordering": c["ordering"],
            "objs": [{"style": o["style"], "loc": o["loc"], "consts": o["consts"], "mems": [list(m) for m in o["mems"]],
                      "regs": [{"kind": r.kind, "size": r.size, "reset": r.reset, "atomic": r.atomic, "wfd": r.wfd} for r in o["regs"]]}
                     for o in c["objs"]]}


def _case_from_json(j):
    return {"bw": j["bw"], "paging": j["paging"], "ordering": j["ordering"],
            "objs": [{"style": o["style"], "loc": o["loc"], "consts": o["consts"], "mems": [tuple(m) for m in o["mems"]],
                      "regs": [Reg(r["kind"], r["size"], r["reset"], r["atomic"], r["wfd"]) for r in o["regs"]]}
                     for o in j["objs"]]}


def correspond_access(ctx, out, n_cases):
    """`CSRFieldAggregate.__init__`: access-mode resolution of fields and `check_names` on real CSRStorage / CSRStatus
    objects against `resolveAccess` / `checkNames`; property: every field of a status ends up ReadOnly, every field of a
    storage ReadWrite or WriteOnly; a register never has two fields of one name."""
    from litex.soc.interconnect import csr
    rng = ctx.rng
    A = csr.CSRAccess
    cases, lines = [], []
    for _ in range(n_cases):
        parent = rng.choice(("storage", "status"))
        fs = [(rng.choice((None, None, A.WriteOnly, A.ReadOnly, A.ReadWrite)), rng.random() < 0.3) for _ in range(rng.randint(1, 4))]
        cases.append((parent, fs))
        lines.append("access %d %s" % (2 if parent == "storage" else 1,
                                       " ".join("%d %d" % (0 if a is None else int(a) + 1, int(p)) for a, p in fs)))
    ans = ctx.lean.call_batch(lines)
    ok = 0
    for (parent, fs), a in zip(cases, ans):
        fields = [csr.CSRField("f%d" % k, size=1, pulse=p, access=acc) for k, (acc, p) in enumerate(fs)]
        try:
            (csr.CSRStorage if parent == "storage" else csr.CSRStatus)(fields=fields, name="x")
            real = "ok " + " ".join(str(int(f.access) + 1) for f in fields)
            ok += 1
            allowed = (A.ReadWrite, A.WriteOnly) if parent == "storage" else (A.ReadOnly,)
            if any(f.access not in allowed for f in fields):
                out.append({"kind": "monitor:%s accepted fields with access modes %r" % (parent, [str(f.access) for f in fields]),
                            "instance": "CSRFieldAggregate access", "parent": parent, "fields": [[None if x is None else int(x), y] for x, y in fs]})
        except AssertionError:
            real = "rejected"
        ctx.cov.count("access:" + real.split()[0])
        if a.strip() != real.strip():
            out.append({"kind": "correspondence", "instance": "CSRFieldAggregate access", "parent": parent,
                        "fields": [[None if x is None else int(x), y] for x, y in fs], "real": real, "model": a})
    ctx.cov.add_cases("CSRFieldAggregate access-mode resolution", len(cases), ok)
    cases = [[rng.randrange(4) for _ in range(rng.randint(1, 5))] for _ in range(max(20, n_cases // 4))]
    ans = ctx.lean.call_batch(["names " + " ".join(map(str, c)) for c in cases])
    for c, a in zip(cases, ans):
        try:
            st = csr.CSRStorage(fields=[csr.CSRField("n%d" % x, size=1) for x in c], name="x")
            real = "ok"
            if len(set(c)) != len(c):
                out.append({"kind": "monitor:a register with two fields of one name was accepted", "instance": "CSRFieldAggregate names",
                            "names": c})
        except ValueError:
            real = "rejected"
            if len(set(c)) == len(c):
                out.append({"kind": "monitor:distinct field names rejected", "instance": "CSRFieldAggregate names", "names": c})
        if a.strip() != real:
            out.append({"kind": "correspondence", "instance": "CSRFieldAggregate names", "names": c, "real": real, "model": a})
    ctx.cov.add_cases("CSRFieldAggregate.check_names", len(cases), len(cases))


def correspond_members(ctx, out, n_cases):
    """`AutoCSR.get_memories` / `get_constants` over nested modules (names prefixed once per enclosing child, creation order,
    constants placed by `sort=True`), `CSRConstant` value/read, against `gatherOrder` / `gatherSorted`."""
    from migen import Module, Memory
    from litex.soc.interconnect import csr
    rng = ctx.rng
    done = 0
    for _ in range(n_cases):
        class M(Module, csr.AutoCSR):
            pass
        top, kid, grand = M(), M(), M()
        pref = {id(top): "", id(kid): "kid_", id(grand): "kid_g_"}
        mems, consts = [], []
        L = rng.randint(1, 6)
        for k in range(L):
            where = rng.choice((top, kid, grand))
            if rng.random() < 0.5:
                m = Memory(8, 4, name="m%d" % (L - k))
                setattr(where, "a%d" % (L - k), m)
                mems.append((m, "m%d" % (L - k), where))
            else:
                fixed = rng.choice([None, None, rng.randint(0, L + 1)])
                v = rng.randrange(1 << 20)
                c = csr.CSRConstant(v, name="k%d" % (L - k), n=fixed)
                setattr(where, "b%d" % (L - k), c)
                consts.append((c, "k%d" % (L - k), where, fixed, v))
        kid.g = grand
        top.kid = kid
        for rep in range(2):                       # the second call must not prefix again
            gm = top.get_memories()
            if [x for x in gm] != [m for (m, _, _) in mems] or [m.name_override for m in gm] != [pref[id(w)] + nm for (_, nm, w) in mems]:
                out.append({"kind": "monitor:get_memories() call %d returns %r, expected %r in creation order" % (
                    rep + 1, [m.name_override for m in gm], [pref[id(w)] + nm for (_, nm, w) in mems]), "instance": "AutoCSR get_memories"})
                break
        for (c, nm, w, fixed, v) in consts:
            if c.constant != v or c.value.value != v:
                out.append({"kind": "monitor:CSRConstant(%d) holds %r / %r" % (v, c.constant, c.value.value), "instance": "CSRConstant"})
        fx = [f for (_, _, _, f, _) in consts]
        try:
            gc = top.get_constants(sort=True)
            slots = [next((i for i, (c, _, _, _, _) in enumerate(consts) if c is x), None) for x in gc]
            real = "ok " + " ".join(str(0 if i is None else i + 1) for i in slots)
            msg = _sort_oracle(fx, slots)
            if msg:
                out.append({"kind": "monitor:" + msg, "instance": "AutoCSR get_constants(sort=True)", "fixed": fx})
            for x in gc:
                hit = next(((nm, w) for (c, nm, w, _, _) in consts if c is x), None)
                if hit and x.name != pref[id(hit[1])] + hit[0]:
                    out.append({"kind": "monitor:constant %r gathered as %r" % (pref[id(hit[1])] + hit[0], x.name),
                                "instance": "AutoCSR get_constants(sort=True)"})
        except ValueError:
            real = "conflict"
        except IndexError:
            real = "indexerror"
        if consts:
            sh = list(range(len(consts)))
            rng.shuffle(sh)
            args = []
            for i in sh:
                args += [consts[i][0].duid, 0 if consts[i][3] is None else consts[i][3] + 1]
            g = ctx.lean.call("gather", *args)
            if g != "" and " ".join(g.split("|")[1].split()) != " ".join(real.split()):
                out.append({"kind": "correspondence", "instance": "AutoCSR get_constants(sort=True)", "fixed": fx, "real": real, "model": g})
        done += 1
    ctx.cov.add_cases("AutoCSR get_memories / get_constants over nested modules, CSRConstant", done, done)


def correspond_sim_helpers(ctx, out):
    """The documented simulation helpers (`Interface.write/read`, `CSRStorage.write/read`, `CSRStatus.read`, `CSR.write/read`,
    `CSRConstant.read`) on a real bank under the repository's own `run_simulation`: a bus write followed by a bus read
    returns the value written, the helpers move the values they document."""
    from litex.gen.sim import run_simulation
    from litex.soc.interconnect import csr, csr_bus
    for ordering in ("big", "little"):
        st = csr.CSRStorage(16, reset=0xBEEF, name="st")
        sta = csr.CSRStatus(8, name="sta")
        raw = csr.CSR(4, name="raw")
        k = csr.CSRConstant(0x2A, name="k")
        bus = csr_bus.Interface(data_width=8, address_width=15)
        bank = csr_bus.CSRBank([st, sta, raw], address=33, bus=bus, paging=0x800, ordering=ordering)
        got = {}
        base = 33 << 9
        hi, lo = (base, base + 1) if ordering == "big" else (base + 1, base)

        def rd(a):
            # `Interface.read` samples dat_r right after the edge that presents the address: it returns the word of the
            # PREVIOUS access (the repository's own test reads once more and shifts); so every word is read twice
            yield from bus.read(a)
            return (yield from bus.read(a))

        def gen():
            got["reset"] = ((yield from rd(hi)) << 8) | (yield from rd(lo))
            yield from bus.write(hi, 0x12)
            yield from bus.write(lo, 0x34)
            yield
            got["storage"] = (yield from st.read())
            got["rb"] = ((yield from rd(hi)) << 8) | (yield from rd(lo))
            got["other"] = (yield from rd(1 << 9))
            yield sta.status.eq(0x5C)
            yield
            got["status"] = (yield from rd(base + 2))
            yield from st.write(0x4321)
            got["st.write"] = (yield st.storage)
            got["const"] = (yield from k.read())
        run_simulation(bank, gen())
        exp = {"reset": 0xBEEF, "storage": 0x1234, "rb": 0x1234, "other": 0, "status": 0x5C, "st.write": 0x4321, "const": 0x2A}
        if got != exp:
            out.append({"kind": "monitor:simulation helpers on a bank at location 33 (15-bit addresses, ordering %s) observed %r, expected %r"
                                % (ordering, got, exp), "instance": "csr simulation helpers", "ordering": ordering})
    ctx.cov.add_cases("directed: Interface.write/read and CSR helper generators under run_simulation", 2, 2, exhaustive=True)


def run_corpus(ctx):
    """Minimised past disagreements and finding witnesses: model and code must agree (and match the recorded
    outputs) on each of them."""
    import glob, json, os
    out = []
    files = sorted(glob.glob(os.path.join(os.path.dirname(os.path.dirname(os.path.dirname(__file__))), "corpus", "C12", "*.json")))
    for f in files:
        e = json.load(open(f))
        if e.get("kind") != "bank":
            continue
        regs = [Reg(r["kind"], r.get("size", 1), r.get("reset", 0), r.get("atomic", False), r.get("wfd", False),
                    [Field(**fd) for fd in r.get("fields", [])]) for r in e["regs"]]
        inst = BankInst("corpus/" + os.path.basename(f), regs, bw=e["bw"], ordering=e["ordering"], paging=e["paging"],
                        address=e["address"])
        from explore import impl_step, Disagreement
        impl = [impl_step(inst, tuple(l)) for l in e["trace"]]
        ctx.lean.open(inst.lean_open)
        model = ctx.lean.run([list(l) for l in e["trace"]])
        ctx.lean.close_session()
        for t, (a, b) in enumerate(zip(impl, model)):
            if a != b or ("expect_outs" in e and a != e["expect_outs"][t]):
                d = Disagreement(inst, [tuple(l) for l in e["trace"][:t + 1]], t, a, b)
                d.kind = "corpus:" + os.path.basename(f)
                out.append(d)
                break
    ctx.cov.add_cases("corpus/C12", len(files), len(files), exhaustive=True)
    return out


ASSUMPTIONS = [
    "bank theorems that name a word by its address assume c.Fits: len(simple_csrs) <= paging/4 (words beyond the page are unreachable in the code as well; instance bank8/big/overflow-page)",
    "atomic 'all at once for software writing in ascending address order' is proved for ordering=big only (known finding C12-atomic-little-ordering; negative witness in LitexProps/C12.lean, probe on the real code on every run)",
    "memory windows: accesses beyond the populated window (clamped array index in the simulator) are outside the property; read/write theorems are stated for in-range words",
    "register sizes >= 1; field reset values fit their fields; raw CSR size <= bus width (asserted by GenericBank)",
    "glue theorems assume every interface of the glue carries the same widths (what SoC.do_finalize builds; instances with a narrower interface are outside) and locations below n_locs = 2^(aw - pbits)",
    "gathered names are modelled as token lists (module path + own name); the '_'-joined strings are not injective (exported names belong to C14); field description/values are documentation only",
    "field_access_pulse is _partial (explicit access=): a pulse field declared without access= stays ReadWrite in the code (negative witness in LitexProps/C12.lean; affects generated documentation only)",
]


def correspond(ctx):
    ctx.assumptions = ASSUMPTIONS
    ctx.rule = ("model/implementation correspondence cases; non-trivial = the cycle carries a bus read/write that selects "
                "the bank/window or a device-side write, or (Python-level) the call places at least one fixed item / "
                "resolves a field list; counted per distinct (state, input) pair")
    ctx.extra_trusted = ["harness/csrlib.py: drives/observes the real CSR objects (storage/status/re/we/fields, bus) by "
                         "object attribute; the model's description (bank order, register order, widths, pages) is derived from the "
                         "constructor parameters, never read back from the objects built"]
    ctx.jobs = jobs(ctx.tier, ctx.seed)
    try:
        corpus_dis = run_corpus(ctx)
    except Exception as e:
        import traceback
        corpus_dis = [{"kind": "correspondence-exception", "instance": "corpus/C12", "what": "replaying the corpus raised %r" % (e,),
                       "traceback": traceback.format_exc()[-2500:]}]
        try:
            ctx.lean.close_session()
        except Exception:
            pass
    if corpus_dis:
        ctx.log("corpus: %d disagreements" % len(corpus_dis))
    ctx.log("%d hardware jobs" % len(ctx.jobs))
    extra = []
    try:
        dis, bad = run_jobs(ctx, ctx.jobs)
    except Exception as e:
        # a changed implementation could not be built/driven (or ran away): a broken tie, reported with the instance
        # name and the input at hand -- the Python-level checks below still run
        import traceback
        dis = []
        extra.append({"kind": "correspondence-exception", "instance": str(e).split(":")[0].replace("instance ", ""),
                      "what": str(e)[:1500], "traceback": traceback.format_exc()[-2500:]})
        ctx.log("hardware jobs raised: %s" % (str(e)[:300],))
    ctx.log("hardware jobs done: %d disagreements" % len(dis))
    # every mode-A instance terminates exhaustively on the unchanged tree: one that no longer does (state explosion,
    # time-out) has not been compared completely
    for i in ctx.cov.instances:
        if i.get("mode") == "A" and not i.get("exhaustive") and not any(getattr(d, "inst_name", None) == i["instance"] for d in dis):
            extra.append({"kind": "incomplete-exploration", "instance": i["instance"],
                          "what": "exhaustive co-exploration did not complete (%s states, %s transitions)" % (i.get("states"), i.get("transitions"))})
    quick = ctx.tier == "quick"
    correspond_directed(ctx, extra)
    correspond_glue(ctx, extra)
    correspond_scan(ctx, extra, 60 if quick else 600)
    correspond_access(ctx, extra, 200 if quick else 2000)
    correspond_members(ctx, extra, 40 if quick else 400)
    correspond_sim_helpers(ctx, extra)
    correspond_sort(ctx, extra, 200 if quick else 3000)
    correspond_gather(ctx, extra, 40 if quick else 400)
    correspond_fields(ctx, extra, 300 if quick else 3000)
    correspond_layout(ctx, extra, 60 if quick else 600)
    ctx.log("python-level differential done: %d disagreements" % len(extra))
    ctx.modec = extra
    return corpus_dis + dis + extra


def correspond_directed(ctx, out):
    """Directed observations the random drivers never make: a status register that nobody drives reads back its reset
    value (word by word, both orderings, also composed from field resets); simulation helper generators of
    `csr_bus.Interface` drive the bus as documented."""
    from explore import impl_step
    n_ok = 0
    for ordering in ("big", "little"):
        for bw, reg, expect_val in ((8, T(20, reset=0xABCDE), 0xABCDE),
                                    (32, T(40, reset=0x12_3456789A), 0x12_3456789A),
                                    (8, Reg(STATUS, 1, fields=[Field("a", 3, reset=5), Field("b", 2, offset=9, reset=2)]), 5 | (2 << 9))):
            inst = build_guarded("directed/status-reset/%d/%s" % (bw, ordering), BankInst, [reg], bw=bw, ordering=ordering,
                                 paging=0x40, address=2)
            n = inst.netlist
            size = reg.eff_size()
            nw = -(-size // bw)
            got = 0
            for a in range(nw):
                # drive the bus only: the status signal keeps its reset value
                n.set(inst.bus.adr, (2 << inst.pbits) + a); n.set(inst.bus.re, 1); n.set(inst.bus.we, 0); n.settle(); n.tick()
                word = n.getu(inst.bus.dat_r)
                j = (nw - 1 - a) if ordering == "big" else a
                if word >> min(bw, size - j * bw):
                    out.append({"kind": "monitor:status word %d reads %#x, wider than its %d bits" % (j, word, min(bw, size - j * bw)),
                                "instance": inst.name})
                got |= word << (j * bw)
            if got != expect_val:
                out.append({"kind": "monitor:undriven status reads %#x, expected its reset value %#x" % (got, expect_val),
                            "instance": inst.name, "ordering": ordering, "bw": bw})
            n_ok += 1
    ctx.cov.add_cases("directed: undriven status reads its reset value", n_ok, n_ok, exhaustive=True)


def correspond_gather(ctx, out, n_cases):
    """`AutoCSR.get_csrs` through the real gatherer with nested modules: items of child modules are prefixed and
    merged, everything is ordered by creation (DUID), `autocsr_exclude` is honoured, then `sort=True` places fixed
    items.  Expected order: creation order of the non-excluded registers, then the model's placement."""
    from migen import Module
    from litex.soc.interconnect import csr
    rng = ctx.rng
    done = 0
    for _ in range(n_cases):
        class M(Module, csr.AutoCSR):
            pass
        top, kid, grand = M(), M(), M()
        L = rng.randint(1, 7)
        created = []
        names = ["w", "c", "x", "a", "m", "b", "k"]
        rng.shuffle(names)
        excluded = set()
        for k in range(L):
            where = rng.choice((top, top, kid, grand))
            fixed = rng.choice([None, None, rng.randint(0, L + 2)])
            o = _mk_item(rng.choice(ITEM_KINDS[:6]), names[k], fixed)
            setattr(where, names[k], o)
            if where is top and rng.random() < 0.15:
                excluded.add(names[k])
            else:
                created.append((o, fixed, where))
        kid.g = grand
        top.kid = kid
        if excluded:
            top.autocsr_exclude = excluded
        fx = [f for (_, f, _) in created]
        try:
            res = top.get_csrs(sort=True)
            real = "ok " + " ".join(str(next((i + 1 for i, (o, _, _) in enumerate(created) if o is x), 0)) for x in res)
            pref = {id(top): "", id(kid): "kid_", id(grand): "kid_g_"}
            own = {id(o): nm for (o, _, _), nm in zip(created, [n_ for n_ in names[:L] if n_ not in excluded])}
            for x in res:
                hit = next(((o, w) for (o, _, w) in created if o is x), None)
                if hit and x.name != pref[id(hit[1])] + own[id(x)]:
                    out.append({"kind": "monitor:register declared as %r in a module reached through %r is gathered as %r, expected %r"
                                        % (own[id(x)], pref[id(hit[1])], x.name, pref[id(hit[1])] + own[id(x)]),
                                "instance": "AutoCSR nested get_csrs"})
            # a second call must return the same registers under the same names (every prefix is applied exactly once)
            res2 = top.get_csrs(sort=True)
            n1 = [x.name for x in res if any(o is x for (o, _, _) in created)]
            n2 = [x.name for x in res2 if any(o is x for (o, _, _) in created)]
            if n1 != n2:
                out.append({"kind": "monitor:second get_csrs(sort=True) returns names %r, the first returned %r" % (n2, n1),
                            "instance": "AutoCSR nested get_csrs"})
            # model tie of the creation (DUID) order: the items are handed to the model in a shuffled order
            plain = top.get_csrs()
            sh = list(range(len(created)))
            rng.shuffle(sh)
            args = []
            for i in sh:
                args += [created[i][0].duid, 0 if created[i][1] is None else created[i][1] + 1]
            g = ctx.lean.call("gather", *args) if created else ""
            exp_order = " ".join(str(sh.index(next(i for i, (o, _, _) in enumerate(created) if o is x))) for x in plain)
            if created and g != "" and " ".join(g.split("|")[0].split()) != exp_order:
                out.append({"kind": "correspondence", "instance": "AutoCSR nested get_csrs() order", "duids": args[0::2],
                            "real": exp_order, "model": g})
            if created and g != "" and " ".join(g.split("|")[1].split()) != " ".join(real.split()):
                out.append({"kind": "correspondence", "instance": "AutoCSR nested get_csrs(sort=True) via gather", "fixed": fx,
                            "real": real, "model": g})
            if len({x.name for x in res}) != len(res):
                out.append({"kind": "monitor:two gathered registers share the name", "instance": "AutoCSR nested get_csrs",
                            "names": [x.name for x in res]})
            slots = [next((i for i, (o, _, _) in enumerate(created) if o is x), None) for x in res]
            msg = _sort_oracle(fx, slots)
            if msg:
                out.append({"kind": "monitor:" + msg, "instance": "AutoCSR nested get_csrs", "fixed": fx})
        except ValueError:
            real = "conflict"
        except IndexError:
            real = "indexerror"
        a = ctx.lean.call("sort", *[0 if f is None else f + 1 for f in fx]) if fx else "ok "
        if a.strip() != real.strip():
            out.append({"kind": "correspondence", "instance": "AutoCSR nested get_csrs(sort=True)", "fixed": fx,
                        "real": real, "model": a})
        done += 1
    ctx.cov.add_cases("AutoCSR nested modules: get_csrs(sort=True) order / prefixes / exclude", done, done)


# ---------------------------------------------------------------------------------------------------------

def atomic_little_witness():
    """16-bit atomic storage on an 8-bit bus, ordering little: software writes the two bytes in ascending address
    order (0x34 to the low byte at address 0, 0x12 to the high byte at address 1).  Returns the trace of
    `storage` after each write."""
    inst = BankInst("probe/atomic-little", [S(16, atomic=True)], bw=8, ordering="little", paging=0x800, address=0)
    n = inst.netlist
    st = inst.objs[0]
    vals = []
    bus_write(n, inst.bus, 0, 0x34)
    vals.append(n.getu(st.storage))
    bus_write(n, inst.bus, 1, 0x12)
    vals.append(n.getu(st.storage))
    return vals


def probes(ctx):
    vals = atomic_little_witness()
    # atomic: no intermediate value, and 0x1234 after the last (highest-address) word
    fails = vals != [0x0000, 0x1234]
    what = ("CSRStorage(16, atomic_write=True), 8-bit bus, ordering=little: ascending writes 0x34@0, 0x12@1 give storage "
            "%s (atomic semantics require [0x0, 0x1234])" % [hex(v) for v in vals])
    res = [(FINDING_ATOMIC_LITTLE, fails, what)]
    # the same register with ordering=big must be fine (guards the probe itself)
    inst = BankInst("probe/atomic-big", [S(16, atomic=True)], bw=8, ordering="big", paging=0x800, address=0)
    n = inst.netlist
    st = inst.objs[0]
    v = []
    bus_write(n, inst.bus, 0, 0x12); v.append(n.getu(st.storage))
    bus_write(n, inst.bus, 1, 0x34); v.append(n.getu(st.storage))
    res.append(("C12-atomic-big-ordering", v != [0x0000, 0x1234],
                "atomic 16-bit storage, ordering=big, ascending writes give %s" % [hex(x) for x in v]))
    return res


def search(ctx, disagreements, proof_info):
    hw = [d for d in disagreements if not isinstance(d, dict)]
    all_jobs = getattr(ctx, "jobs", None) or jobs(ctx.tier, ctx.seed)
    # a bus-level trace on which a register-semantics monitor fired is the most telling input: first choice
    for d in hw:
        if getattr(d, "kind", "").startswith("monitor:"):
            return {"instance": d.inst_name, "trace": [list(l) for l in d.trace], "monitor": d.kind[8:],
                    "letter_format": FMT}
    dict_hit = None
    for d in list(disagreements) + list(getattr(ctx, "modec", [])):
        if isinstance(d, dict) and d.get("kind", "").startswith("monitor:"):
            dict_hit = {"instance": d["instance"], "input": {k: v for k, v in d.items() if k not in ("kind", "instance")},
                        "monitor": d["kind"][8:]}
            break
    # first pass (cheap, complete): every disagreement trace of every instance is replayed on a fresh instance with
    # the property monitor armed -- before any time-boxed random search starts
    for d in hw:
        if getattr(d, "kind", "").startswith("monitor:"):
            continue
        j = getattr(d, "job", None)
        if j is None or j >= len(all_jobs):
            continue
        try:
            inst = all_jobs[j].make()
            if not hasattr(inst, "monitor"):
                continue
            hit = replay_with_monitor(inst, [tuple(l) for l in d.trace])
        except Exception:
            continue
        if hit:
            return {"instance": inst.name, "trace": [list(l) for l in d.trace[:hit[0] + 1]], "monitor": hit[1],
                    "letter_format": FMT}
    if dict_hit:
        return dict_hit
    r = generic_search(ctx, hw, all_jobs, FMT)
    if r:
        return r
    # Python-level code: re-run the direct property checks on fresh random inputs
    extra = []

    class _NoLean:
        def call_batch(self, lines):
            return [""] * len(lines)

        def call(self, *a):
            return ""
    saved = ctx.lean
    try:
        ctx.lean = _NoLean()
        correspond_directed(ctx, extra)
        correspond_glue(ctx, extra)
        correspond_scan(ctx, extra, 300)
        correspond_access(ctx, extra, 500)
        correspond_members(ctx, extra, 200)
        correspond_sim_helpers(ctx, extra)
        correspond_sort(ctx, extra, 2000)
        correspond_gather(ctx, extra, 300)
        correspond_fields(ctx, extra, 2000)
        correspond_layout(ctx, extra, 200)
    except Exception:
        pass
    finally:
        ctx.lean = saved
    for d in extra:
        if d.get("kind", "").startswith("monitor:"):
            return {"instance": d["instance"], "input": {k: v for k, v in d.items() if k not in ("kind", "instance")},
                    "monitor": d["kind"][8:]}
    return None


def replay(ctx, payload):
    from explore import generic_replay
    fi = payload.get("failing_input") or {}
    if "trace" in fi:
        return generic_replay(ctx, payload, jobs("thorough", payload.get("seed", 0)) + jobs("quick", payload.get("seed", 0)))
    inp = fi.get("input") or {}
    if fi.get("instance") == "_sort_gathered_items":
        real = _real_sort(inp["fixed"], inp.get("kinds"))
        msg = _sort_oracle(inp["fixed"], real[1]) if real[0] == "ok" else None
        print("fixed=%r -> %r" % (inp["fixed"], real))
        if msg:
            print(msg)
            print("VIOLATION property=%s replay=(replayed)" % ctx.prop)
            return 1
        return 0
    if fi.get("instance") == "CSRFieldAggregate":
        real, msg = _real_fields([tuple(f) for f in inp["fields"]])
        print("fields=%r -> %s" % (inp["fields"], real))
        if msg:
            print(msg)
            print("VIOLATION property=%s replay=(replayed)" % ctx.prop)
            return 1
        return 0
    if fi.get("instance") == "CSRBankArray.scan":
        real, msg = _real_scan(_case_from_json(inp["case"]))
        print("scan -> %s" % real)
        if msg:
            print(msg)
            print("VIOLATION property=%s replay=(replayed)" % ctx.prop)
            return 1
        return 0
    if fi.get("instance") in ("csr_bus.Interface.like", "SoCCSRHandler.n_locs"):
        extra = []

        class _NoLean:
            def call_batch(self, lines):
                return [""] * len(lines)
        saved, ctx.lean = ctx.lean, _NoLean()
        try:
            correspond_glue(ctx, extra)
        finally:
            ctx.lean = saved
        hits = [d for d in extra if d["kind"].startswith("monitor:")]
        for d in hits[:3]:
            print(d["kind"][8:])
        if hits:
            print("VIOLATION property=%s replay=(replayed)" % ctx.prop)
            return 1
        return 0
    print("replay payload:", fi or payload.get("disagreements", [])[:3])
    return 1 if fi else 2
