"""C12 — CSR banks give software exact, side-effect-free register semantics."""
from explore import Job, run_jobs, generic_search
from csrlib import Reg, Field, BankInst, STORAGE, STATUS, RAW

FMT = "adr, re, we, dat_w, (dev_we_k, dev_dat_k) per register"


def S(size, **kw):
    return Reg(STORAGE, size, **kw)


def T(size, **kw):
    return Reg(STATUS, size, **kw)


def R(size, **kw):
    return Reg(RAW, size, **kw)


def bank_sets_8():
    """Register sets for exhaustive co-exploration on an 8-bit bus (sizes from {1,3,8,9,17})."""
    return [
        ("st17", [S(17)]),
        ("st17a", [S(17, atomic=True)]),
        ("st17a_wfd", [S(17, atomic=True, wfd=True, reset=0x1A5C3)]),
        ("st9_wfd", [S(9, wfd=True, reset=0x155)]),
        ("st9a+sta9", [S(9, atomic=True), T(9)]),
        ("st1+sta3+raw8", [S(1, reset=1), T(3), R(8)]),
        ("sta17", [T(17)]),
        ("sta9rw+st3", [T(9, wfd=True), S(3)]),
        ("st8+st8a+raw1", [S(8), S(8, atomic=True), R(1)]),
        ("fields", [S(1, fields=[Field("go", 1, pulse=True), Field("mode", 2, reset=2), Field("hi", 3, offset=8)]),
                    T(1, fields=[Field("a", 1), Field("b", 2, offset=2)])]),
    ]


def jobs(tier):
    quick = tier == "quick"
    J = []
    A = lambda mk, **kw: J.append(Job("A", mk, max_states=20000 if quick else 400000, **kw))
    B = lambda mk, **kw: J.append(Job("B", mk, cycles=3000 if quick else 30000, runs=1 if quick else 4, **kw))
    for ordering in ("big", "little"):
        for nm, regs in bank_sets_8():
            atomic_little = ordering == "little" and any(r.atomic and r.eff_size() > 8 for r in regs)
            A(lambda nm=nm, regs=regs, ordering=ordering, al=atomic_little:
              BankInst("bank8/%s/%s" % (ordering, nm), regs, bw=8, ordering=ordering, paging=0x20, address=1,
                       monitor_atomic=not al))
    return J


def correspond(ctx):
    ctx.jobs = jobs(ctx.tier)
    dis, bad = run_jobs(ctx, ctx.jobs)
    return dis


def search(ctx, disagreements, proof_info):
    return generic_search(ctx, disagreements, getattr(ctx, "jobs", None) or jobs(ctx.tier), FMT)


def replay(ctx, payload):
    from explore import generic_replay
    return generic_replay(ctx, payload, jobs("thorough"))
