"""C19 — serial peripherals and timers produce exact waveforms and always finish."""
import os
from explore import Job, run_jobs, generic_search, replay_with_monitor
import c19lib as L

FMT = ("Timer: load, reload, en, update_value.re | Watchdog: feed, enable, reset, pause_halted, halted, cycles | "
       "WaitTimer: wait | PWM: enable, reset, width, period | timeline: trigger | accumulator: enable | "
       "RS232PHYTX: sink.valid, sink.data | RS232PHYRX: pads.rx | SPIMaster: start, length, mosi, cs, cs_mode, "
       "loopback, clk_divider, pads.miso | SPISlave: pads.clk, pads.cs_n, pads.mosi, word to send, loopback | "
       "I2CMasterMachine: start, stop, write, read, sda_i, load, poke, data, ack")

TWS = [1 << 31, 1 << 30, 3 << 29, 0x55555555]          # bit periods 2, 4, 8/3, 3 cycles
TW_115200 = int((115200 / 100e6) * 2 ** 32)


def spi_alphabet(dw, div, lengths=None, words=None, cs=((1, 0),), lbs=(0,), misos=(0, 1)):
    lengths = list(lengths) if lengths is not None else list(range(1, dw + 1))
    words = list(words) if words is not None else [((1 << dw) - 1) // 3, (((1 << dw) - 1) // 3) << 1 & ((1 << dw) - 1) | 1 << (dw - 1)]
    out = []
    for start in (0, 1):
        for ln in lengths:
            for w in words:
                for (c, cm) in cs:
                    for lb in lbs:
                        for m in misos:
                            out.append((start, ln, w, c, cm, lb, div, m))
    return out


def i2c_alphabet(load, cmds=None, sdas=(0, 1), pokes=((0, 0, 0), (1, 0xa5, 0), (1, 0x5a, 1))):
    cmds = cmds if cmds is not None else [(0, 0, 0, 0), (1, 0, 0, 0), (0, 1, 0, 0), (0, 0, 1, 0), (0, 0, 0, 1),
                                          (1, 0, 1, 0), (0, 1, 1, 0), (0, 1, 0, 1), (1, 1, 1, 1)]
    return [c + (s, load) + p for c in cmds for s in sdas for p in pokes]


def jobs(tier):
    quick = tier == "quick"
    J = []
    H = []                     # heavy jobs, started first so that the pool packs well

    def A(mk, heavy=False, **kw):
        (H if heavy else J).append(Job("A", mk, max_states=kw.pop("max_states", 60000 if quick else 2000000), **kw))
    B = lambda mk, **kw: J.append(Job("B", mk, cycles=kw.pop("cycles", 6000 if quick else 60000),
                                      runs=kw.pop("runs", 1 if quick else 3), **kw))
    # ---- (1) counters, mode A: 3-bit timers and watchdog over the complete letter set
    A(lambda: L.mk_timer(3))
    for d in (0, 1, 3):
        A(lambda d=d: L.mk_watchdog(3, d, values=None if (not quick or d == 1) else (0, 1, 2, 5)))
    for t in (0, 1, 2, 5):
        A(lambda t=t: L.mk_waittimer(t))
    A(lambda: L.mk_pwm([0, 1, 2, 3] if quick else [0, 1, 2, 3, 4]))
    for times in ([0, 2, 5], [1, 3], [0, 7], [2, 4, 6]):
        A(lambda times=times: L.mk_timeline(times))
    # ---- (2)/(3) UART, mode A: bit periods 2..4 cycles, every start timing, four bytes
    for tw in TWS:
        for rx in (False, True):
            A(lambda tw=tw, rx=rx: L.mk_accum(tw, rx), max_states=3000 if quick else 200000)
        A(lambda tw=tw: L.mk_uart_tx(tw))
        A(lambda tw=tw: L.UartRxInst(tw), heavy=True, max_states=(90000 if tw == 1 << 31 else 30000) if quick else 2000000)
    # ---- (4) SPI, mode A: every start phase relative to the divider, overlapping start pulses, all lengths
    for dw in (2, 3, 4):
        for al in (False, True):
            for div in (2, 3, 4, 5):
                if dw == 2:
                    cap = 3000000
                elif quick:
                    if (dw + div + al) % 2 or (dw == 4 and div > 3):
                        continue
                    cap = 2500
                else:
                    cap = 3000000
                A(lambda dw=dw, al=al, div=div: L.SpiMasterInst(dw, al, spi_alphabet(dw, div), tag="/div%d" % div),
                  heavy=dw > 2, max_states=cap)
    A(lambda: L.SpiMasterInst(2, False, spi_alphabet(2, 2, lengths=(0, 1, 2, 3), words=(1,) if quick else (1, 2),
                                                     cs=((0, 0), (1, 0), (1, 1)), lbs=(0, 1)),
                              tag="/div2/cs,loopback,length 0..3"), heavy=True, max_states=800 if quick else 3000000)
    A(lambda: L.SpiSlaveInst(2, L.prod((0, 1), (0, 1), (0, 1), (1, 2), (0,))), heavy=True, max_states=4000 if quick else 1500000)
    # ---- (5) I2C machine: all command letters (incl. compound and overlapping ones), data pokes
    A(lambda: L.I2cInst(2, 1, i2c_alphabet(1, sdas=(1,)), tag="/all commands"), heavy=True, max_states=30000 if quick else 3000000)
    A(lambda: L.I2cInst(2, 0, i2c_alphabet(0, cmds=[(0, 0, 0, 0), (0, 0, 1, 0), (0, 0, 0, 1), (0, 1, 0, 0), (1, 0, 0, 0)],
                                           pokes=((0, 0, 0),)), tag="/sda free"), heavy=True, max_states=5000 if quick else 3000000)

    # ---- mode B: realistic sizes
    B(lambda: L.mk_timer(32))
    B(lambda: L.mk_timer(8))
    B(lambda: L.mk_watchdog(32, 20))
    B(lambda: L.mk_watchdog(16, 0))
    B(lambda: L.mk_waittimer(100))
    B(lambda: L.mk_pwm(wide=True))
    B(lambda: L.mk_timeline([0, 3, 11, 64]))
    B(lambda: L.mk_accum(TW_115200, False))
    B(lambda: L.mk_accum(TW_115200, True))
    B(lambda: L.mk_uart_tx(TW_115200, name="RS232PHYTX(115200@100MHz)"), cycles=30000 if quick else 200000)
    B(lambda: L.UartRxInst(TW_115200, name="RS232PHYRX(115200@100MHz)"), cycles=30000 if quick else 200000)
    B(lambda: L.UartRxInst(TW_115200, (102, 100), name="RS232PHYRX(115200@100MHz,tx 2% slow)"), cycles=30000 if quick else 200000)
    B(lambda: L.UartRxInst(TW_115200, (98, 100), name="RS232PHYRX(115200@100MHz,tx 2% fast)"), cycles=30000 if quick else 200000)
    for k, tw in enumerate([0x0432_10ab, 0x1000_0000, 0x0199_9999, 0x0f0f_0f0f]):
        B(lambda tw=tw: L.mk_uart_tx(tw))
        B(lambda tw=tw, k=k: L.UartRxInst(tw, ((100 + (k % 3) - 1) if tw <= 0x1000_0000 else 100, 100)))
    B(lambda: L.UartRxInst(0x0800_0000, noise=True), with_monitor=False)
    for dw, al, div in ((8, False, 2), (8, True, 5), (16, True, 3), (24, False, 4), (32, False, 16), (32, True, 7)) + \
            (() if quick else ((8, False, 3), (16, False, 100), (32, True, 2), (12, True, 6))):
        B(lambda dw=dw, al=al, div=div: L.SpiMasterInst(dw, al, divs=(div,), tag="/div%d" % div))
    B(lambda: L.SpiSlaveInst(8))
    B(lambda: L.SpiSlaveInst(32))
    B(lambda: L.SpiSlaveInst(8, wellformed=False))
    B(lambda: L.I2cInst(20, 3))
    B(lambda: L.I2cInst(20, 0))
    B(lambda: L.I2cInst(8, 11))
    return H + J


def correspond(ctx):
    ctx.rule = ("one (state, letter) transition of the real core compared with the model at pin/port level; non-trivial = "
                "the core is active in that cycle (counter enabled, frame or transfer in progress, command strobe)")
    ctx.jobs = jobs(ctx.tier)
    dis, bad = run_jobs(ctx, ctx.jobs)
    return dis


def search(ctx, disagreements, proof_info):
    return generic_search(ctx, disagreements, getattr(ctx, "jobs", None) or jobs(ctx.tier), FMT)


def probes(ctx):
    return []


def replay(ctx, payload):
    from explore import generic_replay
    return generic_replay(ctx, payload, jobs("thorough"))
