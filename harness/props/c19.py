"""C19 — serial peripherals and timers produce exact waveforms and always finish."""
import os
from explore import Job, run_jobs, generic_search, replay_with_monitor
import c19lib as L
import c19glue2
import c19bone

FMT = ("Timer: load, reload, en, update_value.re | Watchdog: feed, enable, reset, pause_halted, halted, cycles | "
       "WaitTimer: wait | PWM: enable, reset, width, period | timeline: trigger | accumulator: enable | "
       "RS232PHYTX: sink.valid, sink.data | RS232PHYRX: pads.rx | SPIMaster: start, length, mosi, cs, cs_mode, "
       "loopback, clk_divider, pads.miso | SPISlave: pads.clk, pads.cs_n, pads.mosi, word to send, loopback | "
       "I2CMasterMachine: start, stop, write, read, sda_i, load, poke, data, ack | bitbang.I2CMaster: w.scl, w.oe, w.sda, "
       "ext_scl, ext_sda | bitbang.I2CMasterSim: w.scl, w.oe, w.sda, sda_in | bitbang.SPIMaster: w.clk, w.mosi, w.oe, w.cs, "
       "ext_mosi, pads.miso | SPIMaster<->SPISlave: start, length, mosi, cs, cs_mode, loopback, clk_divider, slave word | Stream2Wishbone: sink.valid, sink.data, source.ready, wishbone.ack, wishbone.dat_r | c19glue2 instances: see `open` specs in lean/LitexModel/Periph/Glue2.lean")

TWS = [1 << 31, 1 << 30, 3 << 29, 0x55555555]          # bit periods 2, 4, 8/3, 3 cycles
TW_115200 = int((115200 / 100e6) * 2 ** 32)


def spi_alphabet(dw, div, lengths=None, words=None, cs=((1, 0),), lbs=(0,), misos=(0, 1)):
    lengths = list(lengths) if lengths is not None else list(range(1, dw + 1))
    words = list(words) if words is not None else [((1 << dw) - 1) // 3, (((1 << dw) - 1) // 3) << 1 & ((1 << dw) - 1) | 1 << (dw - 1)]
    out = []
    for start in (0, 1):
        for ln in lengths:
            for w in words:
                for (c, cm) in cs:
                    for lb in lbs:
                        for m in misos:
                            out.append((start, ln, w, c, cm, lb, div, m))
    return out


def i2c_alphabet(load, cmds=None, sdas=(0, 1), pokes=((0, 0, 0), (1, 0xa5, 0), (1, 0x5a, 1))):
    cmds = cmds if cmds is not None else [(0, 0, 0, 0), (1, 0, 0, 0), (0, 1, 0, 0), (0, 0, 1, 0), (0, 0, 0, 1),
                                          (1, 0, 1, 0), (0, 1, 1, 0), (0, 1, 0, 1), (1, 1, 1, 1)]
    return [c + (s, load) + p for c in cmds for s in sdas for p in pokes]


def i2cm_alphabet(exts=((1, 1), (1, 0), (0, 1))):
    ops = [(0, 0, 0, 0, 0), (1, 1, 1, 1, 1), (1, 1, 0, 0, 0)] + \
          [(1, 1, 1, 0, d) for d in (L.I2C_S, L.I2C_P, L.I2C_W | 0x55, L.I2C_W | 0xaa, L.I2C_R, L.I2C_R | 256)]
    return [op + e for op in ops for e in exts]


def jobs(tier):
    quick = tier == "quick"
    J = []
    H = []                     # heavy jobs, started first so that the pool packs well

    def A(mk, heavy=False, **kw):
        (H if heavy else J).append(Job("A", mk, max_states=kw.pop("max_states", 60000 if quick else 2000000), **kw))
    B = lambda mk, **kw: J.append(Job("B", mk, cycles=kw.pop("cycles", 6000 if quick else 60000),
                                      runs=kw.pop("runs", 1 if quick else 3), **kw))
    # ---- (1) counters, mode A: 3-bit timers and watchdog over the complete letter set
    A(lambda: L.mk_timer(3))
    for d in (0, 1, 3):
        A(lambda d=d: L.mk_watchdog(3, d, values=None if (not quick or d == 1) else (0, 1, 2, 5)))
    for t in (0, 1, 2, 5):
        A(lambda t=t: L.mk_waittimer(t))
    A(lambda: L.mk_pwm([0, 1, 2, 3] if quick else [0, 1, 2, 3, 4]))
    for times in ([0, 2, 5], [1, 3], [0, 7], [2, 4, 6]):
        A(lambda times=times: L.mk_timeline(times))
    # ---- (2)/(3) UART, mode A: bit periods 2..4 cycles, every start timing, four bytes
    for tw in TWS:
        for rx in (False, True):
            A(lambda tw=tw, rx=rx: L.mk_accum(tw, rx), max_states=3000 if quick else 200000)
        A(lambda tw=tw: L.mk_uart_tx(tw))
        A(lambda tw=tw: L.UartRxInst(tw), heavy=True, max_states=90000 if quick else 2000000)
    # ---- (4) SPI, mode A: every start phase relative to the divider, overlapping start pulses, all lengths
    for dw in (2, 3, 4):
        for al in (False, True):
            for div in (2, 3, 4, 5):
                if dw == 2:
                    cap = 3000000
                elif quick:
                    if (dw + div + al) % 2 or (dw == 4 and div > 3):
                        continue
                    cap = 5000
                else:
                    cap = 120000 if dw == 3 else 25000
                A(lambda dw=dw, al=al, div=div: L.SpiMasterInst(dw, al, spi_alphabet(dw, div), tag="/div%d" % div),
                  heavy=dw > 2, max_states=cap)
    A(lambda: L.SpiMasterInst(2, False, spi_alphabet(2, 2, lengths=(0, 1, 2, 3), words=(1,) if quick else (1, 2),
                                                     cs=((0, 0), (1, 0), (1, 1)), lbs=(0, 1)),
                              tag="/div2/cs,loopback,length 0..3"), heavy=True, max_states=800 if quick else 3000000)
    A(lambda: L.SpiSlaveInst(2, L.prod((0, 1), (0, 1), (0, 1), (1, 2), (0,))), heavy=True, max_states=4000 if quick else 60000)
    if not quick:
        # complete explorations that only fit the thorough tier (measured: 132 k / 66 k product states)
        A(lambda: L.SpiSlaveInst(1, L.prod((0, 1), (0, 1), (0, 1), (1,), (0,))), heavy=True, max_states=400000)
        for al, div, w in ((True, 3, 0b0110), (False, 2, 0b1001)):
            A(lambda al=al, div=div, w=w: L.SpiMasterInst(4, al, spi_alphabet(4, div, words=(w,)), tag="/div%d/one word" % div),
              heavy=True, max_states=400000)
    # ---- (5) I2C machine: all command letters (incl. compound and overlapping ones), data pokes
    A(lambda: L.I2cInst(2, 1, i2c_alphabet(1, sdas=(1,)), tag="/all commands"), heavy=True, max_states=30000 if quick else 3000000)
    A(lambda: L.I2cInst(2, 0, i2c_alphabet(0, cmds=[(0, 0, 0, 0), (0, 0, 1, 0), (0, 0, 0, 1), (0, 1, 0, 0), (1, 0, 0, 0)],
                                           pokes=((0, 0, 0),)), tag="/sda free"), heavy=True, max_states=5000 if quick else 3000000)

    # ---- I2CMaster (registers + machine + pad stage): bus writes in every state (busy included), ext lines
    A(lambda: L.I2cMasterInst(1, alphabet=i2cm_alphabet(), tag="/A"), heavy=True, max_states=2000 if quick else 25000)

    # ---- less-used constructor options and the glue around the cores (hardening audit items 2/3), mode A
    A(lambda: L.mk_watchdog(3, 2, with_halted=False))
    A(lambda: L.mk_watchdog(3, 1, with_crg=False, values=(0, 1, 2, 5)))
    A(lambda: L.mk_waittimer(2.7))
    A(lambda: L.mk_pwm([0, 1, 2, 3], csr=True))
    A(lambda: L.mk_mcpwm(2))
    A(lambda: L.mk_uptime(), max_states=300 if quick else 5000)
    A(lambda: L.UartTopInst(2, 2, alphabet=L.prod((0, 1), (1, 2), (0,), (0, 1), (0, 1), (3, 4), (0, 1))), heavy=True,
      max_states=150 if quick else 3000)
    A(lambda: L.UartTopInst(3, 2, rx_we=True, alphabet=L.prod((0, 1), (1,), (0, 1), (0, 1), (0, 1), (3,), (0, 1))),
      heavy=True, max_states=250 if quick else 4000)
    A(lambda: L.SpiMasterInst(3, True, spi_alphabet(3, 3, words=(5,), cs=((1, 0), (2, 0), (3, 0), (0, 0), (2, 1))), ncs=2,
                              tag="/div3"), heavy=True, max_states=1200 if quick else 120000)
    A(lambda: L.SpiMasterInst(5, False, spi_alphabet(5, 2, lengths=(1, 4, 5), words=(0x15,)), tag="/div2"), heavy=True,
      max_states=1500 if quick else 60000)
    A(lambda: L.SpiMasterInst(3, False, spi_alphabet(3, 2, words=(5,)), csr=True, tag="/div2"), heavy=True,
      max_states=1500 if quick else 120000)

    # ---- bitbang.py (software-driven masters: stateless pad wiring, complete letter sets)
    A(lambda: L.mk_bb_i2c())
    A(lambda: L.mk_bb_i2c(sim=True))
    for ncs in (1, 3, 4):
        A(lambda ncs=ncs: L.mk_bb_spi(ncs))

    # ---- SPIMaster and SPISlave wired pad to pad (spi_link_* theorems; one divider per run)
    A(lambda: L.SpiLinkInst(2, True, 2, alphabet=[(st, ln, 0b10, 1, 0, 0, 2, tx) for st in (0, 1) for ln in (1, 2)
                                                  for tx in (1, 2)], divs=(2,)), heavy=True, max_states=1500 if quick else 60000)
    for dw, al, dws, div in ((8, True, 8, 2), (8, False, 8, 8), (6, False, 4, 3), (4, True, 6, 9)):
        B(lambda dw=dw, al=al, dws=dws, div=div: L.SpiLinkInst(dw, al, dws, divs=(div,)), cycles=3000 if quick else 40000)

    # ---- remaining pieces of uart.py / misc.py: add_auto_tx_flush, multiplexers, PHY model, crossover, BitSlip,
    #      chooser / displacer / split (instances and monitors in harness/c19glue2.py)
    J.extend(c19glue2.jobs(tier))
    # ---- uart.py: Stream2Wishbone (UARTBone command FSM), instances and protocol scoreboard in harness/c19bone.py
    J.extend(c19bone.jobs(tier))

    # ---- mode B: realistic sizes
    for dw, al, div, kw in ((5, True, 3, {}), (6, False, 9, {"ncs": 3}), (7, True, 2, {"csr": True}),
                            (40, False, 2, {"ncs": 16}), (64, True, 5, {"csr": True, "ncs": 2}), (33, False, 255, {})):
        B(lambda dw=dw, al=al, div=div, kw=kw: L.SpiMasterInst(dw, al, divs=(div,), tag="/div%d" % div, **kw))
    # dividers over the whole 16-bit range: a transfer of L bits takes about (L + 2) * div cycles
    for div, cyc, ml in ((256, 6000, 4), (257, 6000, 4), (313, 8000, 3), (1000, 12000, 2), (4097, 30000, 1)):
        B(lambda div=div, ml=ml: L.SpiMasterInst(8, div % 2 == 0, divs=(div,), max_len=ml, pstarts=(0.2, 0.5 / div),
                                                 tag="/div%d" % div), cycles=cyc if quick else 6 * cyc)
    B(lambda: L.SpiMasterInst(8, False, divs=(65535,), max_len=1, pstarts=(0.2,), tag="/div65535"),
      cycles=70000 if quick else 200000, runs=1)
    B(lambda: L.SpiMasterInst(16, True, csr=True, default_div=(125e6, 400e3), max_len=2, pstarts=(0.2,)),
      cycles=4000 if quick else 30000)
    # other wide counters driven to large values
    B(lambda: L.mk_pwm(fixed=(70000, 66000)), cycles=75000 if quick else 220000, runs=1)
    B(lambda: L.mk_pwm(csr=True, fixed=(300, 257)), cycles=3000)
    # corner values of (period, width): 0, 1 and the 32-bit maximum (pwm_period_zero_one / pwm_width_corners)
    for per, wid in ((0, 5), (1, 0), (1, 1), (0xffffffff, 0xffffffff), (5, 0xffffffff), (0xffffffff, 0), (0, 0)):
        B(lambda per=per, wid=wid: L.mk_pwm(fixed=(per, wid)), cycles=600, runs=1)
    B(lambda: L.mk_waittimer(70000), cycles=150000 if quick else 400000, runs=1)
    B(lambda: L.mk_waittimer(1000), cycles=12000)
    B(lambda: L.mk_watchdog(16, 300))
    B(lambda: L.mk_watchdog(24, 70000), cycles=80000 if quick else 450000, runs=1)
    B(lambda: L.mk_timeline([0, 300, 1000]), cycles=12000)
    B(lambda: L.mk_timeline([70000]), cycles=150000 if quick else 300000, runs=1)
    B(lambda: L.SpiSlaveInst(8, long_frames=True), cycles=20000 if quick else 100000)
    B(lambda: L.I2cInst(20, 1000), cycles=60000 if quick else 300000, runs=1)
    B(lambda: L.I2cInst(20, 66000), cycles=150000 if quick else 700000, runs=1)
    B(lambda: L.I2cMasterInst(300), cycles=40000 if quick else 200000, runs=1)
    if not quick:
        B(lambda: L.I2cInst(20, 0xfffff), cycles=1100000, runs=1)
    B(lambda: L.SpiMasterInst(16, False, csr=True, default_div=(100e6, 30e6)))
    B(lambda: L.SpiMasterInst(9, True, default_div=(50e6, 12.5e6), ncs=4))
    # manual chip-select mode and loopback held over whole transfers (spi_master_any_options / spi_master_loopback)
    B(lambda: L.SpiMasterInst(8, True, divs=(3,), ncs=2, manual=True, tag="/div3,manual cs"))
    B(lambda: L.SpiMasterInst(12, False, divs=(4,), csr=True, manual=True, tag="/div4,manual cs"))
    B(lambda: L.SpiSlaveInst(5))
    B(lambda: L.SpiSlaveInst(40))
    B(lambda: L.mk_watchdog(32, 7, with_halted=False))
    B(lambda: L.mk_watchdog(9, 4, with_crg=False))
    B(lambda: L.mk_soc_watchdog(12, 5))
    B(lambda: L.mk_soc_timer())
    B(lambda: L.mk_soc_uart(2e6, 250000, 4), cycles=8000 if quick else 80000)
    B(lambda: L.mk_pwm(wide=True, csr=True))
    B(lambda: L.mk_mcpwm(3))
    B(lambda: L.mk_mcpwm(5))
    B(lambda: L.mk_uptime())
    B(lambda: L.mk_uart_tx(None, phy=(1e6, 115200)))
    B(lambda: L.mk_uart_tx(None, phy=(12e6, 921600), dynamic=True))
    B(lambda: L.UartRxInst(None, phy=(1e6, 115200)))
    B(lambda: L.UartRxInst(None, (102, 100), phy=(48e6, 1000000)), cycles=12000 if quick else 80000)
    B(lambda: L.UartTopInst(16, 16), cycles=3000 if quick else 40000)
    B(lambda: L.UartTopInst(5, 3, rx_we=True), cycles=3000 if quick else 40000)
    B(lambda: L.UartSysInst(1e6, 115200, 4, 4), cycles=8000 if quick else 80000)
    B(lambda: L.UartSysInst(2e6, 500000, 16, 2, rx_we=True), cycles=6000 if quick else 80000)
    for tw in (1, 0xffffffff, 0xfffffffe, 0x80000001):          # extremes of the tuning word range
        B(lambda tw=tw: L.mk_accum(tw, False))
        B(lambda tw=tw: L.mk_accum(tw, True))
    B(lambda: L.mk_uart_tx(0xffffffff))
    B(lambda: L.mk_uart_tx(0xc0000000))
    B(lambda: L.I2cInst(4, 15))                                 # divider at the top of its range
    B(lambda: L.I2cInst(3, 7))
    B(lambda: L.mk_timeline([0, 63]))
    B(lambda: L.mk_timeline([5, 6, 127]))
    B(lambda: L.mk_waittimer(255))
    B(lambda: L.mk_waittimer(256))
    B(lambda: L.mk_timer(32))
    B(lambda: L.mk_timer(8))
    B(lambda: L.mk_watchdog(32, 20))
    B(lambda: L.mk_watchdog(16, 0))
    B(lambda: L.mk_waittimer(100))
    B(lambda: L.mk_pwm(wide=True))
    B(lambda: L.mk_timeline([0, 3, 11, 64]))
    B(lambda: L.mk_accum(TW_115200, False))
    B(lambda: L.mk_accum(TW_115200, True))
    B(lambda: L.mk_uart_tx(TW_115200, name="RS232PHYTX(115200@100MHz)"), cycles=30000 if quick else 200000)
    B(lambda: L.UartRxInst(TW_115200, name="RS232PHYRX(115200@100MHz)"), cycles=30000 if quick else 200000)
    B(lambda: L.UartRxInst(TW_115200, (102, 100), name="RS232PHYRX(115200@100MHz,tx 2% slow)"), cycles=30000 if quick else 200000)
    B(lambda: L.UartRxInst(TW_115200, (98, 100), name="RS232PHYRX(115200@100MHz,tx 2% fast)"), cycles=30000 if quick else 200000)
    for k, tw in enumerate([0x0432_10ab, 0x1000_0000, 0x0199_9999, 0x0f0f_0f0f]):
        B(lambda tw=tw: L.mk_uart_tx(tw))
        B(lambda tw=tw, k=k: L.UartRxInst(tw, ((100 + (k % 3) - 1) if tw <= 0x1000_0000 else 100, 100)))
    B(lambda: L.UartRxInst(0x0800_0000, noise=True))
    B(lambda: L.UartRxInst(0x2000_0000, noise=True))
    for dw, al, div in ((8, False, 2), (8, True, 5), (16, True, 3), (24, False, 4), (32, False, 16), (32, True, 7)) + \
            (() if quick else ((8, False, 3), (16, False, 100), (32, True, 2), (12, True, 6))):
        B(lambda dw=dw, al=al, div=div: L.SpiMasterInst(dw, al, divs=(div,), tag="/div%d" % div))
    B(lambda: L.SpiSlaveInst(8))
    B(lambda: L.SpiSlaveInst(32))
    B(lambda: L.SpiSlaveInst(8, wellformed=False))
    # every width from 1 up, frames followed by foreign traffic (clock/MOSI toggling while cs_n is high) and random pins:
    # the monitor's exact received-word reference holds for any pad activity (spi_slave_word_stable_while_deselected)
    for dw in (1, 2, 3, 4, 6, 7):
        B(lambda dw=dw: L.SpiSlaveInst(dw), cycles=2500 if quick else 30000)
    for dw in (1, 2, 3, 16):
        B(lambda dw=dw: L.SpiSlaveInst(dw, wellformed=False), cycles=2500 if quick else 30000)
    B(lambda: L.I2cInst(20, 3))
    B(lambda: L.I2cInst(20, 0))
    B(lambda: L.I2cInst(8, 11))
    B(lambda: L.I2cMasterInst(3))
    B(lambda: L.I2cMasterInst(1, overlap=0.3))
    B(lambda: L.I2cMasterInst(2, overlap=0.1, stretch=0.2))
    B(lambda: L.I2cMasterInst(7, overlap=0.5), cycles=12000 if quick else 80000)
    return H + J


CORPUS = os.path.join(os.path.dirname(os.path.dirname(os.path.dirname(os.path.abspath(__file__)))), "corpus", "C19")


def corpus_jobs():
    """Witnesses kept in corpus/C19/*.json: {"instance": <builder expression>, "trace": [...]}; replayed first, with
    the model comparison and the monitor."""
    import glob, json
    J = []
    for path in sorted(glob.glob(os.path.join(CORPUS, "*.json"))):
        w = json.load(open(path))
        mk = eval("lambda: " + w["make"], {"L": L, "spi_alphabet": spi_alphabet, "i2c_alphabet": i2c_alphabet})
        trace = [tuple(l) for l in w["trace"]]
        J.append(Job("B", (lambda mk=mk, trace=trace, path=path: L.Scripted(mk(), trace, os.path.basename(path))),
                     cycles=len(trace), runs=1))
    return J


def correspond(ctx):
    ctx.rule = ("one (state, letter) transition of the real core compared with the model at pin/port level; non-trivial = "
                "the core is active in that cycle (counter enabled, frame or transfer in progress, command strobe)")
    ctx.assumptions = [
        "CSR-backed controls (Timer, Watchdog, SPIMaster with_csr=False) are driven as plain signals: the CSR bank is "
        "C12's subject, the event manager C15's; only the raw event triggers are compared here",
        "theorem hypotheses: tuning word / SPI clk_divider / I2C divider constant during a frame or transfer; "
        "0 < tuning word < 2^32; 2 <= clk_divider < 2^16; 1 <= length <= data_width; I2C divider load >= 1; "
        "uart_loopback_partial: at least 4 cycles per bit (uart_loopback_aligned_partial: the exact alignment condition); "
        "rate tolerance: mismatch m per mille needs 6000*tw + 18*m*2^32 <= 1000*2^32 (2 %: about 9.4 cycles per bit; "
        "kernel-checked counterexamples at 4 and 9.06 cycles per bit)",
        "MultiReg synchronisers are two plain registers (metastability is C05's subject); the open-drain pads of I2CMaster "
        "are simulated by a harness stand-in for Tristate (pad = oe ? 0 : ext)",
    ]
    ctx.extra_trusted = ["pin-level monitors of harness/c19lib.py (UART/SPI/I2C decoders, cycle counters) used by the "
                         "failing-input search; they never consult the Lean model"]
    ctx.jobs = corpus_jobs() + jobs(ctx.tier)
    dis, bad = run_jobs(ctx, ctx.jobs)
    return dis


def search(ctx, disagreements, proof_info):
    """Short failing inputs first: replay the (short) mode-A disagreement traces with the pin-level monitor and
    shrink; then the generic search (monitors that fired during co-simulation, random extensions)."""
    from explore import shrink
    all_jobs = getattr(ctx, "jobs", None) or (corpus_jobs() + jobs(ctx.tier))
    cands = sorted([d for d in disagreements if getattr(d, "job", None) is not None and len(d.trace) <= 400],
                   key=lambda d: len(d.trace))
    for d in cands[:12]:
        try:
            inst = all_jobs[d.job].make()
        except Exception:
            continue
        if not hasattr(inst, "monitor"):
            continue
        tr = [tuple(l) for l in d.trace]
        r = replay_with_monitor(inst, tr)
        if r is None:
            # let the core finish what the trace started: extend with idle letters of the instance, then with the
            # instance's scripted command sequences (e.g. I2C: READ with ACK immediately followed by READ)
            exts = [[inst.idle_letter(tr[-1])] * 80] if hasattr(inst, "idle_letter") else []
            if hasattr(inst, "probe_extensions"):
                exts += inst.probe_extensions(tr[-1])
            for ext in exts:
                r = replay_with_monitor(inst, tr + ext)
                if r:
                    tr = tr + ext
                    break
        if r:
            tr = shrink(inst, tr[:r[0] + 1])
            r2 = replay_with_monitor(inst, tr)
            return {"instance": inst.name, "trace": [list(l) for l in tr], "monitor": (r2 or r)[1], "letter_format": FMT}
    return generic_search(ctx, disagreements, all_jobs, FMT)


F_WD0 = "C19-watchdog-reset-delay-0"
F_I2C = "C19-i2c-busy-command-glitch"
F_FLUSH = "C19-uart-autoflush-duplicate"


def i2c_busy_witness():
    """load := 3; START; wait; WRITE 0x55; 11 cycles later - the cycle of the WRITE0 tick - a second command write while
    the core is busy.  Before 86eb66e the strobe advanced the bit FSM off the clk2x grid: SCL low for one cycle, then SDA
    rising with SCL high (a STOP condition in the middle of the byte)."""
    idle = (0, 0, 0, 0, 0, 1, 1)
    w = lambda adr0, dat: (1, 1, 1, adr0, dat, 1, 1)
    return ([w(1, 3)] + [idle] * 2 + [w(0, L.I2C_S)] + [idle] * 12 + [w(0, L.I2C_W | 0x55)] + [idle] * 11 +
            [w(0, L.I2C_W | 0x55)] + [idle] * 14)



def probes(ctx):
    try:
        return _probes(ctx)
    except Exception as e:       # a changed implementation that no longer builds / runs: reported, not a crash
        return [(F_WD0, True, "probe raised %r" % (e,)), (F_I2C, True, "probe raised %r" % (e,)),
                (F_FLUSH, True, "probe raised %r" % (e,))]


def _probes(ctx):
    out = []
    # fixed 7ecbeb8: Watchdog(crg_rst=..., reset_delay=0) drove crg_rst high from the reset state, watchdog never
    # enabled.  Witness: control register all 0 for 6 cycles, then enabled without reset mode until it times out.
    inst = L.mk_watchdog(4, 0)
    w = [(0, 0, 0, 0, 0, 0)] * 6 + [(0, 1, 0, 0, 0, 0)] * 4
    n = inst.netlist
    highs = []
    for t, letter in enumerate(w):
        for sig, v in zip(inst.inputs, letter):
            n.set(sig, v)
        n.settle()
        if n.getu(inst.outputs[1]):
            highs.append(t)
        n.tick()
    out.append((F_WD0, bool(highs), ("Watchdog(reset_delay=0): crg_rst high in cycles %s without a timeout in reset mode" % highs)
                if highs else "witness passes"))
    # fixed 86eb66e: command written while the I2C machine is busy
    r = replay_with_monitor(L.I2cMasterInst(3), i2c_busy_witness())
    out.append((F_I2C, r is not None, ("I2CMaster: command written while busy; cycle %d: %s" % r) if r else "witness passes"))
    # fixed: UART.add_auto_tx_flush - the flush branch overrode source.ready, so a character taken by the PHY in a cycle
    # with timer.done and flush_count != 0 stayed in the TX FIFO and was sent twice
    r, _ = c19glue2.flush_dup_witness()
    out.append((F_FLUSH, r is not None, ("UART.add_auto_tx_flush: cycle %d: %s" % r) if r else "witness passes"))
    # notes (outside the property's quantifier, DESIGN 7.C19 / 8.3): kept visible in the evidence
    ctx.cov.notes.append("SPIMaster: length = 0 or length > 2^bits_for(data_width-1) never leaves RUN; clk_divider < 2 never "
                         "leaves START/STOP; lowering clk_divider at run time below the running counter stalls the clock "
                         "for up to 65536 cycles (`==` compare) - outside the quantifier (1 <= length <= data_width, "
                         "constant divider >= 2)")
    ctx.cov.notes.append("RS232PHYTX with tuning word 0 never leaves RUN (baud rate 0, outside the range); RS232PHYRX does "
                         "not check the start bit at its sample point; equal-rate loopback needs >= 4 cycles per bit (exactly: "
                         "loopbackAligned tw; 0x55555555 works, 0x55555556 does not); a +-2 % transmitter is recovered for "
                         ">= 9.375 cycles per bit (proved) and not for 4 or 9.06 cycles per bit (kernel-checked witnesses): "
                         "the receiver samples once per bit without oversampling")
    ctx.cov.notes.append("SPIMaster: the pads.cs_n register resets to 0 - chip select is asserted for one cycle after reset "
                         "without any clock pulse (a LiteX SPISlave on the other side answers with start/irq, length 0); "
                         "a platform pad signal, outside the statement (kept as the example before spi_link_served)")
    ctx.cov.notes.append("Stream2Wishbone: a byte offered in the cycle after a timeout (timer.done still high in RECEIVE-CMD) is "
                         "accepted but swallowed; the timeout covers the whole command, not the gap between bytes; "
                         "data_width/address_width 8 pass the assert but cannot be elaborated (Signal(int(log2(1)))); "
                         "length 0 runs until the timeout in the simulator (256 words in Verilog, C01's area) - outside the "
                         "statement, modelled as coded")
    ctx.cov.notes.append("bitbang.I2CMaster: w.oe gates only the SDA driver; w.scl = 0 pulls SCL low also with w.oe = 0 (the "
                         "field description says oe = 0 disconnects both drivers; the software driver relies on the code's "
                         "behaviour) - documentation mismatch, modelled as coded")
    ctx.cov.notes.append("I2CMaster: cg.load = 0 (the reset value of the divider) ticks every cycle, SCL then toggles every "
                         "sys cycle and the SDA hold stage releases data changes while SCL is high - the divider range is "
                         "load >= 1 (hypothesis of i2c_pad_legal); a command written while busy is ignored (since 86eb66e "
                         "also by the bit FSM) but a data write while busy still replaces the byte being shifted")
    return out


def replay(ctx, payload):
    from explore import generic_replay
    return generic_replay(ctx, payload, corpus_jobs() + jobs("thorough") + jobs("quick"))
