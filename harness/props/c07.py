"""C07 — Wishbone adapters and memories are transparent to the master (flat byte-addressable memory)."""
import time
from explore import Job, run_jobs, generic_search, generic_replay
import c07lib as L
from c07lib import WbInst, MasterMemMonitor, SlaveSideMonitor, Both, ClassicMaster, BurstMaster, RefSlave, CsrGen


def words_init(n, nb, f):
    return [f(i) & ((1 << (8 * nb)) - 1) for i in range(n)]


def init_bytes(words, nb):
    out = []
    for w in words:
        out += L.bytes_of(w, nb)
    return out


def P(*xs):
    return " ".join(str(x) for x in xs)


# ---------------------------------------------------------------------------------------------------------
# instance factories

def sram_inst(name, dw, depth, aw, ro=False, burst=False, init=None, mode="A", adrs=None, sels=None,
              ctis=((0, 0),)):
    nb = dw // 8
    init = init or []
    top = L.build_sram(dw, depth, aw, ro=ro, burst=burst, init=list(init) or None)
    lean_open = P("sram", nb, depth, aw, int(ro), int(burst), *init)
    mon = lambda: MasterMemMonitor(nb, depth * nb, init_bytes(init, nb), max_wait=4, bursts=burst, read_only=ro)
    if mode == "A":
        alpha = L.master_letters(nb, adrs, sels if sels is not None else range(1 << nb), L.lane_values(nb), ctis)
        return WbInst(name, top, lean_open, alphabet=alpha, monitor=mon)
    mg = BurstMaster(nb, (1 << aw) - 1) if burst else ClassicMaster(nb, (1 << aw) - 1, cti_random=True)
    return WbInst(name, top, lean_open, master_gen=mg, monitor=mon)


def conv_inst(name, dwm, dws, awm, mode="A", adrs=None, sels=None, ctis=((0, 0),), slave_letters=None):
    nbm, nbs = dwm // 8, dws // 8
    top = L.build_conv(dwm, dws, awm)
    if dwm > dws:
        lean_open = P("down", nbs, L.log2i(dwm // dws))
    else:
        lean_open = P("up", nbm, L.log2i(dws // dwm))
    if mode == "A":
        alpha = L.with_slave(L.master_letters(nbm, adrs, sels, L.lane_values(nbm), ctis, extra_idle=True),
                             slave_letters)
        return WbInst(name, top, lean_open, alphabet=alpha, kind="adapter", monitor=lambda: SlaveSideMonitor())
    mon = lambda: Both(MasterMemMonitor(nbm, 1 << 40, max_wait=40 * max(1, dwm // dws)), SlaveSideMonitor())
    return WbInst(name, top, lean_open, kind="adapter", master_gen=ClassicMaster(nbm, (1 << awm) - 1, cti_random=True),
                  slave_gen=RefSlave(nbs), monitor=mon)


def conv_sram_inst(name, dwm, dws, awm, depth, init=None, mode="A", adrs=None, sels=None, ctis=((0, 0),)):
    nbm, nbs = dwm // 8, dws // 8
    init = init or []
    top = L.build_conv_sram(dwm, dws, awm, depth, init=list(init) or None)
    if dwm > dws:
        lean_open = P("down_sram", nbs, L.log2i(dwm // dws), depth, top.aws, 0, 0, *init)
    else:
        lean_open = P("up_sram", nbm, L.log2i(dws // dwm), depth, top.aws, 0, 0, *init)
    mon = lambda: MasterMemMonitor(nbm, depth * nbs, init_bytes(init, nbs), max_wait=4 * max(1, dwm // dws) + 2)
    if mode == "A":
        alpha = L.master_letters(nbm, adrs, sels, L.lane_values(nbm), ctis)
        return WbInst(name, top, lean_open, alphabet=alpha, monitor=mon)
    return WbInst(name, top, lean_open, master_gen=ClassicMaster(nbm, (1 << awm) - 1, cti_random=True), monitor=mon)


def remap_inst(name, dw, aw, origin, size, regions, addressing="word", depth=None, init=None, mode="A", adrs=None):
    nb = dw // 8
    init = init or []
    top = L.build_remap(dw, aw, origin, size, regions, addressing, depth=depth, init=list(init) or None)
    p = L.remap_params(dw, aw, origin, size, regions, addressing)
    aw_sig = p[1]
    if depth is None:
        lean_open = P("remap", *p)
        if mode == "A":
            ml = [(0, 0, 0, 0, 0, 0, 0, 0)] + [(1, 1, we, a, (1 << nb) - 1, 0, 0, 0) for a in adrs for we in (0, 1)]
            alpha = L.with_slave(ml, [(0, 0, 0), (1, L.lane_values(nb)[1], 0), (0, 0, 1)])
            return WbInst(name, top, lean_open, alphabet=alpha, kind="adapter", monitor=lambda: SlaveSideMonitor())
        return WbInst(name, top, lean_open, kind="adapter", master_gen=ClassicMaster(nb, (1 << aw_sig) - 1),
                      slave_gen=RefSlave(nb), monitor=lambda: SlaveSideMonitor())
    lean_open = P("remap_sram", *p, depth, *init)
    alpha = L.master_letters(nb, adrs, [(1 << nb) - 1, 1], L.lane_values(nb)) if mode == "A" else None
    return WbInst(name, top, lean_open, alphabet=alpha, master_gen=ClassicMaster(nb, (1 << aw_sig) - 1))


def wb2csr_inst(name, dw, aw, register, caw=14, mode="A", adrs=None):
    nb = dw // 8
    top = L.build_wb2csr(dw, aw, register, caw)
    lean_open = P("wb2csr", nb, int(register), 0, caw)
    mon = lambda: MasterMemMonitor(nb, 1 << 40, max_wait=4, write_mask_all=True, adr_map=lambda a: a % (1 << caw))
    if mode == "A":
        ml = L.master_letters(nb, adrs, range(1 << nb), L.lane_values(nb))
        alpha = [m + (d,) for m in ml for d in L.lane_values(nb)]
        return WbInst(name, top, lean_open, alphabet=alpha, kind="csr")
    return WbInst(name, top, lean_open, kind="csr", master_gen=ClassicMaster(nb, (1 << aw) - 1),
                  slave_gen=CsrGen(nb), monitor=mon)


def cache_inst(name, cachesize, dwm, dws, awm, aws, reverse=True, depth=None, init=None, mode="A", adrs=None,
               sels=None, slave_letters=None, zero_tag0=True):
    nbm, nbs = dwm // 8, dws // 8
    init = init or []
    top = L.build_cache(cachesize, dwm, dws, awm, aws, reverse, depth=depth, init=list(init) or None)
    cp = L.cache_params(cachesize, dwm, dws, awm, aws, reverse)
    g = L.cache_geometry(cachesize, dwm, dws, awm, aws)
    noff = 1 << g["offsetbits"]

    def byte_map(adr, lane):
        """Backing byte address of lane `lane` of master word `adr`: `reverse=True` stores the master words of a
        line most-significant-first in the (wider) slave word."""
        off = adr % noff
        chunk = noff - 1 - off if reverse else off
        return (adr // noff) * max(nbs, nbm) + chunk * nbm + lane
    if depth is None:
        lean_open = P("cache", *cp)
        if mode == "A":
            alpha = L.with_slave(L.master_letters(nbm, adrs, sels, L.lane_values(nbm), extra_idle=False), slave_letters)
            return WbInst(name, top, lean_open, alphabet=alpha, kind="adapter", monitor=lambda: SlaveSideMonitor())
        # backing memory content 0 on tag-0 lines (hypothesis of cache_refines_mem_partial), non-zero elsewhere
        tagshift = g["linebits"] + g["wordbits"]          # in slave words

        def backing(a):
            sw = a // nbs
            return 0 if (sw >> tagshift) == 0 else (a * 37 + 11) & 0xFF
        mon = lambda: Both(MasterMemMonitor(nbm, 1 << 40, max_wait=60 * (1 << g["wordbits"]) + 20,
                                            init_fn=backing, byte_map=byte_map), SlaveSideMonitor())
        return WbInst(name, top, lean_open, kind="adapter",
                      master_gen=ClassicMaster(nbm, min((1 << awm) - 1, cachesize * 8), hot=12),
                      slave_gen=RefSlave(nbs, init_fn=backing, garbage=False), monitor=mon)
    lean_open = P("cache_sram", *cp, depth, aws, *init)
    mon = lambda: MasterMemMonitor(nbm, depth * nbs, init_bytes(init, nbs), byte_map=byte_map,
                                   max_wait=8 * (1 << L.log2i(max(dwm // dws, 1))) + 8)
    alpha = L.master_letters(nbm, adrs, sels, L.lane_values(nbm), extra_idle=False) if mode == "A" else None
    return WbInst(name, top, lean_open, alphabet=alpha, master_gen=ClassicMaster(nbm, (1 << awm) - 1, hot=12),
                  monitor=mon)


# ---------------------------------------------------------------------------------------------------------

def jobs(tier):
    quick = tier == "quick"
    J = []

    def A(mk, q=None, **kw):
        """Exhaustive co-exploration; `q` bounds the number of product states in the quick tier (the thorough
        tier explores the complete reachable product)."""
        J.append(Job("A", mk, max_states=(q if quick and q else 3000000), **kw))

    def B(mk, **kw):
        J.append(Job("B", mk, cycles=kw.pop("cycles", 4000 if quick else 40000), runs=1 if quick else 4, **kw))

    S1 = [(0, 0, 0), (1, 0, 0), (1, 0xA1, 0), (0, 0xA1, 0)]
    CT = ((0, 0), (2, 0), (7, 0), (2, 1), (7, 1))
    # --- SRAM
    A(lambda: sram_inst("SRAM d4 dw8", 8, 4, 3, adrs=range(6)))
    A(lambda: sram_inst("SRAM d2 dw16", 16, 2, 2, adrs=range(3)))
    if not quick:
        A(lambda: sram_inst("SRAM d4 dw16", 16, 4, 3, adrs=range(5)))
    A(lambda: sram_inst("SRAM d4 dw8 read_only", 8, 4, 3, ro=True, init=[0xA1, 0, 0xB2, 5], adrs=range(6)))
    A(lambda: sram_inst("SRAM d3 dw8 (non-pow2 depth)", 8, 3, 3, adrs=range(5)))
    A(lambda: sram_inst("SRAM d2 dw8 burst", 8, 2, 3, burst=True, adrs=range(4), sels=[1], ctis=CT))
    if not quick:
        A(lambda: sram_inst("SRAM d4 dw8 burst", 8, 4, 3, burst=True, adrs=range(5), sels=[1], ctis=CT))
    A(lambda: sram_inst("SRAM d4 dw8 burst read_only", 8, 4, 3, burst=True, ro=True, init=[0xA1, 0, 0xB2, 5],
                        adrs=range(5), sels=[1], ctis=CT + ((2, 2), (2, 3))))
    # --- converters alone (free slave port)
    A(lambda: conv_inst("Down 16->8", 16, 8, 1, adrs=[0, 1], sels=range(4),
                        ctis=((0, 0), (2, 0), (7, 0), (2, 1)), slave_letters=S1))
    A(lambda: conv_inst("Down 32->8", 32, 8, 1, adrs=[0, 1], sels=[0, 0xF, 1, 8, 6], slave_letters=S1))
    A(lambda: conv_inst("Up 8->16", 8, 16, 2, adrs=range(4), sels=[0, 1],
                        slave_letters=[(0, 0, 0), (1, 0xB2A1, 0), (1, 0, 1), (0, 0xB2A1, 1)]))
    A(lambda: conv_inst("Up 8->32", 8, 32, 3, adrs=range(8), sels=[0, 1],
                        slave_letters=[(0, 0, 0), (1, 0xD4C3B2A1, 0), (0, 0, 1)]))
    # --- converters over a real SRAM (real modules composed in one Migen module)
    A(lambda: conv_sram_inst("Down 16->8 / SRAM d4", 16, 8, 2, 4, adrs=range(2 if quick else 3), sels=range(4)))
    A(lambda: conv_sram_inst("Down 32->8 / SRAM d4", 32, 8, 2, 4, adrs=range(2), sels=[0, 0xF, 1, 8, 6, 3]), q=900)
    if not quick:
        A(lambda: conv_sram_inst("Down 32->8 / SRAM d8", 32, 8, 2, 8, adrs=range(3), sels=[0, 0xF, 1, 8, 6]))
    A(lambda: conv_sram_inst("Up 8->16 / SRAM d2", 8, 16, 4, 2, adrs=range(5), sels=[0, 1]))
    A(lambda: conv_sram_inst("Up 8->32 / SRAM d2", 8, 32, 4, 2, adrs=range(5 if quick else 9), sels=[0, 1]))
    if not quick:
        A(lambda: conv_sram_inst("Up 8->16 / SRAM d4", 8, 16, 4, 4, adrs=range(9), sels=[0, 1]))
    # --- remapper
    REG = [(0x4, 4, 0x18), (0x8, 2, 0x0)]
    A(lambda: remap_inst("Remap word dw16 2 regions", 16, 4, 0x10, 16, REG, adrs=range(16)))
    A(lambda: remap_inst("Remap byte dw16 2 regions", 16, 4, 0x10, 16, REG, addressing="byte", adrs=range(32)))
    A(lambda: remap_inst("Remap word dw8 2 regions / SRAM d4", 8, 3, 0x0, 4, [(0x1, 1, 0x2), (0x2, 1, 0x1)], depth=4,
                         adrs=range(5)))
    if not quick:
        A(lambda: remap_inst("Remap word dw8 2 regions / SRAM d8", 8, 4, 0x0, 8, [(0x2, 2, 0x4), (0x4, 2, 0x2)],
                             depth=8, adrs=range(9)))
    # --- Wishbone2CSR
    A(lambda: wb2csr_inst("Wishbone2CSR registered dw16", 16, 3, True, caw=2, adrs=range(5)))
    A(lambda: wb2csr_inst("Wishbone2CSR unregistered dw16", 16, 3, False, caw=2, adrs=range(5)))
    # --- cache, 2 lines x 2 words, both width directions
    A(lambda: cache_inst("Cache 8->16 2 lines x 2 words (free slave)", 4, 8, 16, 3, 2, adrs=range(8), sels=[0, 1],
                         slave_letters=[(0, 0, 0), (1, 0, 0), (1, 0xB2A1, 0)]), q=350)
    A(lambda: cache_inst("Cache 16->8 2 lines x 2 words (free slave)", 2, 16, 8, 2, 3, adrs=range(4), sels=[0, 3, 1],
                         slave_letters=[(0, 0, 0), (1, 0, 0), (1, 0xA1, 0)]), q=450)
    A(lambda: cache_inst("Cache 8->16 / SRAM d4", 4, 8, 16, 3, 2, depth=4, adrs=range(8), sels=[1]), q=2000)
    A(lambda: cache_inst("Cache 16->8 / SRAM d8", 2, 16, 8, 2, 3, depth=8, adrs=range(4), sels=[3, 1]), q=2000)
    # --- realistic sizes, random lock-step co-simulation with the monitors armed
    B(lambda: sram_inst("SRAM 4KiB dw32", 32, 1024, 30, mode="B", init=words_init(64, 4, lambda i: i * 0x01010101 + 7)))
    B(lambda: sram_inst("SRAM 1KiB dw64 burst", 64, 128, 29, burst=True, mode="B"))
    B(lambda: sram_inst("SRAM 256B dw32 burst", 32, 64, 30, burst=True, mode="B"))
    B(lambda: sram_inst("SRAM 512B dw128 read_only", 128, 32, 28, ro=True, mode="B",
                        init=words_init(32, 16, lambda i: (i + 1) * 0x0123456789ABCDEF0F1E2D3C4B5A6978)))
    for dwm, dws in ((64, 32), (128, 32), (64, 8), (32, 64), (32, 128), (8, 64)):
        B(lambda dwm=dwm, dws=dws: conv_inst("Converter %d->%d (ref slave)" % (dwm, dws), dwm, dws, 12, mode="B"))
    B(lambda: conv_sram_inst("Down 64->32 / SRAM 1KiB", 64, 32, 10, 256, mode="B"))
    B(lambda: conv_sram_inst("Down 128->32 / SRAM 1KiB", 128, 32, 10, 256, mode="B",
                             init=words_init(256, 4, lambda i: i * 0x9E3779B1)))
    B(lambda: conv_sram_inst("Up 32->128 / SRAM 1KiB", 32, 128, 10, 64, mode="B"))
    B(lambda: remap_inst("Remap word dw32 3 regions (ref slave)", 32, 30, 0x0, 0x20000000,
                         [(0x0, 65536, 0xF0000000), (0x10000, 64, 0x81000000), (0x10040, 8, 0x20000000)], mode="B"))
    B(lambda: wb2csr_inst("Wishbone2CSR registered dw32", 32, 30, True, mode="B"))
    B(lambda: wb2csr_inst("Wishbone2CSR unregistered dw32", 32, 30, False, mode="B"))
    B(lambda: cache_inst("Cache 16 words 32->128 (ref slave)", 16, 32, 128, 12, 10, mode="B"))
    B(lambda: cache_inst("Cache 64 words 32->32 (ref slave)", 64, 32, 32, 12, 12, mode="B"))
    B(lambda: cache_inst("Cache 32 words 64->16 (ref slave)", 32, 64, 16, 10, 12, mode="B"))
    B(lambda: cache_inst("Cache 1024 words 32->64 reverse=False (ref slave)", 1024, 32, 64, 14, 13, reverse=False,
                         mode="B"))
    return J


def correspond(ctx):
    ctx.jobs = jobs(ctx.tier)
    dis, bad = run_jobs(ctx, ctx.jobs)
    return dis


def search(ctx, disagreements, proof_info):
    return generic_search(ctx, disagreements, getattr(ctx, "jobs", None) or jobs(ctx.tier), L.FMT_ADAPTER)


def replay(ctx, payload):
    return generic_replay(ctx, payload, jobs("thorough"))
