"""C07 — Wishbone adapters and memories are transparent to the master (flat byte-addressable memory)."""
import time
from explore import Job, run_jobs, generic_search, generic_replay
import c07lib as L
from c07lib import (WbInst, MasterMemMonitor, SlaveSideMonitor, Both, ClassicMaster, BurstMaster, RefSlave, CsrGen,
                    EnvSlaveCheck, EnvCsrCheck, Guarded)


def words_init(n, nb, f):
    return [f(i) & ((1 << (8 * nb)) - 1) for i in range(n)]


def init_bytes(words, nb):
    out = []
    for w in words:
        out += L.bytes_of(w, nb)
    return out


def P(*xs):
    return " ".join(str(x) for x in xs)


# ---------------------------------------------------------------------------------------------------------
# instance factories

def sram_inst(name, dw, depth, aw, ro=False, burst=False, init=None, mode="A", adrs=None, sels=None,
              ctis=((0, 0),), from_memory=False, adr_max=None, default_bus=False):
    nb = dw // 8
    init = init or []
    top = L.build_sram(dw, depth, aw, ro=ro, burst=burst, init=list(init) or None, from_memory=from_memory,
                       default_bus=default_bus)
    lean_open = P("sram", nb, depth, aw, int(ro), int(burst), *init)
    mon = lambda: MasterMemMonitor(nb, depth * nb, init_bytes(init, nb), max_wait=4, bursts=burst, read_only=ro)
    if mode == "A":
        alpha = L.master_letters(nb, adrs, sels if sels is not None else range(1 << nb), L.lane_values(nb), ctis)
        return WbInst(name, top, lean_open, alphabet=alpha, monitor=mon)
    amax = adr_max if adr_max is not None else (1 << aw) - 1
    mg = BurstMaster(nb, amax) if burst else ClassicMaster(nb, amax, cti_random=True)
    return WbInst(name, top, lean_open, master_gen=mg, monitor=mon)


def direct_inst(name, kind, dw, aw, mode="A"):
    """Equal-width Converter / Cache(0): plain connections (model: `direct`)."""
    nb = dw // 8
    top = L.build_direct(kind, dw, aw)
    lean_open = P("direct", nb)
    if mode == "A":
        ml = L.master_letters(nb, range(3), [0, (1 << nb) - 1, 1], L.lane_values(nb), ctis=((0, 0), (2, 1)))
        alpha = L.with_slave(ml, [(0, 0, 0), (1, L.lane_values(nb)[1], 0), (0, 0, 1), (1, 0, 1)])
        return WbInst(name, top, lean_open, alphabet=alpha, kind="adapter", monitor=lambda: SlaveSideMonitor())
    rs = RefSlave(nb)

    def mon():
        env = EnvSlaveCheck(nb, max_silent=rs.max_silent)
        return Guarded(env, MasterMemMonitor(nb, 1 << 40, max_wait=rs.request_cycles + 2, backing=env), SlaveSideMonitor())
    return WbInst(name, top, lean_open, kind="adapter", master_gen=ClassicMaster(nb, (1 << aw) - 1, cti_random=True),
                  slave_gen=rs, monitor=mon)


def soc_glue_inst(name, bus_dw, master_dw, bursting=False, master_addressing="word"):
    """Monitor-only instance built through the SoC glue (add_ram, add_master/add_adapter, finalize): no Lean model
    (the interconnect belongs to C06); judged by the reference byte memory."""
    nbm = master_dw // 8
    ram_size, rom_size = 256, 128
    bw = bus_dw // 8                                   # `contents` are words of the bus width
    bmask = (1 << bus_dw) - 1
    ram_init = [(0x0100019301000193 * (i + 1)) & bmask for i in range(ram_size // bw - 3)]
    rom_init = [(0x9E3779B19E3779B1 * (i + 5)) & bmask for i in range(rom_size // bw)]
    top = L.build_soc_glue(bus_dw, master_dw, bursting, ram_size, rom_size, ram_init, rom_init, master_addressing)
    sh = L.log2i(nbm)
    ashift = sh if master_addressing == "byte" else 0          # letters carry the port's own address unit
    regions = [(0x20000000, ram_size), (0x30000000, rom_size)]
    hot = []
    for org, size in regions:
        hot += [((org + o) >> sh) << ashift for o in range(0, size, nbm)]
    init = {}
    for org, words in ((0x20000000, ram_init), (0x30000000, rom_init)):
        for i, w in enumerate(words):
            for k in range(bw):
                init[org + bw * i + k] = (w >> (8 * k)) & 0xFF

    def byte_map(adr, lane):
        return ((adr >> ashift) << sh) + lane
    mon = lambda: MasterMemMonitor(nbm, 1 << 40, max_wait=24, byte_map=byte_map, init_fn=lambda a: init.get(a, 0),
                                   ro_ranges=[(0x30000000, 0x30000000 + rom_size)], bursts=bursting)
    mg = _RegionMaster(nbm, hot, bursting, ashift)
    return WbInst(name, top, None, master_gen=mg, monitor=mon)


class _RegionMaster(ClassicMaster):
    """Classic master (or linear-burst master) that only addresses the given word addresses (SoC regions: an
    unmapped address would wait for the bus timeout)."""
    def __init__(self, nb, adrs, bursting, ashift):
        ClassicMaster.__init__(self, nb, max(adrs), hot=0, hot_adrs=adrs)
        self.adrs, self.bursting, self.ashift = adrs, bursting, ashift
        self.beats = []
        self.gap = []

    def reset(self):
        ClassicMaster.reset(self)
        self.beats = []
        self.gap = []

    def next(self, rng, t, last_letter, last_outs):
        if self.pending is not None and last_outs is not None and not last_outs[0]:
            return self.pending
        self.pending = None
        if self.gap:
            return self.gap.pop(0)
        if self.beats and rng.random() < 0.2:
            # inside a burst: master wait states (STB low, CYC held; the coming beat's lines held, or garbage on
            # them), or the burst abandoned by dropping CYC
            nxt = self.beats[0]
            k = rng.random()
            if k < 0.6:
                self.gap = [(1, 0) + tuple(nxt[2:])] * rng.randint(1, 3)
            elif k < 0.85:
                self.gap = [(1, 0, rng.randint(0, 1), rng.choice(self.adrs), rng.randint(0, (1 << self.nb) - 1),
                             rng.randint(0, (1 << (8 * self.nb)) - 1), rng.choice((0, 2, 7)), rng.randint(0, 3))]
            else:
                self.beats = []
                self.gap = [(0, 0) + tuple(nxt[2:])]
            return self.gap.pop(0)
        if not self.beats:
            if rng.random() < 0.25:
                if rng.random() < 0.3:      # cyc without stb, garbage (burst tags included) on the other lines
                    return (1, 0, rng.randint(0, 1), rng.choice(self.adrs), rng.randint(0, (1 << self.nb) - 1),
                            rng.randint(0, (1 << (8 * self.nb)) - 1), rng.choice((0, 2, 7)), rng.randint(0, 3))
                return (0, 0, 0, 0, 0, 0, 0, 0)
            full = (1 << self.nb) - 1
            we = rng.randint(0, 1)
            k = rng.randrange(len(self.adrs))
            n = rng.randint(2, 5) if (self.bursting and rng.random() < 0.5) else 1
            n = min(n, len(self.adrs) - k)
            if n > 1 and (self.adrs[k + n - 1] - self.adrs[k]) != (n - 1) << self.ashift:
                n = 1       # do not run a burst across a region boundary
            for b in range(n):
                sel = full if rng.random() < 0.5 else rng.randint(0, full)
                cti = 0 if n == 1 else (7 if b == n - 1 else 2)
                self.beats.append((1, 1, we, self.adrs[k + b], sel, rng.randint(0, (1 << (8 * self.nb)) - 1), cti, 0))
        self.pending = self.beats.pop(0)
        return self.pending


def conv_inst(name, dwm, dws, awm, mode="A", adrs=None, sels=None, ctis=((0, 0),), slave_letters=None):
    nbm, nbs = dwm // 8, dws // 8
    top = L.build_conv(dwm, dws, awm)
    if dwm > dws:
        lean_open = P("down", nbs, L.log2i(dwm // dws))
    else:
        lean_open = P("up", nbm, L.log2i(dws // dwm))
    if mode == "A":
        alpha = L.with_slave(L.master_letters(nbm, adrs, sels, L.lane_values(nbm), ctis, extra_idle=True),
                             slave_letters)
        return WbInst(name, top, lean_open, alphabet=alpha, kind="adapter", monitor=lambda: SlaveSideMonitor())
    rs = RefSlave(nbs)
    # liveness bound from the environment's own bound (down_ack_within / up_ack_same_cycle): every sub-word request
    # lasts at most D = L + 2 cycles, a skipped sub-word 1 cycle
    kmax = max(1, dwm // dws) * rs.request_cycles + 2

    def mon():
        env = EnvSlaveCheck(nbs, max_silent=rs.max_silent)
        return Guarded(env, MasterMemMonitor(nbm, 1 << 40, max_wait=kmax, backing=env), SlaveSideMonitor())
    return WbInst(name, top, lean_open, kind="adapter", master_gen=ClassicMaster(nbm, (1 << awm) - 1, cti_random=True),
                  slave_gen=rs, monitor=mon)


def conv_sram_inst(name, dwm, dws, awm, depth, init=None, mode="A", adrs=None, sels=None, ctis=((0, 0),), burst=False,
                   wrapping=False):
    """Converter over a real SRAM.  `burst=True`: the SRAM's bus is bursting and (mode B) the master issues
    linear incrementing bursts, which the DownConverter forwards as bursts (wrapping ones it turns classic)."""
    nbm, nbs = dwm // 8, dws // 8
    init = init or []
    top = L.build_conv_sram(dwm, dws, awm, depth, init=list(init) or None, burst=burst)
    if dwm > dws:
        lean_open = P("down_sram", nbs, L.log2i(dwm // dws), depth, top.aws, 0, int(burst), *init)
    else:
        lean_open = P("up_sram", nbm, L.log2i(dws // dwm), depth, top.aws, 0, int(burst), *init)
    mon = lambda: MasterMemMonitor(nbm, depth * nbs, init_bytes(init, nbs), max_wait=4 * max(1, dwm // dws) + 2,
                                   bursts=burst)
    if mode == "A":
        alpha = L.master_letters(nbm, adrs, sels, L.lane_values(nbm), ctis)
        return WbInst(name, top, lean_open, alphabet=alpha, monitor=mon)
    mg = (BurstMaster(nbm, (1 << awm) - 1, linear_only=not wrapping) if burst
          else ClassicMaster(nbm, (1 << awm) - 1, cti_random=True))
    return WbInst(name, top, lean_open, master_gen=mg, monitor=mon)


def remap_inst(name, dw, aw, origin, size, regions, addressing="word", depth=None, init=None, mode="A", adrs=None,
               hot_adrs=()):
    nb = dw // 8
    init = init or []
    top = L.build_remap(dw, aw, origin, size, regions, addressing, depth=depth, init=list(init) or None)
    p = L.remap_params(dw, aw, origin, size, regions, addressing)
    aw_sig = p[1]
    ref = L.ref_remap(dw, aw, origin, size, regions, addressing)
    if addressing == "byte":        # byte-addressed bus: the word address is adr >> log2(nb)
        wmap = lambda a: ref(a) >> L.log2i(nb)
    else:
        wmap = ref
    if depth is None:
        lean_open = P("remap", *p)
        if mode == "A":
            ml = [(0, 0, 0, 0, 0, 0, 0, 0)] + [(1, 1, we, a, (1 << nb) - 1, 0, 0, 0) for a in adrs for we in (0, 1)]
            # master wait state / dropped cycle with the other lines driven (address in a remapped window)
            ml += [(1, 0, 1, list(adrs)[len(list(adrs)) // 2], (1 << nb) - 1, L.lane_values(nb)[1], 2, 1),
                   (0, 1, 0, list(adrs)[-1], 1, 0, 7, 0)]
            alpha = L.with_slave(ml, [(0, 0, 0), (1, L.lane_values(nb)[1], 0), (0, 0, 1)])
            return WbInst(name, top, lean_open, alphabet=alpha, kind="adapter", monitor=lambda: SlaveSideMonitor())
        rs = RefSlave(nb, adr_shift=L.log2i(nb) if addressing == "byte" else 0)

        def mon():
            env = EnvSlaveCheck(nb, adr_shift=rs.adr_shift, max_silent=rs.max_silent)
            return Guarded(env, MasterMemMonitor(nb, 1 << 48, max_wait=rs.request_cycles + 2, adr_map=wmap, backing=env),
                           SlaveSideMonitor())
        return WbInst(name, top, lean_open, kind="adapter",
                      master_gen=ClassicMaster(nb, (1 << aw_sig) - 1, hot_adrs=hot_adrs),
                      slave_gen=rs, monitor=mon)
    lean_open = P("remap_sram", *p, depth, *init)
    alpha = L.master_letters(nb, adrs, [(1 << nb) - 1, 1], L.lane_values(nb)) if mode == "A" else None
    mon = lambda: MasterMemMonitor(nb, depth * nb, init_bytes(init, nb), max_wait=4, adr_map=wmap)
    return WbInst(name, top, lean_open, alphabet=alpha, master_gen=ClassicMaster(nb, (1 << aw_sig) - 1), monitor=mon)


def wb2csr_inst(name, dw, aw, register, caw=14, mode="A", adrs=None, addressing="word"):
    """`aw` counts word-address bits; a byte-addressed bus has log2(nb) more address lines, which the bridge drops."""
    nb = dw // 8
    shift = L.log2i(nb) if addressing == "byte" else 0
    top = L.build_wb2csr(dw, aw, register, caw, addressing)
    lean_open = P("wb2csr", nb, int(register), shift, caw)
    mon = lambda: Guarded(EnvCsrCheck(), MasterMemMonitor(nb, 1 << 40, max_wait=4, write_mask_all=True,
                                                          adr_map=lambda a: (a >> shift) % (1 << caw)))
    aw = aw + shift
    if mode == "A":
        ml = L.master_letters(nb, adrs, range(1 << nb), L.lane_values(nb))
        alpha = [m + (d,) for m in ml for d in L.lane_values(nb)]
        return WbInst(name, top, lean_open, alphabet=alpha, kind="csr")
    return WbInst(name, top, lean_open, kind="csr", master_gen=ClassicMaster(nb, (1 << aw) - 1),
                  slave_gen=CsrGen(nb), monitor=mon)


def wb2csr_bank_inst(name, dw, aw, register, regs, caw=14, paging=0x800, address=0, mode="A", adrs=None,
                     addressing="word", sels=None):
    """Wishbone2CSR over a real CSRBank of CSRStorage registers (model: bridge model over b-c12's bank model).
    Mode B addresses the bank's words only (elsewhere the CSR bus reads 0 and drops writes) and is judged by the
    reference byte memory with whole-word writes (open finding C07-wb2csr-no-byte-enables)."""
    nb = dw // 8
    shift = L.log2i(nb) if addressing == "byte" else 0
    top = L.build_wb2csr_bank(dw, aw, register, regs, caw=caw, paging=paging, address=address, addressing=addressing)
    pbits = L.log2i(paging // 4)
    p = [nb, int(register), shift, caw, dw, 0, pbits, address, len(regs)]
    for size, reset, atomic in regs:
        p += [0, size, reset, int(atomic), 0, 0]
    lean_open = P("wb2csr_bank", *p)
    if mode == "A":
        ml = L.master_letters(nb, adrs, sels if sels is not None else range(1 << nb), L.lane_values(nb))
        return L.BankInst(name, top, lean_open, alphabet=ml)
    wmap = L.bank_word_map(dw, regs, paging, address)
    init = {}
    for a, (k, w) in wmap.items():
        for lane in range(nb):
            init[a * nb + lane] = ((regs[k][1] & ((1 << regs[k][0]) - 1)) >> (dw * w + 8 * lane)) & 0xFF
    # a register word narrower than the bus keeps only its own bits: address full-width words only
    full = [a for a, (k, w) in sorted(wmap.items()) if regs[k][0] - dw * w >= dw and not regs[k][2]]
    mon = lambda: MasterMemMonitor(nb, 1 << 40, max_wait=4, write_mask_all=True, init_fn=lambda b: init.get(b, 0),
                                   adr_map=lambda a: (a >> shift) % (1 << caw))
    mg = _RegionMaster(nb, [a << shift for a in full], False, 0)
    return L.BankInst(name, top, lean_open, master_gen=mg, monitor=mon)


def cache_inst(name, cachesize, dwm, dws, awm, aws, reverse=True, depth=None, init=None, mode="A", adrs=None,
               sels=None, slave_letters=None, zero_tag0=True):
    nbm, nbs = dwm // 8, dws // 8
    init = init or []
    top = L.build_cache(cachesize, dwm, dws, awm, aws, reverse, depth=depth, init=list(init) or None)
    cp = L.cache_params(cachesize, dwm, dws, awm, aws, reverse)
    g = L.cache_geometry(cachesize, dwm, dws, awm, aws)
    noff = 1 << g["offsetbits"]

    def byte_map(adr, lane):
        """Backing byte address of lane `lane` of master word `adr`: `reverse=True` stores the master words of a
        line most-significant-first in the (wider) slave word."""
        off = adr % noff
        chunk = noff - 1 - off if reverse else off
        return (adr // noff) * max(nbs, nbm) + chunk * nbm + lane
    if depth is None:
        lean_open = P("cache", *cp)
        if mode == "A":
            alpha = L.with_slave(L.master_letters(nbm, adrs, sels, L.lane_values(nbm), extra_idle=False), slave_letters)
            return WbInst(name, top, lean_open, alphabet=alpha, kind="adapter", monitor=lambda: SlaveSideMonitor())
        # backing memory content 0 on tag-0 lines (hypothesis of cache_refines_mem_partial), non-zero elsewhere
        tagshift = g["linebits"] + g["wordbits"]          # in slave words

        def backing(a):
            sw = a // nbs
            return 0 if (sw >> tagshift) == 0 else (a * 37 + 11) & 0xFF
        rs = RefSlave(nbs, init_fn=backing, garbage=False)
        # cache_ack_within: 3 + 2 * 2^wordbits * D cycles with D = L + 2 the duration of one slave-side request
        kmax = 3 + 2 * (1 << g["wordbits"]) * rs.request_cycles + 2

        def mon():
            env = EnvSlaveCheck(nbs, init_fn=backing, max_silent=rs.max_silent, check_unselected=True)
            return Guarded(env, MasterMemMonitor(nbm, 1 << 40, max_wait=kmax, init_fn=backing, byte_map=byte_map),
                           SlaveSideMonitor())
        return WbInst(name, top, lean_open, kind="adapter",
                      master_gen=ClassicMaster(nbm, min((1 << awm) - 1, cachesize * 8), hot=12),
                      slave_gen=rs, monitor=mon)
    lean_open = P("cache_sram", *cp, depth, aws, *init)
    mon = lambda: MasterMemMonitor(nbm, depth * nbs, init_bytes(init, nbs), byte_map=byte_map,
                                   max_wait=8 * (1 << L.log2i(max(dwm // dws, 1))) + 8)
    alpha = L.master_letters(nbm, adrs, sels, L.lane_values(nbm), extra_idle=False) if mode == "A" else None
    return WbInst(name, top, lean_open, alphabet=alpha, master_gen=ClassicMaster(nbm, (1 << awm) - 1, hot=12),
                  monitor=mon)


# ---------------------------------------------------------------------------------------------------------

def jobs(tier):
    quick = tier == "quick"
    J = []

    def A(mk, q=None, t=None, w=1, **kw):
        """Exhaustive co-exploration; `q` / `t` bound the number of product states in the quick / thorough tier
        (None: the complete reachable product is explored; bounded jobs report exhaustive=false).  `w`: relative
        cost, the costly jobs are started first."""
        jb = Job("A", mk, max_states=((q if quick else t) or 3000000), **kw)
        jb.weight = w
        J.append(jb)

    def B(mk, **kw):
        jb = Job("B", mk, cycles=kw.pop("cycles", 3000 if quick else 20000), runs=1 if quick else 3, **kw)
        jb.weight = 2
        J.append(jb)

    S1 = [(0, 0, 0), (1, 0, 0), (1, 0xA1, 0), (0, 0xA1, 0)]
    CT = ((0, 0), (2, 0), (7, 0), (2, 1), (7, 1))
    # --- SRAM
    A(lambda: sram_inst("SRAM d4 dw8", 8, 4, 3, adrs=range(6)))
    A(lambda: sram_inst("SRAM d2 dw16", 16, 2, 2, adrs=range(3)))
    if not quick:
        A(lambda: sram_inst("SRAM d4 dw16", 16, 4, 3, adrs=range(5)))
    A(lambda: sram_inst("SRAM d4 dw8 read_only", 8, 4, 3, ro=True, init=[0xA1, 0, 0xB2, 5], adrs=range(6)))
    A(lambda: sram_inst("SRAM d3 dw8 (non-pow2 depth)", 8, 3, 3, adrs=range(5)))
    A(lambda: sram_inst("SRAM d5 dw16 (non-pow2 depth)", 16, 5, 3, adrs=range(8), sels=[3, 1]), q=800, t=40000)
    A(lambda: sram_inst("SRAM d4 dw8 from Memory object", 8, 4, 3, adrs=range(6), from_memory=True, init=[1, 0xA1]))
    A(lambda: sram_inst("SRAM d4 dw8 from Memory object, bus_read_only", 8, 4, 3, ro=True, from_memory=True,
                        init=[0xA1, 0, 0xB2, 5], adrs=range(6)))
    A(lambda: sram_inst("SRAM d8 dw8 aw2 (bus address narrower than the memory)", 8, 8, 2, adrs=range(4), sels=[1],
                        init=[1, 2, 3, 4, 5, 6, 7, 8]))
    A(lambda: sram_inst("SRAM d6 dw8 aw2 burst (non-pow2 depth, narrow address)", 8, 6, 2, burst=True, adrs=range(4),
                        sels=[1], ctis=((0, 0), (2, 0), (7, 0)), init=[1, 2, 3, 4, 5, 6]), q=450, t=20000)
    A(lambda: sram_inst("SRAM d2 dw8 burst", 8, 2, 3, burst=True, adrs=range(4), sels=[1], ctis=CT))
    if not quick:
        A(lambda: sram_inst("SRAM d4 dw8 burst", 8, 4, 3, burst=True, adrs=range(5), sels=[1], ctis=CT))
    A(lambda: sram_inst("SRAM d4 dw8 burst read_only", 8, 4, 3, burst=True, ro=True, init=[0xA1, 0, 0xB2, 5],
                        adrs=range(5), sels=[1], ctis=CT + ((2, 2), (2, 3))))
    # --- converters alone (free slave port)
    A(lambda: conv_inst("Down 16->8", 16, 8, 1, adrs=[0, 1], sels=range(4),
                        ctis=((0, 0), (2, 0), (7, 0), (2, 1)), slave_letters=S1))
    A(lambda: conv_inst("Down 32->8", 32, 8, 1, adrs=[0, 1], sels=[0, 0xF, 1, 8, 6], slave_letters=S1))
    A(lambda: conv_inst("Up 8->16", 8, 16, 2, adrs=range(4), sels=[0, 1],
                        slave_letters=[(0, 0, 0), (1, 0xB2A1, 0), (1, 0, 1), (0, 0xB2A1, 1)]))
    A(lambda: conv_inst("Up 8->32", 8, 32, 3, adrs=range(8), sels=[0, 1],
                        slave_letters=[(0, 0, 0), (1, 0xD4C3B2A1, 0), (0, 0, 1)]))
    A(lambda: direct_inst("Converter 16->16 (direct connect)", "converter", 16, 2))
    A(lambda: direct_inst("Cache(0) 16->16 (bypass)", "cache", 16, 2))
    A(lambda: direct_inst("Interface.get_ios + connect_to_pads master -> pads -> slave 16", "pads", 16, 2))
    # --- converters over a real SRAM (real modules composed in one Migen module)
    A(lambda: conv_sram_inst("Down 16->8 / SRAM d4", 16, 8, 2, 4, adrs=range(2 if quick else 3), sels=range(4)), w=8)
    A(lambda: conv_sram_inst("Down 32->8 / SRAM d4", 32, 8, 2, 4, adrs=range(2), sels=[0, 0xF, 1, 8, 6, 3]), q=900, t=25000, w=5)
    if not quick:
        A(lambda: conv_sram_inst("Down 32->8 / SRAM d8", 32, 8, 2, 8, adrs=range(3), sels=[0, 0xF, 1, 8, 6]), t=8000)
    A(lambda: conv_sram_inst("Up 8->16 / SRAM d2", 8, 16, 4, 2, adrs=range(5), sels=[0, 1]))
    A(lambda: conv_sram_inst("Up 8->32 / SRAM d2", 8, 32, 4, 2, adrs=range(5 if quick else 9), sels=[0, 1]))
    if not quick:
        A(lambda: conv_sram_inst("Up 8->16 / SRAM d4", 8, 16, 4, 4, adrs=range(9), sels=[0, 1]))
    # --- remapper
    REG = [(0x4, 4, 0x18), (0x8, 2, 0x0)]
    A(lambda: remap_inst("Remap word dw16 2 regions", 16, 4, 0x10, 16, REG, adrs=range(16)))
    A(lambda: remap_inst("Remap byte dw16 2 regions", 16, 4, 0x10, 16, REG, addressing="byte", adrs=range(32)))
    A(lambda: remap_inst("Remap word dw8 2 regions / SRAM d4", 8, 3, 0x0, 4, [(0x1, 1, 0x2), (0x2, 1, 0x1)], depth=4,
                         adrs=range(5)))
    if not quick:
        A(lambda: remap_inst("Remap word dw8 2 regions / SRAM d8", 8, 4, 0x0, 8, [(0x2, 2, 0x4), (0x4, 2, 0x2)],
                             depth=8, adrs=range(9)))
    # --- Wishbone2CSR
    A(lambda: wb2csr_inst("Wishbone2CSR registered dw16", 16, 3, True, caw=2, adrs=range(5)))
    A(lambda: wb2csr_inst("Wishbone2CSR unregistered dw16", 16, 3, False, caw=2, adrs=range(5)))
    A(lambda: wb2csr_inst("Wishbone2CSR registered dw16 byte-addressed", 16, 3, True, caw=2, adrs=range(10),
                          addressing="byte"))
    A(lambda: wb2csr_inst("Wishbone2CSR unregistered dw8", 8, 3, False, caw=3, adrs=range(9)))
    # --- Wishbone2CSR over a real CSRBank (bridge model composed with the C12 bank model)
    BR8 = [(8, 0xA1, False), (8, 0, False), (16, 0x12B2, False)]
    A(lambda: wb2csr_bank_inst("Wishbone2CSR registered dw8 / CSRBank 3 storages", 8, 4, True, BR8, caw=4, paging=0x10,
                               address=1, adrs=[0, 4, 5, 6, 7, 8]), q=400, t=30000, w=4)
    A(lambda: wb2csr_bank_inst("Wishbone2CSR unregistered dw8 / CSRBank 3 storages", 8, 4, False, BR8, caw=4,
                               paging=0x10, address=1, adrs=[0, 4, 5, 6, 7, 8]), q=250, t=30000, w=4)
    A(lambda: wb2csr_bank_inst("Wishbone2CSR registered dw16 / CSRBank 2 storages", 16, 3, True,
                               [(16, 0xB2A1, False), (16, 0, False)], caw=3, paging=0x10, address=0, adrs=range(4),
                               sels=[0, 3, 1]), q=1500, t=30000, w=4)
    # --- cache, 2 lines x 2 words, both width directions
    A(lambda: cache_inst("Cache 8->16 2 lines x 2 words (free slave)", 4, 8, 16, 3, 2, adrs=range(8), sels=[0, 1],
                         slave_letters=[(0, 0, 0), (1, 0, 0), (1, 0xB2A1, 0)]), q=200, w=9)
    A(lambda: cache_inst("Cache 16->8 2 lines x 2 words (free slave)", 2, 16, 8, 2, 3, adrs=range(4), sels=[0, 3, 1],
                         slave_letters=[(0, 0, 0), (1, 0, 0), (1, 0xA1, 0)]), q=250, w=9)
    A(lambda: cache_inst("Cache 8->16 reverse=False 2 lines x 2 words (free slave)", 4, 8, 16, 3, 2, reverse=False,
                         adrs=range(8), sels=[0, 1], slave_letters=[(0, 0, 0), (1, 0, 0), (1, 0xB2A1, 0)]),
      q=250, t=8000, w=7)
    A(lambda: cache_inst("Cache 8->16 / SRAM d4", 4, 8, 16, 3, 2, depth=4, adrs=range(8), sels=[1]), q=1000, t=15000, w=9)
    A(lambda: cache_inst("Cache 16->8 / SRAM d8", 2, 16, 8, 2, 3, depth=8, adrs=range(4), sels=[3, 1]), q=1000, t=15000, w=9)
    # --- realistic sizes, random lock-step co-simulation with the monitors armed
    B(lambda: sram_inst("SRAM 4KiB dw32", 32, 1024, 30, mode="B", init=words_init(64, 4, lambda i: i * 0x01010101 + 7)))
    B(lambda: sram_inst("SRAM 1KiB dw64 burst", 64, 128, 29, burst=True, mode="B",
                        init=words_init(128, 8, lambda i: (i + 3) * 0x0101010101010101 + i)))
    B(lambda: sram_inst("SRAM 256B dw32 burst", 32, 64, 30, burst=True, mode="B"))
    B(lambda: sram_inst("SRAM 512B dw128 read_only", 128, 32, 28, ro=True, mode="B",
                        init=words_init(32, 16, lambda i: (i + 1) * 0x0123456789ABCDEF0F1E2D3C4B5A6978)))
    B(lambda: sram_inst("SRAM 24 words dw32 (non-pow2 depth, in-range addresses)", 32, 24, 30, mode="B", adr_max=23,
                        init=words_init(24, 4, lambda i: 0x11111111 * (i % 15 + 1))))
    B(lambda: sram_inst("SRAM 100 words dw64 burst (non-pow2 depth, in-range)", 64, 100, 29, burst=True, mode="B",
                        adr_max=79, init=words_init(100, 8, lambda i: 0x0102030405060708 * (i % 31 + 1))))
    B(lambda: sram_inst("SRAM 96B on its default bus (bus=None), init shorter than the memory", 32, 24, 30, mode="B",
                        adr_max=23, default_bus=True, init=words_init(10, 4, lambda i: 0x01020304 * (i + 1))))
    B(lambda: sram_inst("SRAM 64B read_only on its default bus (bus=None)", 32, 16, 30, ro=True, mode="B",
                        default_bus=True, init=words_init(16, 4, lambda i: 0x0F1E2D3C + i)))
    B(lambda: direct_inst("Converter 64->64 (direct connect, ref slave)", "converter", 64, 12, mode="B"))
    B(lambda: direct_inst("Interface.get_ios + connect_to_pads 32 (ref slave)", "pads", 32, 30, mode="B"))
    for dwm, dws in ((64, 32), (128, 32), (64, 8), (128, 8), (32, 64), (32, 128), (8, 64), (8, 128)):
        B(lambda dwm=dwm, dws=dws: conv_inst("Converter %d->%d (ref slave)" % (dwm, dws), dwm, dws, 12, mode="B"))
    B(lambda: conv_sram_inst("Down 64->32 / SRAM 1KiB", 64, 32, 10, 256, mode="B",
                             init=words_init(200, 4, lambda i: 0x80000000 + i * 0x10203)))
    B(lambda: conv_sram_inst("Down 128->32 / SRAM 1KiB", 128, 32, 10, 256, mode="B",
                             init=words_init(256, 4, lambda i: i * 0x9E3779B1)))
    B(lambda: conv_sram_inst("Down 64->32 / burst SRAM 1KiB (linear bursts)", 64, 32, 10, 256, mode="B", burst=True,
                             init=words_init(256, 4, lambda i: 0x1000193 * (i + 1))))
    B(lambda: conv_sram_inst("Down 32->8 / burst SRAM 256B (linear bursts)", 32, 8, 10, 256, mode="B", burst=True,
                             init=words_init(256, 1, lambda i: 7 * i + 3)))
    # wrapping bursts (bte 1..3, unaligned starts, within the wrap length): the DownConverter does not translate
    # them, its guard turns them into classic cycles on the narrow side
    B(lambda: conv_sram_inst("Down 32->16 / burst SRAM 512B (wrapping + linear bursts)", 32, 16, 10, 256, mode="B",
                             burst=True, wrapping=True, init=words_init(256, 2, lambda i: 0x0101 * (i % 200 + 1))))
    B(lambda: conv_sram_inst("Down 64->32 / burst SRAM 1KiB (wrapping + linear bursts)", 64, 32, 10, 256, mode="B",
                             burst=True, wrapping=True, init=words_init(256, 4, lambda i: 0x01000193 * (i + 1))))
    B(lambda: conv_sram_inst("Up 32->64 / burst SRAM 1KiB (linear bursts)", 32, 64, 10, 128, mode="B", burst=True,
                             init=words_init(128, 8, lambda i: 0x0101010101010101 * (i + 1))))
    B(lambda: conv_sram_inst("Up 32->128 / SRAM 1KiB", 32, 128, 10, 64, mode="B",
                             init=words_init(64, 16, lambda i: (i + 1) * 0x0F1E2D3C4B5A69788796A5B4C3D2E1F0 + i)))
    B(lambda: remap_inst("Remap word dw32 3 regions (ref slave)", 32, 30, 0x0, 0x20000000,
                         [(0x0, 65536, 0xF0000000), (0x10000, 64, 0x81000000), (0x10040, 8, 0x20000000)], mode="B"))
    B(lambda: remap_inst("Remap word dw64 high region (ref slave)", 64, 29, 0x0, None,
                         [(0x90000000, 0x1000, 0x10000000), (0xF0000000, 0x100, 0x00000000)], mode="B",
                         hot_adrs=[0x90000000 >> 3, (0x90000FF8 >> 3), 0x90001000 >> 3, 0xF0000010 >> 3, 0x8FFFFFF8 >> 3]))
    B(lambda: remap_inst("Remap byte dw32 origin+2 regions (ref slave)", 32, 30, 0x40000000, 0x10000000,
                         [(0x40010000, 64, 0x81000000), (0x40010040, 8, 0x20000000)], addressing="byte", mode="B",
                         hot_adrs=[0x10000, 0x10004, 0x1003C, 0x10040, 0x10044, 0x10048, 0x5001_0040]))
    B(lambda: wb2csr_inst("Wishbone2CSR registered dw32", 32, 30, True, mode="B"))
    B(lambda: wb2csr_inst("Wishbone2CSR unregistered dw32", 32, 30, False, mode="B"))
    B(lambda: wb2csr_inst("Wishbone2CSR registered dw32 byte-addressed", 32, 28, True, mode="B", addressing="byte"))
    B(lambda: wb2csr_inst("Wishbone2CSR unregistered dw8 caw=16", 8, 20, False, caw=16, mode="B"))
    B(lambda: wb2csr_inst("Wishbone2CSR registered dw64", 64, 20, True, mode="B"))
    BR32 = [(32, 0x11223344, False), (32, 0, False), (64, 0x0123456789ABCDEF, False), (32, 0xFFFFFFFF, False),
            (8, 0x5A, False), (32, 7, False)]
    B(lambda: wb2csr_bank_inst("Wishbone2CSR registered dw32 / CSRBank 6 storages", 32, 30, True, BR32, address=3,
                               mode="B"))
    B(lambda: wb2csr_bank_inst("Wishbone2CSR unregistered dw32 byte-addressed / CSRBank 6 storages", 32, 28, False, BR32,
                               address=5, mode="B", addressing="byte"))
    B(lambda: cache_inst("Cache 16 words 32->128 (ref slave)", 16, 32, 128, 12, 10, mode="B"))
    B(lambda: cache_inst("Cache 64 words 32->32 (ref slave)", 64, 32, 32, 12, 12, mode="B"))
    B(lambda: cache_inst("Cache 32 words 64->16 (ref slave)", 32, 64, 16, 10, 12, mode="B"))
    B(lambda: cache_inst("Cache 64 words 64->128 (ref slave)", 64, 64, 128, 11, 10, mode="B"))
    B(lambda: cache_inst("Cache 16 words 128->32 reverse=False (ref slave)", 16, 128, 32, 8, 10, reverse=False, mode="B"))
    B(lambda: cache_inst("Cache 32 words 8->64 reverse=False (ref slave)", 32, 8, 64, 9, 6, reverse=False, mode="B"))
    B(lambda: cache_inst("Cache 1024 words 32->64 reverse=False (ref slave)", 1024, 32, 64, 14, 13, reverse=False,
                         mode="B"))
    J.sort(key=lambda jb: -jb.weight)
    return J


def corpus_instances():
    """Instances named by the corpus files (finding witnesses and minimised past disagreements)."""
    return {
        "corpus: Cache 16 words 32->32 / SRAM d64 init 0x100+a":
            lambda: cache_inst("corpus: Cache 16 words 32->32 / SRAM d64 init 0x100+a", 16, 32, 32, 8, 8, depth=64,
                               init=[0x100 + a for a in range(64)], mode="B"),
        "corpus: Cache 16 words 64->32 / SRAM d128 init 0x100+a":
            lambda: cache_inst("corpus: Cache 16 words 64->32 / SRAM d128 init 0x100+a", 16, 64, 32, 8, 9, depth=128,
                               init=[0x100 + a for a in range(128)], mode="B"),
        "corpus: SRAM d64 dw32 burst init 0x100+a":
            lambda: sram_inst("corpus: SRAM d64 dw32 burst init 0x100+a", 32, 64, 30, burst=True, mode="B",
                              init=[0x100 + a for a in range(64)]),
        "corpus: Up 32->128 / SRAM d64":
            lambda: conv_sram_inst("corpus: Up 32->128 / SRAM d64", 32, 128, 10, 64, mode="B",
                                   init=words_init(64, 16, lambda i: (i + 1) * 0x0F1E2D3C4B5A69788796A5B4C3D2E1F0 + i)),
        "corpus: Up 32->64 / burst SRAM d16":
            lambda: conv_sram_inst("corpus: Up 32->64 / burst SRAM d16", 32, 64, 5, 16, mode="B", burst=True,
                                   init=[0x0101010101010101 * (a + 1) for a in range(16)]),
        "corpus: Down 32->16 / burst SRAM d64":
            lambda: conv_sram_inst("corpus: Down 32->16 / burst SRAM d64", 32, 16, 6, 64, mode="B", burst=True,
                                   wrapping=True, init=[0x0101 * (a + 1) for a in range(64)]),
        "corpus: Down 64->32 / SRAM d64":
            lambda: conv_sram_inst("corpus: Down 64->32 / SRAM d64", 64, 32, 8, 64, mode="B",
                                   init=[0x80000000 + a * 0x10203 for a in range(64)]),
        "corpus: SRAM d64 dw32 init 0x100+a":
            lambda: sram_inst("corpus: SRAM d64 dw32 init 0x100+a", 32, 64, 30, mode="B", init=[0x100 + a for a in range(64)]),
        "corpus: Cache 4 words 32->16 / SRAM d32 zero init":
            lambda: cache_inst("corpus: Cache 4 words 32->16 / SRAM d32 zero init", 4, 32, 16, 4, 5, depth=32, mode="B"),
    }


def run_corpus(ctx):
    """Replay every corpus trace on the real code and on the model (lock-step); entries with
    `expect_monitor: true` are finding witnesses on which the property monitor must fire (the model agrees with
    the code on them: it models the defect), all others must pass the monitor too."""
    import os, json, glob
    import explore
    from explore import Disagreement
    out = []
    reg = corpus_instances()
    files = sorted(glob.glob(os.path.join(os.path.dirname(os.path.dirname(os.path.dirname(os.path.abspath(__file__)))),
                                          "corpus", "C07", "*.json")))
    for f in files:
        e = json.load(open(f))
        inst = reg[e["instance"]]()
        trace = [tuple(l) for l in e["trace"]]
        n = inst.netlist
        root = n.snapshot()
        mon = inst.monitor()
        impl, fired = [], None
        for t, letter in enumerate(trace):
            outs = explore.impl_step(inst, letter)
            impl.append(outs)
            m = mon.observe(letter, outs)
            if m and fired is None:
                fired = (t, m)
        n.restore(root)
        ctx.lean.open(inst.lean_open)
        model = ctx.lean.run(trace)
        ctx.lean.close_session()
        bad = next((t for t in range(len(trace)) if not explore._masked_equal(inst, impl[t], model[t])), None)
        ctx.cov.add_instance("corpus/" + os.path.basename(f), states=0, transitions=len(trace),
                             nontrivial=sum(1 for l in trace if l[0] and l[1]), exhaustive=False, mode="corpus")
        if bad is not None:
            out.append(Disagreement(inst, trace[:bad + 1], bad, impl[bad], model[bad]))
        if fired and not e.get("expect_monitor"):
            out.append(Disagreement(inst, trace[:fired[0] + 1], fired[0], impl[fired[0]], None, kind="monitor:" + fired[1]))
        if e.get("expect_monitor") and not fired:
            ctx.cov.notes.append("corpus witness %s no longer violates the property" % os.path.basename(f))
    return out


def correspond(ctx):
    ctx.jobs = jobs(ctx.tier)
    ctx.rule = ("model/implementation correspondence cycles; non-trivial = the master presents a strobe (cyc & stb) "
                "in that (state, input) pair; counted per distinct pair")
    ctx.assumptions = [
        "theorems quantify over masters that follow the classic handshake (a presented strobe is held until ack)",
        "adapters are proved over the abstract arbitrary-latency byte memory (latMem) and, for the converters, over "
        "the SRAM model; Cache/Remapper/Wishbone2CSR over the real SRAM/CSR banks are covered by the tie and monitors",
    ]
    deadline = time.time() + (150 if ctx.tier == "quick" else 1500)
    for jb in ctx.jobs:
        if jb.mode == "A":
            jb.kw.setdefault("deadline", deadline)      # never an endless exploration (bounded jobs: exhaustive=false)
    cdis = guarded(ctx, "corpus", run_corpus)
    gdis = guarded(ctx, "soc-glue", glue_runs) + guarded(ctx, "glue-address", glue_addr_tie)
    try:
        dis, bad = run_jobs(ctx, ctx.jobs)
    except Exception as e:
        # a worker died (constructor of a changed implementation raised, a port disappeared, ...): re-run the
        # jobs one by one in this process so that every other instance is still compared and the broken one is
        # reported by name
        ctx.log("parallel job run raised %r; re-running the jobs one by one" % (e,))
        dis = []
        for k in range(len(ctx.jobs)):
            try:
                d, _ = run_jobs(ctx, [ctx.jobs[k]], procs=1)
                for x in d:
                    x.job = k
                dis += d
            except Exception as e2:
                import traceback
                dis.append({"kind": "job-exception", "instance": "job #%d" % k,
                            "what": "building or driving this instance raised %r" % (e2,),
                            "traceback": traceback.format_exc()[-1500:]})
    return cdis + gdis + dis


def guarded(ctx, what, fn):
    """An exception while exercising the real code is a broken tie, reported as such (never a crash)."""
    try:
        return fn(ctx)
    except Exception as e:
        import traceback
        return [{"kind": what + "-exception", "instance": None, "what": "%s raised %r" % (what, e),
                 "traceback": traceback.format_exc()[-1500:]}]


def bus_glue_inst(bus_std, bus_dw, m_dw, m_addressing, s_dw, mem_bytes=512):
    """Monitor-only instance: Wishbone master -> add_adapter -> bus -> add_adapter -> wishbone.SRAM, judged by the
    reference byte memory at the byte addresses the master means (word address << log2(master bytes), or the byte
    address itself), initial pattern included."""
    nbm = m_dw // 8
    name = "busglue: wishbone %s-addressed %d-bit master / %s %d-bit bus / wishbone.SRAM %d-bit" % (
        m_addressing, m_dw, bus_std, bus_dw, s_dw)
    top = L.build_bus_glue(bus_std, bus_dw, m_dw, m_addressing, s_dw, mem_bytes)
    sh = L.log2i(nbm)
    ashift = sh if m_addressing == "byte" else 0
    words = mem_bytes // nbm
    adrs = [w << ashift for w in range(words)]

    def byte_map(adr, lane):
        return ((adr >> ashift) << sh) + lane
    mon = lambda: MasterMemMonitor(nbm, mem_bytes, max_wait=120, byte_map=byte_map, init_fn=L.glue_pattern)
    return WbInst(name, top, None, master_gen=_RegionMaster(nbm, adrs, False, ashift), monitor=mon)


def bus_glue_grid(tier, seed=0):
    """{bus standard} x {bus width} x {master addressing} x {master width} x {slave width}; the quick tier runs the
    combinations in which add_adapter composes a width conversion with an addressing / standard conversion on
    either side plus controls, the thorough tier the whole grid."""
    full = [(b, bw, mw, ma, sw) for b in ("wishbone", "axi-lite", "axi") for bw in (32, 64)
            for ma in ("word", "byte") for mw in (32, 64, 128) for sw in (32, 64, 128)
            if not (ma == "byte" and mw != bw)]      # wishbone.Converter asserts a word-addressed master
    if tier != "quick":
        return full
    key = [("axi-lite", 32, 64, "word", 32), ("axi-lite", 32, 32, "word", 64), ("axi-lite", 64, 32, "word", 128),
           ("axi-lite", 64, 128, "word", 32), ("axi", 32, 64, "word", 64), ("axi", 64, 32, "word", 32),
           ("wishbone", 32, 64, "word", 128), ("wishbone", 64, 64, "byte", 32), ("wishbone", 32, 32, "byte", 64),
           ("axi-lite", 32, 32, "byte", 32)]
    rest = [c for c in full if c not in key]
    k = (seed * 5) % len(rest)
    return key + (rest + rest)[k:k + 8]


def glue_addr_tie(ctx):
    """Tie of `glueSubAddr` (DownConverter sub-word address through C09's byte map of the addressing glue): the AR/AW
    addresses the add_adapter-built chain (wishbone.Converter + word->byte re-wiring + Wishbone2AXILite) puts on a
    byte-addressed AXI-Lite bus for a wide Wishbone access are exactly the model's, in order."""
    from explore import Disagreement
    out = []
    for bus_dw, m_dw in ((32, 64), (32, 128), (64, 128)):
        top = L.build_bus_glue("axi-lite", bus_dw, m_dw, "word", bus_dw, mem_bytes=1024)
        nl, m, ax = L.FastNetlist(top), top.master, top.m_ad
        nbs, ratio = bus_dw // 8, m_dw // bus_dw
        adrs = [0, 1, 2, 5, 1024 // (m_dw // 8) - 1] + [ctx.rng.randrange(1024 // (m_dw // 8)) for _ in range(6)]
        reqs = [(a, we) for a in adrs for we in (0, 1)]
        model = ctx.lean.call_batch(["glue_subaddrs %d %d %d %d" % (nbs, L.log2i(ratio), L.log2i(nbs), a) for a, _ in reqs])
        n_ok = 0
        for (a, we), ml in zip(reqs, model):
            seen = []
            for t in range(200):
                for sig, v in zip((m.cyc, m.stb, m.we, m.adr, m.sel, m.dat_w, m.cti, m.bte),
                                  (1, 1, we, a, (1 << (m_dw // 8)) - 1, 0x1122334455667788, 0, 0)):
                    nl.set(sig, v)
                nl.settle()
                ch = ax.aw if we else ax.ar
                if nl.getu(ch.valid) and nl.getu(ch.ready):
                    seen.append(nl.getu(ch.addr))
                ack = nl.getu(m.ack)
                nl.tick()
                if ack:
                    break
            nl.set(m.cyc, 0)
            nl.set(m.stb, 0)
            nl.settle()
            nl.tick()
            exp = [int(x) for x in ml.split()]
            if seen != exp:
                inst = type("GlueAddr", (), {"name": "add_adapter address tie: wishbone %d-bit on axi-lite %d-bit" % (m_dw, bus_dw)})()
                out.append({"kind": "glue-address", "instance": inst.name,
                            "what": "wide %s of word %#x: bus addresses %r, model (Converter + shift by log2(bus bytes)) %r"
                                    % ("write" if we else "read", a, seen, exp)})
            else:
                n_ok += 1
        ctx.cov.add_cases("add_adapter address tie wishbone %d / axi-lite %d" % (m_dw, bus_dw), len(reqs), n_ok)
    return out


def glue_instances(tier="quick", seed=0):
    return _soc_glue_instances() + [lambda c=c: bus_glue_inst(*c) for c in bus_glue_grid(tier, seed)]


def _soc_glue_instances():
    return [
        lambda: soc_glue_inst("glue: SoC bus 32, master 32 (add_ram rw+ro)", 32, 32),
        lambda: soc_glue_inst("glue: SoC bus 32, master 64 (add_adapter: DownConverter)", 32, 64),
        lambda: soc_glue_inst("glue: SoC bus 64, master 32 (add_adapter: UpConverter)", 64, 32),
        lambda: soc_glue_inst("glue: SoC bus 32 bursting, master 64 (bursts through add_adapter)", 32, 64, bursting=True),
        lambda: soc_glue_inst("glue: SoC bus 64 bursting, master 32 (bursts through add_adapter)", 64, 32, bursting=True),
        lambda: soc_glue_inst("glue: SoC bus 32, byte-addressed master 32 (addressing conversion)", 32, 32,
                              master_addressing="byte"),
    ]


def _glue_worker(arg):
    import explore, random
    k, seed, cycles, tier = arg
    inst = glue_instances(tier, seed)[k]()
    if inst.name.startswith("busglue"):
        cycles = 600 if tier == "quick" else 3000
    rng = random.Random(seed * 104729 + k)
    mon = inst.monitor()
    trace, distinct, fail = [], 0, None
    for t in range(cycles):
        letter = inst.gen(rng, t)
        outs = explore.impl_step(inst, letter)
        trace.append(letter)
        distinct += 1 if (letter[0] and letter[1]) else 0
        m = mon.observe(letter, outs)
        if m:
            fail = (t, outs, m)
            break
    return k, inst.name, len(trace), distinct, mon.completed, (trace if fail else None), fail


def glue_runs(ctx):
    """Closed-loop runs of the instances built through the SoC glue, judged by the reference byte memory only
    (forked workers; an exception in a worker propagates and is reported by `guarded`)."""
    import os
    import multiprocessing as mp
    from explore import Disagreement
    out = []
    cycles = 1200 if ctx.tier == "quick" else 20000
    makers = glue_instances(ctx.tier, ctx.seed)
    n = len(makers)
    args = [(k, ctx.seed, cycles, ctx.tier) for k in range(n)]
    procs = min(n, int(os.environ.get("VERIF_PROCS", "0")) or (os.cpu_count() or 4))
    if procs <= 1:
        results = [_glue_worker(a) for a in args]
    else:
        with mp.get_context("fork").Pool(procs) as pool:
            results = pool.map(_glue_worker, args, chunksize=1)
    for k, name, ntr, distinct, completed, trace, fail in results:
        ctx.cov.add_instance(name, states=0, transitions=ntr, nontrivial=distinct, exhaustive=False, mode="glue")
        ctx.cov.count("glue completed bus cycles", completed)
        if fail:
            t, outs, m = fail
            out.append(Disagreement(makers[k](), [tuple(l) for l in trace], t, outs, None, kind="monitor:" + m))
    return out


# ---------------------------------------------------------------------------------------------------------
# failing-input search: closed-loop protocol-following masters against the real code, judged by the
# reference byte memory (independent of the Lean model)

def search_instances(tier):
    """Small instances (address collisions are frequent) first, then the realistic ones."""
    S = []
    S.append(lambda: sram_inst("search: SRAM d8 dw16", 16, 8, 4, mode="B", init=[0x1101 * (i + 1) for i in range(8)]))
    S.append(lambda: sram_inst("search: SRAM d16 dw32 burst", 32, 16, 6, burst=True, mode="B"))
    S.append(lambda: conv_sram_inst("search: Down 32->8 / SRAM d16", 32, 8, 3, 16, mode="B", init=list(range(0x21, 0x31))))
    S.append(lambda: conv_sram_inst("search: Down 64->32 / SRAM d16", 64, 32, 4, 16, mode="B"))
    S.append(lambda: conv_sram_inst("search: Down 32->16 / burst SRAM d64 (wrapping + linear bursts)", 32, 16, 5, 64,
                                    mode="B", burst=True, wrapping=True, init=[0x0101 * (a + 1) for a in range(64)]))
    S.append(lambda: conv_sram_inst("search: Up 8->32 / SRAM d4", 8, 32, 5, 4, mode="B",
                                    init=[0x04030201, 0x08070605, 0x0C0B0A09, 0x100F0E0D]))
    S.append(lambda: conv_inst("search: Converter 32->8 (ref slave)", 32, 8, 3, mode="B"))
    S.append(lambda: conv_inst("search: Converter 16->64 (ref slave)", 16, 64, 5, mode="B"))
    S.append(lambda: cache_inst("search: Cache 4 words 8->16 / SRAM d16 (zero init)", 4, 8, 16, 5, 4, depth=16, mode="B"))
    S.append(lambda: cache_inst("search: Cache 4 words 32->16 / SRAM d32 (zero init)", 4, 32, 16, 4, 5, depth=32, mode="B"))
    S.append(lambda: cache_inst("search: Cache 8 words 16->16 (ref slave)", 8, 16, 16, 6, 6, mode="B"))
    S.append(lambda: wb2csr_inst("search: Wishbone2CSR registered dw16", 16, 4, True, caw=3, mode="B"))
    S.append(lambda: remap_inst("search: Remap word dw8 / SRAM d8", 8, 4, 0x0, 8, [(0x2, 2, 0x4), (0x4, 2, 0x2)], depth=8,
                                mode="B"))
    return S


def shrink_blocks(inst, trace, budget=600):
    """Delta-debugging on the real code: drop blocks of cycles (whole bus cycles span several clock cycles, so
    single-cycle deletion alone rarely keeps the master protocol-legal) while the monitor still fires."""
    import explore
    cur = list(trace)
    r = explore.replay_with_monitor(inst, cur)
    if not r:
        return cur
    cur = cur[:r[0] + 1]
    for size in (64, 32, 16, 8, 6, 4, 3, 2, 1):
        k = 0
        while k + size <= len(cur) - 1 and budget > 0:
            cand = cur[:k] + cur[k + size:]
            budget -= 1
            r = explore.replay_with_monitor(inst, cand)
            if r:
                cur = cand[:r[0] + 1]
            else:
                k += 1
    return cur


def closed_loop_search(inst, rng, deadline, tries, length):
    """Random closed-loop runs from reset with the monitor armed; returns (trace, message) or None."""
    import explore
    n = inst.netlist
    root = n.snapshot()
    try:
        for k in range(tries):
            if time.time() > deadline:
                return None
            n.restore(root)
            mon = inst.monitor()
            trace = []
            for t in range(length):
                letter = inst.gen(rng, t)
                outs = explore.impl_step(inst, letter)
                trace.append(letter)
                m = mon.observe(letter, outs)
                if m:
                    n.restore(root)
                    small = shrink_blocks(inst, trace)
                    r = explore.replay_with_monitor(inst, small)
                    return (small, r[1]) if r else (trace, m)
    finally:
        n.restore(root)
    return None


def search(ctx, disagreements, proof_info):
    import explore
    deadline = time.time() + (90 if ctx.tier == "quick" else 600)
    all_jobs = getattr(ctx, "jobs", None) or jobs(ctx.tier)
    # 1. a monitor that already fired during co-simulation
    for d in disagreements:
        if getattr(d, "kind", "").startswith("monitor:"):
            trace, msg, fmt = d.trace, d.kind[8:], L.FMT_ADAPTER
            try:        # minimise (drop cycles while the monitor still fires on the real code)
                inst = d.inst if getattr(d, "inst", None) is not None else all_jobs[d.job].make()
                fmt = inst.letter_format
                small = shrink_blocks(inst, list(trace))
                r = explore.replay_with_monitor(inst, small)
                if r:
                    trace, msg = small, r[1]
            except Exception:
                pass
            return {"instance": d.inst_name, "trace": [list(l) for l in trace], "monitor": msg,
                    "letter_format": fmt, "source": "jobs"}
    # 2. disagreement traces replayed on the real code with the monitor armed
    for d in disagreements:
        j = getattr(d, "job", None)
        if j is None:
            continue
        try:
            inst = all_jobs[j].make()
        except Exception:
            continue
        r = explore.replay_with_monitor(inst, d.trace)
        if r:
            tr = shrink_blocks(inst, d.trace[:r[0] + 1])
            return {"instance": inst.name, "trace": [list(l) for l in tr], "monitor": r[1],
                    "letter_format": inst.letter_format, "source": "jobs"}
    # 3. closed-loop random search: the instances of the broken jobs first, then the search grid
    bad = sorted({getattr(d, "job", None) for d in disagreements} - {None})
    cands = []
    for j in bad:
        if all_jobs[j].mode == "B":
            cands.append(("jobs", all_jobs[j].make))
    cands += [("search", mk) for mk in search_instances(ctx.tier)]
    cands += [("glue", mk) for mk in glue_instances(ctx.tier, ctx.seed)]
    cands += [("jobs", jb.make) for k, jb in enumerate(all_jobs) if jb.mode == "B" and k not in bad]
    for source, mk in cands:
        if time.time() > deadline:
            break
        try:
            inst = mk()
        except Exception:
            continue
        if inst.master_gen is None:
            continue
        r = closed_loop_search(inst, ctx.rng, deadline, tries=6, length=1500)
        if r:
            trace, msg = r
            return {"instance": inst.name, "trace": [list(l) for l in trace], "monitor": msg,
                    "letter_format": inst.letter_format, "source": source}
    return None


def replay(ctx, payload):
    import explore
    fi = payload.get("failing_input") or {}
    name = fi.get("instance")
    if not name:
        print("replay file carries no failing input (no-failing-input-found); disagreements were:")
        for d in payload.get("disagreements", [])[:3]:
            print("  ", d)
        return 1
    trace = [tuple(l) for l in fi.get("trace", [])]
    makers = ([jb.make for jb in jobs("thorough")] + [jb.make for jb in jobs("quick")] + search_instances("thorough") +
              glue_instances("thorough") + list(corpus_instances().values()))
    for mk in makers:
        inst = mk()
        if inst.name == name:
            r = explore.replay_with_monitor(inst, trace)
            if r:
                print("cycle %d: %s" % r)
                print("VIOLATION property=%s replay=(replayed)" % ctx.prop)
                return 1
            print("trace no longer violates the property on the current tree")
            return 0
    print("instance %r not found" % name)
    return 2


# ---------------------------------------------------------------------------------------------------------
# probes of known findings (witnesses replayed on the real code)

def _classic(nl, m, we, adr, sel, dat, cti=0, bte=0, limit=200):
    """One classic cycle on the real netlist; returns dat_r at the acknowledge (None: no ack)."""
    d = None
    for t in range(limit):
        for sig, v in zip((m.cyc, m.stb, m.we, m.adr, m.sel, m.dat_w, m.cti, m.bte), (1, 1, we, adr, sel, dat, cti, bte)):
            nl.set(sig, v)
        nl.settle()
        ack, dr = nl.getu(m.ack), nl.getu(m.dat_r)
        nl.tick()
        if ack:
            d = dr
            break
    nl.set(m.cyc, 0)
    nl.set(m.stb, 0)
    nl.settle()
    nl.tick()
    return d


def probe_cache_no_valid_bit():
    init = [0x100 + a for a in range(64)]
    top = L.build_cache(16, 32, 32, 8, 8, depth=64, init=init)
    nl = L.FastNetlist(top)
    got = _classic(nl, top.master, 0, 3, 15, 0)
    top2 = L.build_cache(16, 64, 32, 8, 9, depth=128, init=[0x100 + a for a in range(128)])
    nl2 = L.FastNetlist(top2)
    _classic(nl2, top2.master, 1, 3, 0x01, 0xAA)
    _classic(nl2, top2.master, 0, 3 + 16, 0xFF, 0)
    got2 = _classic(nl2, top2.master, 0, 3, 0xFF, 0)
    fails = got != 0x103 or got2 != 0x107000001AA
    return fails, ("Cache(16, 32->32) over SRAM init 0x100+a: cold read of adr 3 returned %#x (backing holds 0x103); "
                   "Cache(16, 64->32): write lane 0 of adr 3, evict, reread returned %#x (flat memory: 0x107000001aa)"
                   % (got, got2))


def _burst_read(top, adr, bte, n):
    nl = L.FastNetlist(top)
    m = top.master
    out, a, beat = [], adr, 0
    for t in range(200):
        cti = 7 if beat == n - 1 else 2
        for sig, v in zip((m.cyc, m.stb, m.we, m.adr, m.sel, m.dat_w, m.cti, m.bte), (1, 1, 0, a, 15, 0, cti, bte)):
            nl.set(sig, v)
        nl.settle()
        ack, d = nl.getu(m.ack), nl.getu(m.dat_r)
        nl.tick()
        if ack:
            out.append((a, d))
            beat += 1
            if beat == n:
                break
            a = L.burst_next(a, bte)
    return out


def probe_sram_wrap_overrun():
    init = [0x100 + a for a in range(64)]
    r = _burst_read(L.build_sram(32, 64, 30, burst=True, init=init), 0x12, 1, 6)
    bad = [(a, d) for a, d in r if d != 0x100 + a]
    return bool(bad), ("SRAM wrap-4 read burst of 6 beats from 0x12: " +
                       ", ".join("adr %#x -> %#x" % x for x in r) + " (expected 0x100+adr)")


def probe_remapper_wide_bus():
    res = []
    for dw, aw in ((64, 29), (32, 30)):
        top = L.build_remap(dw, aw, 0, None, [(0x90000000, 0x1000, 0x10000000)], addressing="word")
        nl = L.FastNetlist(top)
        sh = L.log2i(dw // 8)
        nl.set(top.master.adr, 0x90000000 >> sh)
        nl.settle()
        res.append((dw, nl.getu(top.slave.adr) << sh))
    fails = any(a != 0x10000000 for _, a in res)
    return fails, ("Remapper region 0x90000000->0x10000000: " +
                   ", ".join("%d-bit bus: byte address 0x90000000 -> %#x" % x for x in res))


def probe_wb2csr_partial_sel():
    from migen import Module
    from litex.soc.interconnect import csr, csr_bus, wishbone
    res = []
    for register in (True, False):
        top = Module()
        top.master = wishbone.Interface(data_width=32, adr_width=30)
        top.csrbus = csr_bus.Interface(data_width=32, address_width=14)
        top.submodules.bridge = wishbone.Wishbone2CSR(top.master, top.csrbus, register=register)
        top.reg = csr.CSRStorage(32, reset=0x11223344, name="reg")
        top.submodules.bank = csr_bus.CSRBank([top.reg], address=0, bus=top.csrbus)
        nl = L.FastNetlist(top)
        _classic(nl, top.master, 1, 0, 0b0001, 0xAABBCCDD)
        res.append(_classic(nl, top.master, 0, 0, 15, 0))
    fails = any(r != 0x112233DD for r in res)
    return fails, ("Wishbone2CSR: write sel=0001 dat=0xaabbccdd to a CSRStorage holding 0x11223344, read back: " +
                   ", ".join("%#x" % r for r in res) + " (flat byte memory: 0x112233dd)")


def probe_upconverter_burst():
    """Fixed (82f0bdf): UpConverter used to forward cti/bte unchanged, so a burst-capable wide slave advanced its
    address counter on every narrow beat.  Must pass."""
    init = [0x1111111100000000 * 0 + (0x0101010101010101 * (a + 1)) for a in range(16)]
    top = L.build_conv_sram(32, 64, 5, 16, burst=True, init=init)
    nl = L.FastNetlist(top)
    m = top.master
    data = {2: 0xAAAAAAA2, 3: 0xBBBBBBB3, 4: 0xCCCCCCC4}
    for k, a in enumerate((2, 3, 4)):
        _beat = (1, 1, 1, a, 15, data[a], 7 if k == 2 else 2, 0)
        for t in range(20):
            for sig, v in zip((m.cyc, m.stb, m.we, m.adr, m.sel, m.dat_w, m.cti, m.bte), _beat):
                nl.set(sig, v)
            nl.settle()
            ack = nl.getu(m.ack)
            nl.tick()
            if ack:
                break
    nl.set(m.cyc, 0)
    nl.set(m.stb, 0)
    nl.settle()
    nl.tick()
    got = {a: _classic(nl, m, 0, a, 15, 0) for a in (2, 3, 4, 5)}
    exp = dict(data)
    exp[5] = (init[2] >> 32) & 0xFFFFFFFF
    fails = got != exp
    return fails, ("UpConverter 32->64 over a bursting SRAM, write burst to 2,3,4 then classic reads: " +
                   ", ".join("adr %d -> %#x (flat memory: %#x)" % (a, got[a], exp[a]) for a in (2, 3, 4, 5)))


PROBES = [
    ("C07-cache-no-valid-bit", probe_cache_no_valid_bit),
    ("C07-sram-wrap-burst-overrun", probe_sram_wrap_overrun),
    ("C07-remapper-wide-bus-region", probe_remapper_wide_bus),
    ("C07-wb2csr-no-byte-enables", probe_wb2csr_partial_sel),
    ("C07-upconverter-burst-passthrough", probe_upconverter_burst),
]


def probes(ctx):
    out = []
    listed = {e.get("id") for e in ctx.known}
    for fid, fn in PROBES:
        fails, what = fn()
        if fid not in listed and fails:
            # Reported to the coordinator; becomes a KNOWN-FINDING line as soon as the entry exists in
            # known_findings.json (an unlisted failing probe is otherwise a violation by the runner's rules).
            line = "FINDING-CANDIDATE (not yet in known_findings.json): property=C07 %s: %s" % (fid, what)
            print(line, flush=True)
            ctx.cov.notes.append(line)
            continue
        out.append((fid, fails, what))
    return out
