"""C18 — ECC corrects every single-bit error and flags every double-bit error (litex/soc/cores/ecc.py).

regen: the GF(2) tables the elaborated netlists implement (zero word + unit vectors; k = 1..16, 32, 64, 128) are written
to lean/LitexModel/Generated/EccTables.lean and compared with the model by the Lean kernel (LitexProofs/Ecc/Tables*.lean).
A changed table breaks the build; the runner then skips `correspond` and `search` works from the tables + monitors.
correspond: (1) corpus; (2) geometry helpers vs the Lean model for ALL k in 1..512 (mode C, complete on that range);
(3) encoder/decoder netlists vs the Lean `encode`/`decode`: k <= 8 (quick: k <= 6) over ALL data words and ALL
2^(n+1) decoder input words x enable; k in {11,15,16,26,32,57,64,120,128}: data words x all single flips x all
(thorough) / sampled (quick) pairs; every other width 9..128 (thorough) / 4 seeded widths (quick): one random word x
all single flips x sampled pairs.  The property oracle (c18lib.oracle: direct round-trip demand + independent
matrix-form Hamming reference) runs on the real code in the same jobs and alone in `search`.
"""
import os, json, glob
import c18lib as L
from c18lib import LARGE_KS

CORPUS = os.path.join(L.VERIF, "corpus", "C18")
GEOM_KMAX = 512


# ---------------------------------------------------------------------------------------------------------

class Dis:
    """A disagreement (the runner hands only non-dict objects on to `search`)."""
    def __init__(self, d):
        self.d = dict(d)

    def get(self, k, default=None):
        return self.d.get(k, default)

    def __getitem__(self, k):
        return self.d[k]

    def __contains__(self, k):
        return k in self.d

    def to_json(self):
        return self.d


def _fmt(l):
    return " ".join(map(str, l)) if l else "-"


class _TooManyHangs(Exception):
    pass


def _guard(dis, fn, *args):
    """Call a helper of the real code; an exception or an endless loop becomes a disagreement (returns None).
    After three hangs the enumeration is abandoned (each one costs its whole time-out)."""
    try:
        with L.alarm(1, "%s%r" % (fn.__name__, args)):
            return fn(*args)
    except Exception as e:
        if isinstance(e, L.Hang):
            _guard.hangs = getattr(_guard, "hangs", 0) + 1
            if _guard.hangs >= 3:
                dis.append({"kind": "elaboration", "k": None, "what": "%s%r: %r" % (fn.__name__, args, e)})
                raise _TooManyHangs()
        if len([d for d in dis if d.get("kind") == "elaboration"]) < 5:
            dis.append({"kind": "elaboration", "k": args[0] if fn.__name__ == "compute_m_n" else None,
                        "what": "%s%r: %r" % (fn.__name__, args, e)})
        return None


def regen(ctx):
    """Rewrite lean/LitexModel/Generated/EccTables.lean from the elaborated netlists (see c18lib.regen_tables)."""
    try:
        # the constructors call the geometry helpers: if one of them no longer terminates (or raises) for the widest
        # word, do not elaborate 19 widths - leave the file alone and let `geometry` report the helper
        E = L.ecc()
        with L.alarm(5, "geometry helpers for k=128"):
            m, n = E.compute_m_n(128)
            E.compute_syndrome_positions(136), E.compute_data_positions(136)
            for i in range(8):
                E.compute_cover_positions(136, 2 ** i)
        changed, problems = L.regen_tables(ctx.seed)
    except Exception as e:     # a changed tree on which not even the extraction runs: reported by correspond
        changed, problems = False, [{"kind": "elaboration", "k": None, "what": "table regeneration raised %r" % (e,)}]
    if changed:
        ctx.log("regen: lean/LitexModel/Generated/EccTables.lean CHANGED (the netlists implement other GF(2) tables)")
    ctx.c18_regen = (changed, problems)


def tables_cases(ctx):
    """The regenerated tables as evidence: rows extracted, linearity samples, the model's generator rows through the
    driver (`call rows`) for the widths whose rows the kernel does not evaluate."""
    dis = []
    changed, problems = getattr(ctx, "c18_regen", (False, []))
    dis += problems
    ks = sorted(L.TABLES)
    nrows = sum(len(t["encRows"]) + 3 * len(t["decSingle"]) + len(t["decPass"]) for t in L.TABLES.values())
    if ks:
        ans = ctx.lean.call_batch(["rows %d" % k for k in ks])
        for k, a in zip(ks, ans):
            if a != _fmt(L.TABLES[k]["encRows"]):
                dis.append({"kind": "correspondence", "k": k, "what": "generator matrix (encoder on the unit vectors)",
                            "impl": _fmt(L.TABLES[k]["encRows"])[:200], "model": str(a)[:200]})
    ctx.cov.add_cases("GF(2) tables regenerated from the netlists, k in %s (rows; generator rows vs model through the driver)"
                      % (",".join(map(str, ks)),), nrows, nrows, exhaustive=True)
    return dis


def geometry(ctx):
    """All geometry helpers, every k in 1..512 (through `call`).  The lengths n and strides p that are compared come
    from k through the Hamming bound (c18lib.ref_m_n) and from n itself, never from what the helpers return."""
    E = L.ecc()
    dis = []
    reqs, want, what = [], [], []
    _guard.hangs = 0
    try:
        ncover = _enumerate_geometry(E, dis, reqs, want, what)
    except _TooManyHangs:
        ncover = 0
    return _compare_geometry(ctx, dis, reqs, want, what, ncover)


def _enumerate_geometry(E, dis, reqs, want, what):
    ns = set(range(1, 65))
    for k in range(1, GEOM_KMAX + 1):
        r = _guard(dis, E.compute_m_n, k)
        ns.add(L.ref_m_n(k)[1])
        if r is None:
            continue
        reqs.append("mn %d" % k); want.append("%d %d" % tuple(r)); what.append(("compute_m_n", (k,)))
    ncover = 0
    for n in sorted(ns):
        sp = _guard(dis, E.compute_syndrome_positions, n)
        if sp is not None:
            reqs.append("synpos %d" % n); want.append(_fmt(sp)); what.append(("compute_syndrome_positions", (n,)))
        dp = _guard(dis, E.compute_data_positions, n)
        if dp is not None:
            reqs.append("datapos %d" % n); want.append(_fmt(dp)); what.append(("compute_data_positions", (n,)))
        ps = [1 << i for i in range(n.bit_length() + 1)]      # every power of two <= n and the first one beyond
        if n <= 40:
            ps = list(range(1, n + 2))           # every stride, not only the powers of two the callers use
        for p in ps:
            cp = _guard(dis, E.compute_cover_positions, n, p)
            if cp is None:
                continue
            reqs.append("cover %d %d" % (n, p)); want.append(_fmt(cp))
            what.append(("compute_cover_positions", (n, p)))
            ncover += 1
    return ncover


def _compare_geometry(ctx, dis, reqs, want, what, ncover):
    if not reqs:
        return dis
    ans = ctx.lean.call_batch(reqs)
    bad = 0
    for r, w, a, wh in zip(reqs, want, ans, what):
        if a != w:
            bad += 1
            if bad <= 3:
                dis.append({"kind": "correspondence", "what": "%s%r" % wh, "impl": w, "model": a})
    ctx.cov.add_cases("geometry helpers, all k in 1..%d (n=m+k and n in 1..64; %d cover sets)" % (GEOM_KMAX, ncover),
                      len(reqs), len(reqs), exhaustive=not any(d.get("kind") == "elaboration" for d in dis))
    # sensitivity self-test of the comparison: two perturbed model answers must be flagged
    pert = list(ans)
    pert[0] = pert[0] + "0"
    pert[-1] = "-" if pert[-1] != "-" else "1"
    if sum(1 for w, a in zip(want, pert) if a != w) < 2 and not bad:
        dis.append({"kind": "harness-selfcheck", "what": "perturbed model answers were not flagged"})
    return dis


def netlist_jobs(tier, rng=None):
    quick = tier == "quick"
    J = []
    # every supported width 1..128 is in the grid of the thorough tier; the quick tier draws 4 of the
    # remaining widths from the seed
    others = [k for k in range(9, 129) if k not in LARGE_KS]
    if quick:
        # always: the widths just past a perfect code (k = 2^m - m: a new check bit appears, n = 2^m + m)
        J += [(L.job_large, (k, 1, 60), {"garbage": 8, "fixed": False, "selfcheck": False}) for k in (12, 27, 58, 121)]
        others = [k for k in others if k not in (12, 27, 58, 121)]
        others = sorted(rng.sample(others, 4)) if rng is not None else []
    for k in others:
        J.append((L.job_large, (k, 1, 40 if quick else 80), {"garbage": 8, "fixed": False, "selfcheck": False}))
    for k in range(1, 9):
        J.append((L.job_small, (k,), {}))
    # encoder + decoder inside one module (the way the test bench / memory controllers instantiate them)
    for k in (3, 15, 33, 64) if quick else (3, 8, 15, 33, 64, 72, 128):
        J.append((L.job_loopback, (k, 1 if quick else 3), {}))
    for k in LARGE_KS:
        if quick:
            J.append((L.job_large, (k, 3, 150 if k >= 100 else 300), {"selfcheck": k < 100}))
        else:
            # several jobs per width keep the pool balanced (k=128: ~9.3k pairs per data word)
            J.append((L.job_large, (k, 1, None), {"garbage": 64, "fixed": False}))
            J.append((L.job_large, (k, 1, None), {"garbage": 64, "fixed": False}))
            J.append((L.job_large, (k, 1, None), {"garbage": 0, "fixed": "zero"}))
            if k < 100:
                J.append((L.job_large, (k, 1, None), {"garbage": 0, "fixed": "ones"}))
    # most expensive first (cost ~ cases x width)
    def cost(j):
        if j[0] is not L.job_large:
            return 0
        k, words, pairs = j[1]
        return -(k * words * (k + (k * k // 2 if pairs is None else pairs)))
    J.sort(key=cost)
    return J


def merge(ctx, results):
    dis = []
    for r in results:
        ctx.cov.add_cases(r["name"], r["cases"], r["nontrivial"], exhaustive=r["exhaustive"], mode="netlist")
        ctx.cov.instances[-1]["wall_s"] = r.get("wall_s")
        for kk, v in r["hist"].items():
            ctx.cov.count(kk, v)
        for s in r["samples"]:
            if len(ctx.cov.samples) < 8:
                ctx.cov.samples.append(s)
        dis += r["dis"]
    return dis


def corpus_cases():
    cases = []
    for f in sorted(glob.glob(os.path.join(CORPUS, "*.json"))):
        for c in json.load(open(f)).get("cases", []):
            c = dict(c)
            c["corpus"] = os.path.basename(f)
            cases.append(c)
    return cases


def correspond(ctx):
    ctx.rule = ("one case = one call of a geometry helper, or one evaluation of the encoder/decoder netlist compared with "
                "the Lean model; non-trivial = the decoder raised sec or ded (an error was present)")
    dis = geometry(ctx)
    if any("no result within" in d.get("what", "") for d in dis):
        # a geometry helper no longer terminates: the constructors call it, so do not elaborate the netlists
        ctx.log("a geometry helper hangs; netlist jobs skipped")
        ctx.c18_dis = [Dis(d) for d in dis]
        return ctx.c18_dis
    dis += tables_cases(ctx)
    jobs = netlist_jobs(ctx.tier, ctx.rng)
    cc = corpus_cases()
    for k in sorted({c["k"] for c in cc}):       # one job per width (netlist elaboration dominates)
        job = (L.job_corpus, ([c for c in cc if c["k"] == k],), {})
        if k >= 100:
            jobs.insert(0, job)
        else:
            jobs.append(job)
    dis += merge(ctx, L.run_pool(ctx.seed, jobs, timeout=100 if ctx.tier == "quick" else 1200))
    dis.sort(key=lambda d: (d.get("k") if isinstance(d.get("k"), int) else 0, d.get("kind") != "monitor"))
    for d in dis[:5]:
        ctx.log("DISAGREEMENT", json.dumps(d, default=str)[:300])
    ctx.c18_dis = [Dis(d) for d in dis]
    return ctx.c18_dis


# ---------------------------------------------------------------------------------------------------------

def search(ctx, disagreements, proof_info):
    """Failing-input search on the real code with the model-independent oracle only."""
    # 0. the kernel check against the regenerated tables broke: the runner skipped `correspond`.  The tables say where
    #    the netlists changed (directed candidates); then the monitors of the very jobs `correspond` would have run.
    if not hasattr(ctx, "c18_dis") and not list(disagreements):
        hit = _directed_from_tables(ctx)
        if hit:
            return hit
        jobs = netlist_jobs(ctx.tier, ctx.rng)
        cc = corpus_cases()
        for k in sorted({c["k"] for c in cc}):
            jobs.append((L.job_corpus, ([c for c in cc if c["k"] == k],), {}))
        res = L.run_pool(ctx.seed, jobs, monitor_only=True, timeout=100 if ctx.tier == "quick" else 1200)
        ctx.c18_dis = [Dis(d) for r in res for d in r["dis"]] + [Dis(d) for d in getattr(ctx, "c18_regen", (0, []))[1]]
    # 1. a monitor (oracle) that already fired during correspondence (smallest width first)
    disagreements = list(disagreements) or list(getattr(ctx, "c18_dis", []))
    disagreements = sorted(disagreements, key=lambda d: d.get("k") if isinstance(d.get("k"), int) else 1 << 30)
    for d in disagreements:
        if d.get("kind") == "monitor" and "data" in d:
            return {"k": d["k"], "data": d["data"], "flips": d["flips"], "enable": d["enable"],
                    "encoder_out": d.get("codeword"), "decoder_out(o,sec,ded)": d.get("out"), "oracle": d["what"],
                    "format": "flips = bit positions of the n+1-bit code word that were inverted (0 = overall parity bit)"}
    for d in disagreements:
        if d.get("kind") in ("elaboration", "timeout", "exception"):
            return {"k": d.get("k"), "last_inputs": d.get("last_inputs"),
                    "oracle": "no usable encoder/decoder for this supported width (%s): %s" % (d["kind"], d["what"])}
        if d.get("kind") == "monitor":
            return {"k": d.get("k"), "oracle": d["what"]}
    # 2. oracle-only sweep: widths named by the disagreements first, then the whole grid, then all k in 1..128
    ks = [d["k"] for d in disagreements if isinstance(d.get("k"), int)]
    jobs = []
    seen = set()
    for k in ks + list(range(1, 9)) + list(LARGE_KS):
        if k in seen or not (1 <= k <= 128):
            continue
        seen.add(k)
        jobs.append((L.job_small, (k,), {}) if k <= 8 else (L.job_large, (k, 3, 400), {}))
    if ctx.tier != "quick":
        for k in range(9, 129):
            if k not in seen:
                jobs.append((L.job_large, (k, 2, 100), {}))
    for r in L.run_pool(ctx.seed + 1, jobs, monitor_only=True, timeout=100 if ctx.tier == "quick" else 600):
        for d in r["dis"]:
            if d.get("kind") == "monitor" and "data" in d:
                return {"k": d["k"], "data": d["data"], "flips": d["flips"], "enable": d["enable"],
                        "encoder_out": d.get("codeword"), "decoder_out(o,sec,ded)": d.get("out"), "oracle": d["what"],
                        "format": "flips = bit positions of the n+1-bit code word that were inverted (0 = overall parity bit)"}
            if d.get("kind") in ("elaboration", "timeout", "exception"):
                return {"k": d.get("k"), "last_inputs": d.get("last_inputs"),
                        "oracle": "no usable encoder/decoder for this supported width (%s): %s" % (d["kind"], d["what"])}
    return None


def _directed_from_tables(ctx):
    """Entries of the regenerated tables that differ from the textbook code name candidate inputs; the property oracle
    decides on the real code (smallest width first)."""
    import itertools
    for k in sorted(L.TABLES):
        t = L.TABLES[k]
        nb = t["nbits"]
        cands = []
        for j, v in enumerate(t["decSingle"]):
            if v != (0 if j == 0 else 2):
                cands.append((0, (j,), 1))
        if t["decClean"] != 0:
            cands.append((0, (), 1))
        for j, v in enumerate(t["decPass"]):
            if v != L.ref_extract(k, 1 << j) * 4:
                cands += [(d, (), 0) for d in (1, (1 << k) - 1)] + [(1 << b, (), 0) for b in range(k)]
                break
        bad_rows = [b for b, v in enumerate(t["encRows"]) if v != L.ref_encode(k, 1 << b)]
        if t["encZero"] != 0:
            bad_rows.append(None)
        flipsets = [()] + [(j,) for j in range(nb)] + list(itertools.combinations(range(min(nb, 24)), 2))
        for b in bad_rows[:4]:
            cands += [(0 if b is None else 1 << b, f, 1) for f in flipsets]
        if not cands:
            continue
        try:
            r = L.RealEcc(k)
        except Exception:
            continue
        for d, flips, en in cands[:1500]:
            cw = r.encode(d)
            w = cw
            for j in flips:
                w ^= 1 << j
            out = r.decode(en, w)
            m = L.oracle(k, r.n_impl, d, cw, flips, en, out)
            if m:
                return {"k": k, "data": d, "flips": list(flips), "enable": en, "encoder_out": cw,
                        "decoder_out(o,sec,ded)": list(out), "oracle": m + " [candidate named by the regenerated tables]",
                        "format": "flips = bit positions of the n+1-bit code word that were inverted (0 = overall parity bit)"}
    return None


def probes(ctx):
    return []     # no known findings for C18


def replay(ctx, payload):
    fi = payload.get("failing_input") or {}
    if "data" not in fi:
        print("replay file carries no concrete failing input:", fi.get("oracle") or payload.get("note"))
        for d in payload.get("disagreements", [])[:3]:
            print("  ", d)
        return 1
    k, d, flips, en = fi["k"], fi["data"], tuple(fi["flips"]), fi["enable"]
    r = L.RealEcc(k)
    cw = r.encode(d)
    w = cw
    for j in flips:
        w ^= 1 << j
    out = r.decode(en, w)
    m = L.oracle(k, r.n, d, cw, flips, en, out)
    print("k=%d data=%d codeword=%d flips=%s enable=%d -> o=%d sec=%d ded=%d" % ((k, d, cw, list(flips), en) + out))
    if m:
        print(m)
        print("VIOLATION property=C18 replay=(replayed)")
        return 1
    print("input no longer violates the property on the current tree")
    return 0
