"""C11 — a silent or absent slave cannot hang the bus."""
import os
from explore import Job, run_jobs, generic_search, generic_replay, replay_with_monitor
import c11lib as L

FMT = ("see lean/LitexModel/Timeout/Num.lean: wishbone shared = per master (cyc stb adr) then per slave (ack err dat_r); "
       "AXI shared = per master (awv awa wv br), per slave (awr wr bv bresp), per master (arv ara rr), "
       "per slave (arr rv rresp rdata rlast); timeout alone = the watched bus signals; WaitTimer = wait; "
       "bus error counter = bus_error; "
       "+SoCController instances: the interconnect's letter [then per master awid awlen wlast arid arlen, per slave bid rid]; "
       "outputs: the interconnect's, [per slave awid awlen wlast arid arlen, per master bid rid,] bus_errors")

F_XBAR = "C11-crossbar-timeout-ignored"
F_RESP = "C11-axi-response-phase-unwatched"
F_STALE = "C11-axi-stale-late-response"


def jobs(tier):
    quick = tier == "quick"
    J = []
    import time
    cap = 600 if quick else 40000
    # per-instance wall-clock guard: a changed implementation that explodes the state space ends the exploration
    # (recorded as not exhaustive) instead of running endlessly
    dl = time.time() + (240 if quick else 2400)
    A = lambda mk, **kw: J.append(Job("A", mk, max_states=kw.pop("max_states", cap), deadline=dl, **kw))
    B = lambda mk, **kw: J.append(Job("B", mk, cycles=kw.pop("cycles", 3000 if quick else 20000),
                                      runs=kw.pop("runs", 1 if quick else 2), **kw))

    # ---- WaitTimer, bus error counter
    for t in (1, 2, 3, 4, 5, 7, 8, 2.7, 3.0):           # incl. powers of two (bits_for corner) and floats (int(t))
        A(lambda t=t: L.WaitTimerInst(t))
    A(lambda: L.BusErrInst(2 ** 32 - 4), max_states=64)

    # ---- wishbone: Timeout alone, shared interconnect, crossbar
    for t in (1, 2, 3):
        A(lambda t=t: L.WbTimeoutInst(t))
        for (n, k) in ((1, 1), (2, 1), (1, 2), (2, 2)):
            A(lambda t=t, n=n, k=k: L.WbSharedInst(n, k, t, alphabet=L.wb_alphabet(n, k, 1)))
    A(lambda: L.WbSharedInst(1, 2, 2, reg=True, alphabet=L.wb_alphabet(1, 2, 1)))
    # corners: float timeout as the SoC passes it, 3 masters, 3 slaves, masters with different adr widths (the shared
    # bus is sized by `max`: master 1 cannot reach slot 2/3), timeout 4 and 8 (count register exactly full)
    A(lambda: L.WbSharedInst(1, 1, 3.0, alphabet=L.wb_alphabet(1, 1, 1)))
    A(lambda: L.WbSharedInst(3, 1, 2, alphabet=L.wb_alphabet(3, 1, 1, s_parts=[(0, 0, 0), (1, 0, 0xa5), (0, 1, 0x3c)])))
    A(lambda: L.WbSharedInst(1, 3, 4, alphabet=L.wb_alphabet(1, 3, 1, s_parts=[(0, 0, 0), (1, 0, 0xa5), (0, 1, 0x3c)])))
    A(lambda: L.WbSharedInst(2, 3, 2, m_aws=[3, 2], alphabet=L.wb_alphabet(
        2, 3, 1, s_parts=[(0, 0, 0), (1, 0, 0xa5)],
        m_parts=[[(0, 0, 0), (1, 0, 0)] + [(1, 1, sl << 1) for sl in range(4)],
                 [(0, 0, 0), (0, 1, 0)] + [(1, 1, sl << 1) for sl in range(2)]])))
    A(lambda: L.WbTimeoutInst(8))
    # wide buses: the forced read data must be all ones on the FULL dat_r width (64/128 bit)
    wide_s = lambda dw: [(0, 0, 0), (0, 0, 1 << (dw - 1)), (1, 0, (0xa5 << (dw - 8)) | 0x3c), (0, 1, 0)]
    A(lambda: L.WbTimeoutInst(2, dw=64, dats=(0, (0xa5 << 56) | 0x3c)))
    A(lambda: L.WbTimeoutInst(1, dw=128, dats=(0, (0xa5 << 120) | 0x3c)))
    A(lambda: L.WbSharedInst(1, 1, 2, dw=64, alphabet=L.wb_alphabet(1, 1, 1, s_parts=wide_s(64))))
    A(lambda: L.WbSharedInst(2, 2, 3, dw=64, alphabet=L.wb_alphabet(2, 2, 1, s_parts=wide_s(64)[:3])))
    A(lambda: L.WbSharedInst(2, 1, 1, dw=128, reg=True, alphabet=L.wb_alphabet(2, 1, 1, s_parts=wide_s(128))))
    A(lambda: L.WbSharedInst(2, 1, None, alphabet=L.wb_alphabet(2, 1, 1)))
    for t in (1, 3):
        A(lambda t=t: L.WbSharedInst(1, 1, t, kind="xbar", alphabet=L.wb_alphabet(1, 1, 1)))
    A(lambda: L.WbSharedInst(2, 2, 2, kind="xbar", alphabet=L.wb_alphabet(2, 2, 1)))

    # ---- AXI-Lite / AXI: timeout FSMs alone, shared interconnects (each direction on its own: they share nothing)
    for full in (False, True):
        for t in (1, 2, 3):
            for d in ("w", "r"):
                A(lambda full=full, t=t, d=d: L.AxTimeoutInst(full, t, direction=d))
        A(lambda full=full: L.AxTimeoutInst(full, 2, dw=64, direction="r"))       # forced R data on 64/128 bit
        A(lambda full=full: L.AxTimeoutInst(full, 1, dw=128, direction="r"))
    # The composed AXI netlists evaluate at < 1000 cycles/s and the lock counters (0..255) multiply the state
    # space, so the product is explored breadth-first up to a transition budget (all states within a few
    # outstanding requests of reset: every timer value x FSM state x grant x select is reached long before).
    budget = 7000 if quick else 40000

    def AX(full, n, k, t, d, m_parts=None, s_parts=None, scale=1.0, kind="shared"):
        alpha = L.ax_alphabet(n, k, 4, d, full, m_parts=m_parts, s_parts=s_parts)
        A(lambda: L.AxSharedInst(full, n, k, t, alphabet=alpha, tag="/" + d, kind=kind),
          max_states=max(30, int(budget * scale) // len(alpha)))

    mw2 = [(0, 0, 0, 0), (0, 0, 0, 1), (1, 0, 1, 0), (1, 0, 0, 1), (0, 0, 1, 1), (1, 16, 1, 1)]   # 2 masters, 1 slave
    mr2 = [(0, 0, 0), (0, 0, 1), (1, 0, 0), (1, 0, 1), (1, 16, 1)]
    sw2 = [(0, 0, 0, 0), (1, 1, 0, 0), (0, 0, 1, 1), (1, 0, 0, 0), (0, 1, 1, 3)]                    # 2 slaves
    sr2 = [(0, 0, 0, 0, 0), (1, 0, 0, 0, 0), (0, 1, 1, 0x5a, 0), (1, 1, 2, 0x3c, 0)]
    for t in (1, 2, 3):
        AX(False, 1, 1, t, "w", scale=1.0 if quick else (9.0 if t == 1 else 2.0))   # thorough, t=1: complete product
        AX(False, 1, 1, t, "r", scale=1.0 if quick else 2.5)                       # thorough: complete product
    AX(True, 1, 1, 2, "r")
    AX(True, 1, 1, 2, "w")
    if not quick:
        AX(True, 1, 1, 1, "r")
        AX(True, 1, 1, 3, "r")
    mw1 = [(0, 0, 0, 0), (0, 0, 0, 1), (1, 0, 1, 0), (1, 0, 1, 1), (1, 16, 0, 1), (0, 16, 1, 1), (1, 32, 1, 1),
           (0, 32, 0, 1)]                                                                         # 1 master, 2 slaves
    AX(False, 2, 1, 2, "w", m_parts=mw2, s_parts=sw2 if quick else None)
    AX(False, 2, 1, 2, "r", m_parts=mr2)
    AX(False, 1, 2, 2, "w", m_parts=mw1 if quick else None, s_parts=sw2[:4])
    AX(False, 1, 2, 2, "r", s_parts=sr2)
    AX(True, 2, 1, 1, "w", m_parts=mw2, s_parts=sw2 if quick else None)
    AX(True, 2, 1, 1, "r", m_parts=mr2, s_parts=[(0, 0, 0, 0, 0), (1, 0, 0, 0, 0), (0, 1, 1, 0x5a, 0),
                                                 (0, 1, 1, 0x5a, 1), (1, 1, 2, 0x3c, 1)])
    AX(False, 1, 1, None, "w", scale=0.5)
    # crossbars: `timeout_cycles` given, the model has no timer (finding C11-crossbar-timeout-ignored)
    AX(False, 1, 1, 2, "w", scale=0.5, kind="xbar")
    AX(False, 1, 1, 2, "r", scale=0.5, kind="xbar")
    AX(True, 1, 1, 3, "r", scale=0.5, kind="xbar")
    if not quick:
        AX(False, 2, 2, 2, "w", kind="xbar", s_parts=sw2[:4],
           m_parts=[(0, 0, 0, 1), (1, 0, 1, 0), (1, 16, 1, 1), (0, 16, 1, 1), (1, 32, 1, 1)])
        AX(True, 2, 2, 2, "r", kind="xbar", m_parts=[(0, 0, 1), (1, 0, 1), (1, 16, 0), (1, 32, 1)],
           s_parts=[(0, 0, 0, 0, 0), (1, 0, 0, 0, 0), (0, 1, 1, 0x5a, 0), (0, 1, 1, 0x5a, 1)])
    if not quick:
        AX(False, 2, 2, 2, "w", m_parts=[(0, 0, 0, 1), (1, 0, 1, 0), (1, 16, 1, 1), (0, 16, 1, 1), (1, 32, 1, 1)],
           s_parts=sw2[:4])
        AX(False, 2, 2, 2, "r", m_parts=[(0, 0, 1), (1, 0, 1), (1, 16, 0), (1, 32, 1)], s_parts=sr2)
        AX(True, 2, 2, 3, "r", m_parts=[(0, 0, 1), (1, 0, 1), (1, 16, 0), (1, 32, 1)],
           s_parts=[(0, 0, 0, 0, 0), (1, 0, 0, 0, 0), (0, 1, 1, 0x5a, 0), (0, 1, 1, 0x5a, 1)])


    # ---- SoC glue: interconnect + SoCController.bus_errors wired as SoC.finalize does (+ AXI ids/len/last pass-through).
    # The counter is preloaded just below saturation so that the reachable product stays finite (it saturates).
    SAT = 2 ** 32 - 1
    A(lambda: L.WbSharedInst(1, 1, 2, soc_init=SAT - 2, alphabet=L.wb_alphabet(1, 1, 1)))
    A(lambda: L.WbSharedInst(2, 1, 1, soc_init=SAT - 1, alphabet=L.wb_alphabet(2, 1, 1, s_parts=[(0, 0, 0), (1, 0, 0xa5)])))
    if not quick:
        A(lambda: L.WbSharedInst(2, 2, 3, soc_init=SAT - 3, reg=True, alphabet=L.wb_alphabet(2, 2, 1, s_parts=[(0, 0, 0), (1, 0, 0xa5)])))

    def AXS(full, n, k, t, init, scale=1.0):
        alpha = L.ax_soc_alphabet(n, k, 4, full)
        A(lambda: L.AxSharedInst(full, n, k, t, alphabet=alpha, soc_init=init),
          max_states=max(30, int(budget * scale) // len(alpha)))
    AXS(True, 1, 1, 1, SAT - 2)
    AXS(False, 1, 1, 2, SAT - 1, scale=0.5)
    if not quick:
        AXS(True, 1, 1, 3, SAT - 2)
        AXS(True, 2, 1, 2, SAT - 2)
        AXS(True, 1, 2, 2, SAT - 1)

    # ---- mode B: realistic sizes, t in {16, 100, 128}
    B(lambda: L.WaitTimerInst(100))
    B(lambda: L.WaitTimerInst(1000), cycles=20000 if quick else 200000)
    B(lambda: L.BusErrInst(0))
    B(lambda: L.BusErrInst(2 ** 32 - 700))
    for t in (16, 100, 128):
        B(lambda t=t: L.WbTimeoutInst(t, dw=32))
        B(lambda t=t: L.WbSharedInst(2, 2, t, dw=32, sh=4))
        B(lambda t=t: L.AxTimeoutInst(False, t, dw=32), cycles=8000 if quick else 80000)
        B(lambda t=t: L.AxSharedInst(False, 2, 2, t, dw=32))
        B(lambda t=t: L.AxSharedInst(True, 2, 2, t, dw=32))
    B(lambda: L.WbSharedInst(3, 3, 16, dw=32, sh=4, reg=True))
    B(lambda: L.WbSharedInst(5, 3, 7, dw=32, sh=4))
    B(lambda: L.WbSharedInst(3, 2, 255, dw=16, sh=3, m_aws=[5, 4, 5]))
    B(lambda: L.WbSharedInst(2, 2, "default", dw=32, sh=4), cycles=1500 if quick else 15000)   # omitted argument: 1e6
    B(lambda: L.AxSharedInst(False, 3, 2, 7, dw=32, m_aws=[6, 5, 6]))
    B(lambda: L.AxSharedInst(True, 2, 3, 16, dw=32, m_aws=[5, 6]))
    B(lambda: L.WbTimeoutInst(16, dw=64))
    B(lambda: L.WbSharedInst(2, 2, 16, dw=64, sh=4))
    B(lambda: L.WbSharedInst(2, 2, 100, dw=128, sh=4))
    B(lambda: L.AxTimeoutInst(True, 16, dw=128), cycles=4000 if quick else 40000)
    B(lambda: L.AxSharedInst(True, 2, 2, 16, dw=64))
    B(lambda: L.WbSharedInst(2, 2, 16, dw=32, sh=4, kind="xbar"))
    B(lambda: L.AxTimeoutInst(True, 16, dw=32), cycles=8000 if quick else 80000)
    B(lambda: L.AxSharedInst(False, 3, 2, 16, dw=64))
    B(lambda: L.AxSharedInst(False, 2, 2, 16, dw=32, kind="xbar"), cycles=1500 if quick else 15000)
    B(lambda: L.AxSharedInst(True, 2, 2, 16, dw=32, kind="xbar"), cycles=1500 if quick else 15000)
    sc = dict(cycles=2000 if quick else 10000)
    B(lambda: L.WbSharedInst(2, 2, 16, dw=16, sh=4, soc_init=0), **sc)
    B(lambda: L.WbSharedInst(3, 2, 7, dw=8, sh=4, soc_init=2 ** 32 - 20), **sc)
    B(lambda: L.AxSharedInst(True, 2, 2, 7, dw=16, soc_init=0), **sc)
    B(lambda: L.AxSharedInst(True, 2, 2, 5, dw=8, soc_init=2 ** 32 - 12), **sc)
    B(lambda: L.AxSharedInst(False, 2, 2, 16, dw=16, soc_init=0), **sc)
    return J


def soc_cases(ctx):
    """End to end on real SoCs (SoCMini + test-bench master, shared interconnect, `bus_timeout` = t): unmapped
    accesses terminate after exactly t (Wishbone) / t + 2 (AXI) cycles with the error indication, RAM accesses in
    between are undisturbed, and `ctrl.bus_errors` (wired by SoC.finalize) counts exactly the timed-out accesses."""
    import random
    out = []
    quick = ctx.tier == "quick"
    n = 0
    touts = 0
    for std in ("wishbone", "axi-lite", "axi"):
        for (t, dw) in (((16, 32), (16, 64)) if quick else ((16, 32), (100, 32), (128, 32), (16, 64), (100, 64))):
            for rep in range(1 if quick else 3):
                seed = ctx.seed * 1009 + 17 * t + rep + dw
                problems, k = L.soc_scenario(std, "shared", t, random.Random(seed), nops=12 if quick else 30, dw=dw)
                n += 1
                touts += k
                ctx.cov.count("soc-timeouts/%s/%db" % (std, dw), k)
                if problems:
                    out.append({"kind": "soc-scenario",
                                "instance": "SoCMini(%s,shared,bus_timeout=%d,bus_data_width=%d)" % (std, t, dw),
                                "std": std, "t": t, "dw": dw, "seed": seed, "nops": 12 if quick else 30,
                                "problems": problems[:5]})
    # glue: SoCBusHandler.do_finalize picks the interconnect.  1 master x 1 slave at a NON-ZERO origin (handler level
    # with a harness-played slave: unmapped + silent slave; SoCMini whose only slave is the CSR bridge) must still get
    # decoder + timeout.  A single slave at origin 0 is wired point-to-point as coded: no timeout exists there, it
    # is outside the obligation (cf. the C06-p2p-* findings) and is only recorded.
    for std in ("wishbone", "axi-lite", "axi"):
        for (t, dw) in (((8, 32), (5, 64)) if quick else ((8, 32), (5, 64), (100, 32), (16, 128))):
            seed = ctx.seed * 1013 + 3 * t + dw
            problems, k = L.handler_1x1_scenario(std, t, random.Random(seed), dw=dw, nops=8 if quick else 20)
            n += 1
            touts += k
            ctx.cov.count("handler-1x1-timeouts/%s/%db" % (std, dw), k)
            if problems:
                out.append({"kind": "soc-scenario", "fn": "handler_1x1_scenario",
                            "instance": "SoCBusHandler(%s,1 master x 1 slave @0x30000000,timeout=%d,data_width=%d)" % (std, t, dw),
                            "std": std, "t": t, "dw": dw, "seed": seed, "nops": 8 if quick else 20, "problems": problems[:5]})
        seed = ctx.seed * 1019 + 7
        problems, k = L.socmini_csr_only_scenario(std, 8, random.Random(seed), nops=6 if quick else 16)
        n += 1
        touts += k
        ctx.cov.count("socmini-csr-only-timeouts/" + std, k)
        if problems:
            out.append({"kind": "soc-scenario", "fn": "socmini_csr_only_scenario",
                        "instance": "SoCMini(%s, only slave = CSR bridge @0xf0000000, bus_timeout=8)" % std,
                        "std": std, "t": 8, "dw": 32, "seed": seed, "nops": 6 if quick else 16, "problems": problems[:5]})
    ctx.cov.notes.append("single slave at origin 0 is wired InterconnectPointToPoint (no decoder, no timeout exists): "
                         "outside C11's obligation, not checked")
    ctx.cov.add_cases("SoCMini + tb master: unmapped/RAM access sequences, exact termination latency, error indication, "
                      "bus_errors CSR (oracle only)", n, touts, exhaustive=False)
    return out


def env_statistics(ctx):
    """What the mode-B environments exercise (measured on the real code, monitors armed)."""
    import random
    out = []
    cyc = 1500 if ctx.tier == "quick" else 15000
    for mk in (lambda: L.WbSharedInst(2, 2, 16, dw=32, sh=4), lambda: L.AxSharedInst(False, 2, 2, 16, dw=32),
               lambda: L.AxSharedInst(True, 2, 2, 16, dw=32)):
        inst = mk()
        stats, msg = L.measure_env(inst, random.Random(ctx.seed + 5), cyc)
        for k, v in stats.items():
            ctx.cov.count("env/%s/%s" % (inst.name.split("(")[0], k), v)
        if msg:
            out.append({"kind": "monitor", "instance": inst.name, "monitor": msg})
    return out


CORPUS = os.path.join(os.path.dirname(os.path.dirname(os.path.dirname(os.path.abspath(__file__)))), "corpus", "C11")


def corpus_entries():
    import glob, json
    return [json.load(open(f)) for f in sorted(glob.glob(os.path.join(CORPUS, "*.json")))]


def run_corpus(ctx):
    """Regression traces (run first): on the unchanged tree the property monitor must stay silent and the model
    must agree cycle by cycle."""
    from explore import Disagreement, impl_step, _masked_equal
    out = []
    n = 0
    for e in corpus_entries():
        if "trace" not in e:
            continue
        inst = getattr(L, e["instance"]["cls"])(*e["instance"]["args"])
        trace = [tuple(l) for l in e["trace"]]
        r = replay_with_monitor(inst, trace)
        if r:
            d = Disagreement(inst, trace[:r[0] + 1], r[0], None, None, kind="monitor:" + r[1])
            d.job = None
            out.append(d)
            continue
        root = inst.netlist.snapshot()
        impl = [impl_step(inst, l) for l in trace]
        inst.netlist.restore(root)
        ctx.lean.open(inst.lean_open)
        model = ctx.lean.run(trace)
        ctx.lean.close_session()
        for c, (a, b) in enumerate(zip(impl, model)):
            if not _masked_equal(inst, a, b):
                out.append(Disagreement(inst, trace[:c + 1], c, a, b))
                break
        n += 1
    ctx.cov.add_cases("corpus regression traces (monitor silent, model agrees)", n, n, exhaustive=False)
    return out


def correspond(ctx):
    dis0 = run_corpus(ctx)
    ctx.jobs = jobs(ctx.tier)
    dis, bad = run_jobs(ctx, ctx.jobs)
    return dis0 + dis + soc_cases(ctx) + env_statistics(ctx)


def _fmt(inst, trace, msg):
    return {"instance": inst.name, "trace": [list(l) for l in trace], "monitor": msg, "letter_format": FMT}


def search(ctx, disagreements, proof_info):
    """Failing-input search with the model-independent monitors.  Order: (1) disagreement traces of the exhaustive
    small instances (short, small t) replayed and extended with letters of the instance's alphabet, then shrunk;
    (2) monitor alarms of the random runs, reduced to the shortest suffix window that still fires; (3) SoC
    scenarios; (4) the generic search over all instances."""
    import time
    from explore import shrink
    all_jobs = getattr(ctx, "jobs", None) or jobs(ctx.tier)
    deadline = time.time() + (60 if ctx.tier == "quick" else 400)
    mach = [d for d in disagreements if not isinstance(d, dict)]
    seen_jobs = set()
    for d in mach:
        j = getattr(d, "job", None)
        if j is None or j in seen_jobs or all_jobs[j].mode != "A" or time.time() > deadline:
            continue
        seen_jobs.add(j)
        inst = all_jobs[j].make()
        if not hasattr(inst, "make_monitor"):
            continue
        traces = [dd.trace for dd in mach if getattr(dd, "job", None) == j]
        for tr in traces:
            r = replay_with_monitor(inst, tr)
            if r:
                cut = shrink(inst, tr[:r[0] + 1])
                return _fmt(inst, cut, replay_with_monitor(inst, cut)[1])
        t = getattr(inst, "t", None) or 3
        for k in range(150):
            base = traces[k % len(traces)]
            ext = [ctx.rng.choice(inst.alphabet) for _ in range(ctx.rng.randint(1, 3 * t + 8))]
            r = replay_with_monitor(inst, list(base) + ext)
            if r:
                cut = shrink(inst, (list(base) + ext)[:r[0] + 1])
                return _fmt(inst, cut, replay_with_monitor(inst, cut)[1])
            if time.time() > deadline:
                break
    for d in mach:
        if getattr(d, "kind", "").startswith("monitor:") and getattr(d, "job", None) is None and d.inst is not None:
            return _fmt(d.inst, d.trace, d.kind[8:])          # corpus regression trace
        if getattr(d, "kind", "").startswith("monitor:") and getattr(d, "job", None) is not None:
            inst = all_jobs[d.job].make()
            tr = list(d.trace)
            best = tr
            w = 4
            while w < len(tr):
                cand = tr[len(tr) - w:]
                r = replay_with_monitor(inst, cand)
                if r:
                    best = cand[:r[0] + 1]
                    break
                w *= 2
            if len(best) <= 200:
                best = shrink(inst, best)
            r = replay_with_monitor(inst, best)
            return _fmt(inst, best, r[1] if r else d.kind[8:])
    for d in disagreements:
        if isinstance(d, dict) and d.get("kind") == "soc-scenario":
            sc = {k: d[k] for k in ("std", "t", "dw", "seed", "nops")}
            sc["fn"] = d.get("fn", "soc_scenario")
            return {"instance": d["instance"], "scenario": sc, "monitor": "; ".join(d["problems"]),
                    "letter_format": "replay: c11lib.<fn>(std, [ 'shared',] t, random.Random(seed), nops=nops[, dw=dw])"}
        if isinstance(d, dict) and d.get("kind") == "monitor":
            return {"instance": d["instance"], "monitor": d["monitor"], "letter_format": "c11lib.measure_env"}
    return generic_search(ctx, mach, all_jobs, FMT)


def probes(ctx):
    """Known findings (all open): the witnesses of corpus/C11/*.json replayed on the real code."""
    out = []
    listed = {k.get("id") for k in ctx.known}
    for e in corpus_entries():
        pr = e.get("probe") or (e.get("probe_pending") if e["id"] in listed else None)
        if pr:
            fails, what = getattr(L, pr["fn"])(**pr["args"])
            out.append((e["id"], fails, what))
        elif e.get("probe_pending"):
            # reproduced and reported, not yet listed in known_findings.json: logged, not a verdict
            pp = e["probe_pending"]
            fails, what = getattr(L, pp["fn"])(**pp["args"])
            ctx.cov.notes.append("pending finding %s %s: %s" % (e["id"], "reproduces" if fails else "does not reproduce", what))
            ctx.log("note: pending finding %s %s" % (e["id"], "reproduces" if fails else "does not reproduce"))
    # sanity of the same oracle on the configuration the theorems cover: the shared interconnects terminate a
    # silent / unmapped request at exactly t (Wishbone ack) resp. t + 2 (AXI B/R handshake)
    for t in (1, 4):
        for unmapped in (False, True):
            ok = L.wb_silent_slave_latency("shared", t, 40, unmapped) == t and \
                all(L.ax_silent_slave_latency(full, "shared", t, 40, unmapped) == (t + 2, t + 2) for full in (False, True))
            out.append(("C11-shared-exact-latency", not ok,
                        "shared interconnects, timeout_cycles=%d, %s slave: termination at t / t+2" % (
                            t, "unmapped" if unmapped else "silent")))
    return out


def replay(ctx, payload):
    fi = payload.get("failing_input") or {}
    if fi.get("scenario"):
        import random
        sc = fi["scenario"]
        fn = sc.get("fn", "soc_scenario")
        if fn == "handler_1x1_scenario":
            problems, _ = L.handler_1x1_scenario(sc["std"], sc["t"], random.Random(sc["seed"]), dw=sc["dw"], nops=sc["nops"])
        elif fn == "socmini_csr_only_scenario":
            problems, _ = L.socmini_csr_only_scenario(sc["std"], sc["t"], random.Random(sc["seed"]), nops=sc["nops"])
        else:
            problems, _ = L.soc_scenario(sc["std"], "shared", sc["t"], random.Random(sc["seed"]), nops=sc["nops"],
                                         dw=sc.get("dw", 32))
        for p in problems:
            print(p)
        if problems:
            print("VIOLATION property=%s replay=(replayed)" % ctx.prop)
            return 1
        print("scenario no longer violates the property on the current tree")
        return 0
    return generic_replay(ctx, payload, jobs("thorough"))
