"""C03 — stream elements deliver each token exactly once, in order, rightly transformed."""
import itertools
from explore import Job, run_jobs, generic_search, replay_with_monitor, impl_step
from streamlib import StreamInst
import c03lib as L
from c03lib import reduce_garbage as RG, declared_widths as DW
from litex.soc.interconnect import stream
from litex.soc.interconnect.stream import EndpointDescription as ED

L1 = [("data", 1)]
L2 = [("data", 2)]
L8 = [("data", 8)]
L32 = [("data", 32)]
FMT = ("one-sink/one-source elements: sink.valid, sink.data(payload|param packed, first field lowest), sink.first, "
       "sink.last, source.ready, extra inputs (Gate: enable, Shifter: shift); Multiplexer: sel, source.ready, "
       "(valid,data,first,last) per sink; Demultiplexer: sel, sink.valid, data, first, last, source_k.ready")

# finding ids
F_PACK = "C03-pack-stale-last"
F_STRIDE = "C03-strideup-param-garbage"


def b(x):
    return 1 if x else 0


def toks(nbits, flags=True):
    if nbits > 5:
        return None          # wide data: mode B only, StreamInst's default tokens (data 0/1) for the alphabet
    vals = range(1 << nbits)
    if flags:
        return [(d, f, l) for d in vals for f in (0, 1) for l in (0, 1)]
    return [(d, 0, 0) for d in vals] + [((1 << nbits) - 1, 1, 1)]


def stride_lane(ws, r):
    """(packed number of the wide endpoint's payload, physical lane n) -> raw bits of that lane."""
    def f(x, n):
        out, sh, off = 0, 0, 0
        for w in ws:
            out |= ((x >> (r * off + n * w)) & L.mask(w)) << sh
            sh += w
            off += w
        return out
    return f


# ---------------------------------------------------------------------------------------------------------
# instance constructors (each returns a fresh instance; called inside worker processes)

def ident(name, module, lean_open, capacity, nb, tokens=None, level=None):
    """Element whose documented function is the identity (pipes, buffers, FIFOs, delay): scoreboard + no-loss
    watchdog (+ exported `level` for SyncFIFO depth >= 2); data range from the declared payload+param width."""
    from streamlib import IdentityScoreboard
    inst = StreamInst(name, module, lean_open, capacity=capacity, tokens=tokens)

    def spec():
        sb = IdentityScoreboard(capacity)
        if level is not None:
            sb = L.FifoLevel(sb, inst)
        return L.NoLoss(sb, lambda m: len(m.q) > 0, capacity + 6)
    inst.spec = spec
    if level is not None:
        L.watch_level(inst, level)
    return DW(inst, nb)


def fifo(depth, buffered, layout, nb, name, tokens=None, glue=False):
    """glue: the constructor's three-way selection on depth/buffered is done by the model (`sfifo`)."""
    m = stream.SyncFIFO(layout, depth, buffered=buffered)
    lean = ("sfifo %d %d" % (depth, b(buffered)) if glue else
            "wire" if depth == 0 else "pipevalid" if depth == 1 else
            ("syncfifo_buffered %d" if buffered else "syncfifo %d") % depth)
    cap = depth + 1 if (buffered and depth >= 2) else depth
    return ident(name, m, lean, cap, nb, tokens=tokens, level=m.level if depth >= 2 else None)


def wide_tokens(nbits, k=10):
    """A fixed, reproducible sample of data values for mode A alphabets whose data is too wide to enumerate."""
    import random
    r = random.Random(nbits * 7919 + 1)
    vals = sorted({0, (1 << nbits) - 1} | {r.getrandbits(nbits) for _ in range(k)})
    return [(d, f, l) for d in vals for f in (0, 1) for l in (0, 1)]


def mk_up(r, nb, rev, raw=True, tokens=None, conv_vtc=False, glue=False):
    """_UpConverter (raw=True: valid_token_count visible), Converter without the count, or (conv_vtc) the class
    selected by Converter(report_valid_token_count=True)."""
    if conv_vtc:
        raw = True
        m = stream.Converter(nb, nb * r, reverse=rev, report_valid_token_count=True)
        assert m.ratio == r
    else:
        m = stream._UpConverter(nb, nb * r, r, rev) if raw else stream.Converter(nb, nb * r, reverse=rev)
    name = "%s(%d->%d%s%s)%s" % ("_UpConverter" if raw and not conv_vtc else "Converter", nb, nb * r,
                                 ",reverse" if rev else "", ",vtc" if conv_vtc else "", "/glue" if glue else "")
    lean = ("up %d %d 0 %d %d" % (r, nb, b(rev), b(raw)) if isinstance(m, stream._UpConverter) or not glue else
            "converter %d %d %d %d" % (nb, nb * r, b(rev), b(conv_vtc)))
    return DW(RG(StreamInst(name, m, lean, tokens=tokens or toks(nb),
                            spec=lambda: L.NoLoss(L.UpScoreboard(r, nb, 0, rev, vtc=raw), lambda m: len(m.words) > 0, 4))), nb)


def mk_down(r, nb, rev, raw=True, tokens=None, conv_vtc=False, glue=False):
    if conv_vtc:
        raw = True
        m = stream.Converter(nb * r, nb, reverse=rev, report_valid_token_count=True)
        assert m.ratio == r
    else:
        m = stream._DownConverter(nb * r, nb, r, rev) if raw else stream.Converter(nb * r, nb, reverse=rev)
    name = "%s(%d->%d%s%s)%s" % ("_DownConverter" if raw and not conv_vtc else "Converter", nb * r, nb,
                                 ",reverse" if rev else "", ",vtc" if conv_vtc else "", "/glue" if glue else "")
    lean = ("down %d %d 0 %d %d" % (r, nb, b(rev), b(raw)) if isinstance(m, stream._DownConverter) or not glue else
            "converter %d %d %d %d" % (nb * r, nb, b(rev), b(conv_vtc)))
    return DW(RG(StreamInst(name, m, lean, tokens=tokens or toks(nb * r),
                            spec=lambda: L.DownScoreboard(r, nb, 0, rev, vtc=raw))), nb * r)


def _payload(nb, fields):
    if fields:
        assert sum(fields) == nb
        return [("f%d" % k, w) for k, w in enumerate(fields)]
    return [("data", nb)]


def mk_pack(n, nb, pw, rev, tokens=None, fields=None):
    d = ED(_payload(nb, fields), [("p", pw)] if pw else [])
    m = stream.Pack(d, n, reverse=rev)
    name = "Pack(%s%s,n=%d%s)" % ("%db" % nb if not fields else list(fields), "+p%d" % pw if pw else "", n,
                                  ",reverse" if rev else "")
    return DW(RG(StreamInst(name, m, "up %d %d %d %d 0" % (n, nb, pw, b(rev)), tokens=tokens or toks(nb + pw),
                            spec=lambda: L.NoLoss(L.UpScoreboard(n, nb, pw, rev), lambda m: len(m.words) > 0, 4))), nb + pw)


def mk_unpack(n, nb, pw, rev, tokens=None, fields=None):
    d = ED(_payload(nb, fields), [("p", pw)] if pw else [])
    m = stream.Unpack(n, d, reverse=rev)
    name = "Unpack(n=%d,%s%s%s)" % (n, "%db" % nb if not fields else list(fields), "+p%d" % pw if pw else "",
                                    ",reverse" if rev else "")
    return DW(RG(StreamInst(name, m, "down %d %d %d %d 0" % (n, nb, pw, b(rev)), tokens=tokens or toks(n * nb + pw),
                            spec=lambda: L.DownScoreboard(n, nb, pw, rev))), n * nb + pw)


def mk_stride(up, r, ws, pw, rev, tokens=None):
    narrow = ED([("f%d" % k, w) for k, w in enumerate(ws)], [("p", pw)] if pw else [])
    wide = ED([("f%d" % k, w * r) for k, w in enumerate(ws)], [("p", pw)] if pw else [])
    nb = sum(ws)
    wtxt = " ".join(map(str, ws))
    if up:
        m = stream.StrideConverter(narrow, wide, reverse=rev)
        return DW(RG(StreamInst("StrideConverter(up x%d,%s+p%d%s)" % (r, ws, pw, ",reverse" if rev else ""), m,
                                "strideup %d %d %d %s" % (r, pw, b(rev), wtxt),
                                tokens=tokens or toks(nb + pw),
                                spec=lambda: L.NoLoss(L.UpScoreboard(r, nb, pw, rev, lane_of=stride_lane(ws, r)),
                                                       lambda m: len(m.words) > 0, 4))), nb + pw)
    m = stream.StrideConverter(wide, narrow, reverse=rev)
    return DW(RG(StreamInst("StrideConverter(down /%d,%s+p%d%s)" % (r, ws, pw, ",reverse" if rev else ""), m,
                            "stridedown %d %d %d %s" % (r, pw, b(rev), wtxt), tokens=tokens or toks(nb * r + pw),
                            spec=lambda: L.DownScoreboard(r, nb, pw, rev, lane_of=stride_lane(ws, r)))), nb * r + pw)


def gb_tokens(i):
    """Quick-tier sink words for the wider gearboxes: all-zero, all-one, and two mixed patterns (keeps the number
    of distinct shift-register contents small); flags are ignored by the element, one letter carries them set."""
    full = (1 << i) - 1
    vals = sorted({0, full, 0b0110 & full, 0b1010 & full, 1})
    return [(d, 0, 0) for d in vals] + [(full, 1, 1)]


def mk_gearbox(i, o, msb, tokens=None):
    m = stream.Gearbox(i, o, msb_first=msb)
    return DW(RG(StreamInst("Gearbox(%d,%d,%s)" % (i, o, "msb" if msb else "lsb"), m,
                            "gearbox %d %d %d" % (i, o, b(msb)), tokens=tokens or toks(i, flags=False),
                            spec=lambda: L.NoLoss(L.GearboxScoreboard(i, o, msb), lambda m: len(m.bits) >= o, 4))), i)


def mk_gate(nb, srd, tokens=None):
    m = stream.Gate([("data", nb)], sink_ready_when_disabled=srd)
    return DW(RG(StreamInst("Gate(%db,srd=%d)" % (nb, b(srd)), m, "gate %d" % b(srd), tokens=tokens or toks(nb),
                            extra_inputs=[m.enable], extra_alphabet=[(0,), (1,)],
                            spec=lambda: L.GateScoreboard(srd))), nb, [2])


def mk_delay(nb, n, tokens=None):
    m = stream.Delay([("data", nb)], n)
    return ident("Delay(%db,%d)" % (nb, n), m, "delay %d" % n, n, nb, tokens=tokens)


def mk_cast(ws_from, ws_to, rf, rt, int_from=False, int_to=False):
    """int_from/int_to: pass the layout as a plain bit count (Cast's `_rawbits_layout` path)."""
    assert not int_from or len(ws_from) == 1
    assert not int_to or len(ws_to) == 1
    m = stream.Cast(ws_from[0] if int_from else [("a%d" % k, w) for k, w in enumerate(ws_from)],
                    ws_to[0] if int_to else [("x%d" % k, w) for k, w in enumerate(ws_to)],
                    reverse_from=rf, reverse_to=rt)
    n = sum(ws_from)
    return DW(RG(StreamInst("Cast(%s->%s,%d,%d)" % (ws_from[0] if int_from else ws_from, ws_to[0] if int_to else ws_to,
                                                     b(rf), b(rt)), m,
                            "cast %d %d %d %s" % (b(rf), b(rt), len(ws_from), " ".join(map(str, ws_from + ws_to))),
                            tokens=toks(n),
                            spec=lambda: L.MapScoreboard(L.cast_fn(ws_from, ws_to, rf, rt)))), n)


def mk_shifter(dw, tokens=None, ext=False):
    from migen import Signal
    m = stream.Shifter(dw, shift=Signal(max=dw)) if ext else stream.Shifter(dw)
    nsh = 1 << max(1, (dw - 1).bit_length())     # from the constructor argument (shift = Signal(max=dw))
    return DW(RG(StreamInst("Shifter(%d%s)" % (dw, ",ext" if ext else ""), m, "shifter %d" % dw, tokens=tokens or toks(dw),
                            extra_inputs=[m.shift], extra_alphabet=[(s,) for s in range(nsh)],
                            spec=lambda: L.NoLoss(L.ShifterScoreboard(dw), lambda m: len(m.q) > 0, 6))), dw, [nsh])


def mk_route(kind, n, nb, via="direct", _cls=None):
    """Multiplexer/Demultiplexer built directly, with_csr (selector = CSR storage register) or as the members of a
    Crossbar (which forwards layout, n and with_csr to both)."""
    lay = [("data", nb)]
    cls = stream.Multiplexer if kind == "mux" else stream.Demultiplexer
    Inst = L.MuxInst if kind == "mux" else L.DemuxInst
    cname = "Multiplexer" if kind == "mux" else "Demultiplexer"
    if via == "csr":
        m = cls(lay, n, with_csr=True)
        return Inst("%s(%d,with_csr)/%db" % (cname, n, nb), m, n, nb=nb, sel_sig=m._sel.storage)
    if via == "crossbar":
        x = stream.Crossbar(lay, n)
        m = x.mux if kind == "mux" else x.demux
        return Inst("Crossbar(%d).%s/%db" % (n, kind, nb), m, n, nb=nb)
    return Inst("%s(%d)/%db" % (cname, n, nb), cls(lay, n), n, nb=nb)


def mk_ident_conv(nb, stride=False, pw=0):
    """The identity paths of the glue: Converter(n, n, report_valid_token_count=True) (constant count 1) and
    StrideConverter between equal descriptions (params combinational)."""
    if stride:
        d = ED([("a", nb - nb // 2), ("b", nb // 2)], [("p", pw)] if pw else [])
        m = stream.StrideConverter(d, d)
        return DW(RG(StreamInst("StrideConverter(identity,%db+p%d)" % (nb, pw), m, "wire", capacity=0,
                                tokens=toks(nb + pw))), nb + pw)
    m = stream.Converter(nb, nb, report_valid_token_count=True)
    return DW(RG(StreamInst("Converter(%d->%d,vtc)" % (nb, nb), m, "down 1 %d 0 0 1" % nb, tokens=toks(nb),
                            spec=lambda: L.DownScoreboard(1, nb, 0, False, vtc=True))), nb)


def mk_pipeactor(lat, nb, tokens=None):
    """PipelinedActor(latency) from /repo (control path: valid/first/last chains, pipe_ce, busy) with the data
    register chain every subclass adds: `lat` stages gated by pipe_ce."""
    from migen import Signal, If
    from litex.soc.interconnect.stream import Endpoint, PipelinedActor

    class PA(PipelinedActor):
        def __init__(self):
            self.sink = Endpoint([("data", nb)])
            self.source = Endpoint([("data", nb)])
            PipelinedActor.__init__(self, lat)
            d = self.sink.data
            for _ in range(lat):
                dn = Signal(nb)
                self.sync += If(self.pipe_ce, dn.eq(d))
                d = dn
            self.comb += self.source.data.eq(d)

    return ident("PipelinedActor(%d)/%db" % (lat, nb), PA(), "pipeactor %d" % lat, lat, nb, tokens=tokens)


def mk_crossbar(n, nb, tokens=None):
    """stream.Crossbar(layout, n) used as a crossbar: demux.source_k connected to mux.sink_k."""
    from litex.gen import LiteXModule

    class X(LiteXModule):
        def __init__(self):
            self.xbar = stream.Crossbar([("data", nb)], n)
            self.sink, self.source = self.xbar.demux.sink, self.xbar.mux.source
            for k in range(n):
                self.comb += getattr(self.xbar.demux, "source%d" % k).connect(getattr(self.xbar.mux, "sink%d" % k))

    m = X()
    nsel = L.sel_values(n)
    return DW(RG(StreamInst("Crossbar(%d)/%db" % (n, nb), m, "crossbar %d" % n, tokens=tokens or toks(nb),
                            extra_inputs=[m.xbar.demux.sel, m.xbar.mux.sel],
                            extra_alphabet=[(a, c) for a in range(nsel) for c in range(nsel)],
                            spec=lambda: L.XbarScoreboard(n))), nb, [nsel, nsel])


def mk_bufferized_up(r, nb, rev, tokens=None):
    cls = stream.BufferizeEndpoints({"sink": stream.DIR_SINK, "source": stream.DIR_SOURCE})(stream._UpConverter)
    m = cls(nb, nb * r, r, rev)
    return DW(RG(StreamInst("BufferizeEndpoints(_UpConverter(%d->%d))" % (nb, nb * r), m,
                            "bufferized_up %d %d %d" % (r, nb, b(rev)), tokens=tokens or toks(nb),
                            spec=lambda: L.NoLoss(L.UpScoreboard(r, nb, 0, rev, vtc=True, max_words=3),
                                                   lambda m: len(m.words) > 0, 8))), nb)



STAGE_CAP = {"w": 0, "v": 1, "r": 1}


def stage_cap(codes):
    """Occupancy bound of a Pipeline of identity stages, from the documentation of each stage."""
    return sum(STAGE_CAP[c] if c in STAGE_CAP else int(c[1:]) + (1 if c[0] == "b" else 0) for c in codes)


def mk_stages(codes, nb, tokens=None, pw=0):
    """stream.Pipeline(sink, m_1, ..., m_n, source) over any list of identity stages: w = a bare Endpoint,
    v = PipeValid, r = PipeReady, f<d> = SyncFIFO(d), b<d> = SyncFIFO(d, buffered=True) (d >= 2)."""
    from litex.gen import LiteXModule
    lay = ED([("data", nb)], [("p", pw)] if pw else [])

    class P(LiteXModule):
        def __init__(self):
            self.sink, self.source = stream.Endpoint(lay), stream.Endpoint(lay)
            mods = []
            for k, c in enumerate(codes):
                m = (stream.Endpoint(lay) if c == "w" else stream.PipeValid(lay) if c == "v" else
                     stream.PipeReady(lay) if c == "r" else stream.SyncFIFO(lay, int(c[1:]), buffered=(c[0] == "b")))
                if c != "w":
                    setattr(self, "m%d" % k, m)
                mods.append(m)
            self.pipeline = stream.Pipeline(self.sink, *mods, self.source)

    return ident("Pipeline(%s)/%db%s" % (",".join(codes) or "-", nb, "+p%d" % pw if pw else ""), P(),
                 "stages w %s w" % " ".join(codes), stage_cap(codes), nb + pw, tokens=tokens)


def mk_buffer(pv, pr, nb, tokens=None):
    return ident("Buffer(%s%s)/%db" % ("v" if pv else "", "r" if pr else "", nb), stream.Buffer([("data", nb)], pv, pr),
                 "buffer %d %d" % (b(pv), b(pr)), b(pv) + b(pr), nb, tokens=tokens)


def mk_delayn(nb, n, tokens=None):
    return ident("Delay(%db,%d)/glue" % (nb, n), stream.Delay([("data", nb)], n), "delayn %d" % n, n, nb, tokens=tokens)


def mk_cdc_same(nb, buffered, tokens=None):
    m = stream.ClockDomainCrossing([("data", nb)], "sys", "sys", buffered=buffered)
    return ident("ClockDomainCrossing(sys->sys%s)/%db" % (",buffered" if buffered else "", nb), m,
                 "cdcsame %d" % b(buffered), b(buffered), nb, tokens=tokens)


def mk_bufferize(bs, bd, pv, pr, kind, r, nb, pw, rev, tokens=None, fields=None):
    """BufferizeEndpoints({sink if bs, source if bd}, pipe_valid=pv, pipe_ready=pr) around _UpConverter (pw == 0,
    count reported) / Pack (pw > 0 or fields) / _DownConverter / Unpack."""
    d = {}
    if bs:
        d["sink"] = stream.DIR_SINK
    if bd:
        d["source"] = stream.DIR_SOURCE
    T = stream.BufferizeEndpoints(d, pipe_valid=pv, pipe_ready=pr)
    packed = bool(pw or fields)
    # a plain list layout when there are no params: Pack/Unpack given an EndpointDescription object modify it in
    # place (reported defect C03-pack-description-aliasing), after which BufferizeEndpoints cannot be applied
    desc = ED(_payload(nb, fields), [("p", pw)]) if pw else _payload(nb, fields)
    nbuf = b(pv) + b(pr)
    tag = "BufferizeEndpoints(%s%s,%s%s)" % ("sink" if bs else "", "+source" if bd else "", "v" if pv else "", "r" if pr else "")
    if kind == "up":
        m = T(stream.Pack)(desc, r, reverse=rev) if packed else T(stream._UpConverter)(nb, nb * r, r, rev)
        vtc = not packed
        name = "%s(%s(%s%s x%d%s))" % (tag, "Pack" if packed else "_UpConverter", fields or nb, "+p%d" % pw if pw else "", r,
                                       ",reverse" if rev else "")
        return DW(RG(StreamInst(name, m, "bufferize %d %d %d %d up %d %d %d %d %d" % (b(bs), b(bd), b(pv), b(pr), r, nb, pw, b(rev), b(vtc)),
                                tokens=tokens or toks(nb + pw),
                                spec=lambda: L.NoLoss(L.UpScoreboard(r, nb, pw, rev, vtc=vtc, max_words=1 + (b(bs) + b(bd)) * nbuf),
                                                       lambda m: len(m.words) > 0, 8))), nb + pw)
    assert bs and pv, "the queue oracle of a buffered down-converter needs a registered sink"
    m = T(stream.Unpack)(r, desc, reverse=rev) if packed else T(stream._DownConverter)(nb * r, nb, r, rev)
    vtc = not packed
    name = "%s(%s(%s%s /%d%s))" % (tag, "Unpack" if packed else "_DownConverter", fields or nb, "+p%d" % pw if pw else "", r,
                                   ",reverse" if rev else "")
    return DW(RG(StreamInst(name, m, "bufferize %d %d %d %d down %d %d %d %d %d" % (b(bs), b(bd), b(pv), b(pr), r, nb, pw, b(rev), b(vtc)),
                            tokens=tokens or toks(nb * r + pw),
                            spec=lambda: L.NoLoss(L.QueueDownScoreboard(r, nb, pw, rev, vtc=vtc,
                                                                        max_lanes=r * nbuf + b(bd) * nbuf),
                                                   lambda m: len(m.q) > 0, 8))), nb * r + pw)


def mk_monitor(w, delim_first, cfg, via_csr=False, letters=None):
    return L.MonitorInst("Monitor(w=%d,%s,%s%s)" % (w, "first" if delim_first else "last",
                                                   "".join(n for n, c in zip("toup", cfg) if c), ",csr" if via_csr else ""),
                         w, delim_first, cfg, via_csr=via_csr, letters=letters)


def glue_calls(ctx):
    """Python-level glue compared with the model's selection functions (exhaustive over small arguments):
    `_get_converter_ratio` (class, ratio, ValueError), the selector width of Multiplexer/Demultiplexer, and the
    structure SyncFIFO/Buffer/Delay really build (which sub-blocks exist) against `stages_of`."""
    from explore import Disagreement
    from migen.genlib import fifo as mfifo
    out = []

    def report(what, impl, model):
        d = Disagreement(None, [], 0, impl, model, kind="correspondence")
        d.inst_name = what
        d.lean_open = "call"
        out.append(d)

    N = 40 if ctx.tier == "quick" else 96
    code = {stream._DownConverter: 0, stream._UpConverter: 1, stream._IdentityConverter: 2}
    reqs, want = [], []
    for nf in range(1, N + 1):
        for nt in range(1, N + 1):
            try:
                cls, ratio = stream._get_converter_ratio(nf, nt)
                want.append("%d %d" % (code[cls], ratio))
            except ValueError:
                want.append("none")
            reqs.append("converter_kind %d %d" % (nf, nt))
    got = ctx.lean.call_batch(reqs)
    bad = [(r, w, g) for r, w, g in zip(reqs, want, got) if w != g]
    for r, w, g in bad[:3]:
        report("_get_converter_ratio: " + r, w, g)
    ctx.cov.add_cases("_get_converter_ratio vs converterKind, all widths 1..%d" % N, len(reqs),
                      sum(1 for w in want if w != "none"), exhaustive=True)
    # the Converter constructor really instantiates that class (and raises where the model has no machine)
    n2 = 0
    for nf, nt in ((8, 32), (32, 8), (8, 8), (24, 8), (8, 24), (12, 8), (7, 21), (64, 64), (3, 2)):
        for vtc in (False, True):
            try:
                c = stream.Converter(nf, nt, report_valid_token_count=vtc)
                impl = "%d %d vtc=%d" % (code[c.cls], c.ratio, int(hasattr(c.source, "valid_token_count")))
            except ValueError:
                impl = "none"
            g = ctx.lean.call("converter_kind", nf, nt)
            model = g if g == "none" else "%s vtc=%d" % (g, int(vtc))
            n2 += 1
            if impl != model:
                report("Converter(%d,%d,report_valid_token_count=%s)" % (nf, nt, vtc), impl, model)
    ctx.cov.add_cases("Converter constructor: class, ratio, count port", n2, n2, exhaustive=False)
    # selector width
    ns = list(range(1, 70))
    got = ctx.lean.call_batch(["selwidth %d" % n for n in ns])
    k = 0
    for n, g in zip(ns, got):
        for cls in (stream.Multiplexer, stream.Demultiplexer):
            if n <= 9 or n in (16, 17, 32, 33, 64, 65):
                k += 1
                wimpl = len(cls([("data", 1)], n).sel)
                if str(wimpl) != g:
                    report("%s(n=%d).sel width" % (cls.__name__, n), wimpl, g)
        if str(L.bits_for(max(n, 2) - 1)) != g:
            report("documented selector width bits_for(max(%d,2)-1)" % n, L.bits_for(max(n, 2) - 1), g)
    ctx.cov.add_cases("selector width of Multiplexer/Demultiplexer", k, k, exhaustive=False)
    # structure of SyncFIFO / Buffer / Delay
    k = 0
    for depth in (0, 1, 2, 3, 4, 5, 8, 16):
        for buffered in (False, True):
            m = stream.SyncFIFO([("data", 4)], depth, buffered=buffered)
            if hasattr(m, "fifo"):
                impl = "= %s%d" % ("b" if isinstance(m.fifo, mfifo.SyncFIFOBuffered) else "f", m.fifo.depth)
            else:
                bufs = [x for _, x in m._submodules if isinstance(x, stream.Buffer)]
                impl = "= " + " ".join(("v" if hasattr(x, "pipe_valid") else "") + (" r" if hasattr(x, "pipe_ready") else "")
                                        for x in bufs)
                impl = impl.rstrip()
            g = ctx.lean.call("stages_of", "sfifo", depth, int(buffered)).rstrip()
            k += 1
            if impl.split() != g.split():
                report("SyncFIFO(depth=%d,buffered=%s) structure" % (depth, buffered), impl, g)
            if m.depth != depth:
                report("SyncFIFO(depth=%d).depth" % depth, m.depth, depth)
    for pv in (False, True):
        for pr in (False, True):
            m = stream.Buffer([("data", 4)], pv, pr)
            impl = ["="] + (["v"] if hasattr(m, "pipe_valid") else []) + (["r"] if hasattr(m, "pipe_ready") else [])
            g = ctx.lean.call("stages_of", "buffer", int(pv), int(pr))
            k += 1
            if impl != g.split():
                report("Buffer(pipe_valid=%s,pipe_ready=%s) structure" % (pv, pr), impl, g)
    ctx.cov.add_cases("structure of SyncFIFO/Buffer vs syncFifoStages/bufferStages", k, k, exhaustive=False)
    return out


def jobs(tier):
    import time
    quick = tier == "quick"
    J = []
    t_end = time.time() + (240 if quick else 2400)     # safety net against endless exploration (not a verdict)
    S = L.Safe
    A = lambda mk, **kw: J.append(Job("A", S(mk, "job %d (mode A)" % len(J)), max_states=kw.pop("max_states", 20000 if quick else 30000),
                                      deadline=t_end, **kw))
    B = lambda mk, **kw: J.append(Job("B", S(mk, "job %d (mode B)" % len(J)), cycles=3000 if quick else 20000, runs=1 if quick else 3, **kw))
    T2 = [(0, 0, 1), (1, 1, 0)]   # two token values that toggle every field (keeps stale-memory blow-up small)
    L64 = [("data", 64)]
    LP = ED([("data", 1)], [("p", 1)])                       # payload + param
    LW = ED([("a", 64), ("b", 56)], [("p", 8)])              # 128 bits in three signals
    T2P = [(0, 0, 1), (3, 1, 0)]

    # ---- first slice: pipes, buffers, FIFOs (depths 0,1,2,3,5 incl. odd; params; exported level)
    A(lambda: ident("PipeValid/1b", stream.PipeValid(L1), "pipevalid", 1, 1))
    A(lambda: ident("PipeReady/1b", stream.PipeReady(L1), "pipeready", 1, 1))
    A(lambda: ident("Buffer(v,r)/1b", stream.Buffer(L1, True, True), "buffer_vr", 2, 1))
    A(lambda: ident("Buffer(v)/1b", stream.Buffer(L1, True, False), "pipevalid", 1, 1))
    A(lambda: ident("Buffer(r)/1b", stream.Buffer(L1, False, True), "pipeready", 1, 1))
    A(lambda: ident("Buffer(-)/1b", stream.Buffer(L1, False, False), "wire", 0, 1))
    A(lambda: fifo(0, False, L1, 1, "SyncFIFO(0)/1b"))
    A(lambda: fifo(1, False, L1, 1, "SyncFIFO(1)/1b"))
    A(lambda: fifo(1, True, L1, 1, "SyncFIFO(1,buffered)/1b"))
    for d in (2, 3, 5) if quick else (2, 3, 4, 5, 6, 7):
        A(lambda d=d: fifo(d, False, L1, 1, "SyncFIFO(%d)/1b" % d, tokens=T2))
        if not (quick and d == 5):      # quick: odd depth 5 buffered is covered in mode B (8-bit)
            A(lambda d=d: fifo(d, True, L1, 1, "SyncFIFO(%d,buffered)/1b" % d, tokens=T2))
    A(lambda: fifo(3, False, LP, 2, "SyncFIFO(3)/1b+p1", tokens=T2P))
    A(lambda: fifo(2, True, LP, 2, "SyncFIFO(2,buffered)/1b+p1", tokens=T2P))
    if not quick:
        A(lambda: fifo(2, False, L1, 1, "SyncFIFO(2)/1b/allflags"))

    # ---- converters, ratios 2-6 (3, 5, 6: not powers of two) ± reverse, 1-bit sub-words
    for r in (2, 3, 4):
        for rev in (False, True):
            A(lambda r=r, rev=rev: mk_up(r, 1, rev))
            A(lambda r=r, rev=rev: mk_down(r, 1, rev))
            A(lambda r=r, rev=rev: mk_pack(r, 1, 0, rev))
            A(lambda r=r, rev=rev: mk_unpack(r, 1, 0, rev))
    for r, rev in ((5, False), (6, True)) + (() if quick else ((5, True), (6, False))):
        A(lambda r=r, rev=rev: mk_up(r, 1, rev, conv_vtc=True))
        A(lambda r=r, rev=rev: mk_down(r, 1, rev, conv_vtc=True, tokens=wide_tokens(r, 6) if r > 5 else None))
        A(lambda r=r, rev=rev: mk_pack(r, 1, 0, not rev))
        A(lambda r=r, rev=rev: mk_unpack(r, 1, 0, not rev, tokens=wide_tokens(r, 6) if r > 5 else None))
    for rev in (False, True):
        A(lambda rev=rev: mk_up(2, 1, rev, raw=False))
        A(lambda rev=rev: mk_down(2, 1, rev, raw=False))
        A(lambda rev=rev: mk_up(3, 1, rev, conv_vtc=True))
        A(lambda rev=rev: mk_down(3, 1, rev, conv_vtc=True))
        A(lambda rev=rev: mk_pack(2, 1, 1, rev))
        A(lambda rev=rev: mk_unpack(2, 1, 1, rev))
        A(lambda rev=rev: mk_stride(True, 2, [1, 1], 1, rev, tokens=None if not (quick and rev) else
                            [(d, f, l) for d in range(8) for (f, l) in ((0, 0), (1, 1))] + [(5, 1, 0), (2, 0, 1)]))
        A(lambda rev=rev: mk_stride(False, 2, [1, 1], 1, rev))
    # multi-field payloads with params (Pack/Unpack chunk raw bits; StrideConverter field striding), ratio 3
    T3 = [(d, f, l) for d in ((0, 7, 5, 2, 3) if quick else range(8)) for (f, l) in ((0, 0), (1, 1))] + \
        [(5, 1, 0), (2, 0, 1)]
    A(lambda: mk_pack(3, 2, 1, True, fields=[1, 1], tokens=T3), max_states=3000 if quick else 30000)
    A(lambda: mk_unpack(3, 2, 1, False, fields=[1, 1], tokens=wide_tokens(7)))
    A(lambda: mk_stride(True, 3, [1, 1], 1, False, tokens=T3), max_states=3000 if quick else 30000)
    A(lambda: mk_stride(False, 3, [1, 1], 1, True, tokens=wide_tokens(7)))
    A(lambda: StreamInst("Converter(1->1)", stream.Converter(1, 1), "wire", capacity=0))
    A(lambda: mk_ident_conv(2))
    A(lambda: mk_ident_conv(2, stride=True, pw=1))
    if not quick:
        A(lambda: mk_up(4, 2, False))
        A(lambda: mk_stride(True, 3, [1, 2], 1, False))
        A(lambda: mk_stride(False, 3, [1, 2], 1, True))

    # ---- gearbox (i,o) in {1..4}^2 ± msb_first
    for i in (1, 2, 3, 4):
        for o in (1, 2, 3, 4):
            for msb in (True, False):
                if quick and msb != ((i + o) % 2 == 0) and L.io_lcm(i, o) > 6:
                    continue      # quick: both bit orders only for the small registers
                A(lambda i=i, o=o, msb=msb: mk_gearbox(i, o, msb, tokens=gb_tokens(i) if quick and i >= 3 else None),
                  max_states=3000 if quick else 10000)

    # ---- routing (selector range from n; direct, with_csr and through Crossbar)
    for n in (1, 2, 3):
        A(lambda n=n: L.MuxInst("Multiplexer(%d)" % n, stream.Multiplexer(L1, n), n, nb=1))
        A(lambda n=n: L.DemuxInst("Demultiplexer(%d)" % n, stream.Demultiplexer(L1, n), n, nb=1))
    for kind in ("mux", "demux"):
        # (_cls only makes the router classes visible in the lambda's names: props/c04.py keys on them)
        A(lambda kind=kind: mk_route(kind, 3, 1, via="csr", _cls=(L.MuxInst, L.DemuxInst)))
        A(lambda kind=kind: mk_route(kind, 3, 1, via="crossbar", _cls=(L.MuxInst, L.DemuxInst)))
    for srd in (False, True):
        A(lambda srd=srd: mk_gate(1, srd))

    # ---- pipelines
    A(lambda: mk_delay(1, 0))
    A(lambda: mk_delay(1, 1))
    A(lambda: mk_delay(1, 2, tokens=T2))
    A(lambda: mk_delay(1, 3, tokens=T2))
    for rf in (False, True):
        for rt in (False, True):
            A(lambda rf=rf, rt=rt: mk_cast([1, 2], [2, 1], rf, rt))
    A(lambda: mk_cast([1, 1, 1], [3], True, False))
    A(lambda: mk_cast([2, 1, 1], [1, 1, 2], True, False))      # exactly one reversal, three-field destination
    A(lambda: mk_cast([2, 1, 1], [1, 1, 2], False, True))
    A(lambda: mk_cast([4], [1, 3], False, True, int_from=True))  # layout given as a bit count
    A(lambda: mk_cast([1, 2, 1], [4], True, False, int_to=True))
    A(lambda: mk_shifter(2, tokens=[(0, 0, 0), (1, 0, 1), (2, 1, 0), (3, 1, 1)]))
    A(lambda: mk_shifter(3, tokens=[(0, 0, 0), (5, 0, 1), (2, 1, 0), (7, 1, 1), (4, 0, 0)], ext=True),
      max_states=3000 if quick else 30000)
    if not quick:
        A(lambda: mk_shifter(3, tokens=[(0, 0, 0), (5, 0, 1), (2, 1, 0), (7, 1, 1), (4, 0, 0)]))
    A(lambda: mk_bufferized_up(2, 1, False, tokens=T2))
    for lat in (0, 1, 2):
        A(lambda lat=lat: mk_pipeactor(lat, 1))
    for lat in (3, 4):
        A(lambda lat=lat: mk_pipeactor(lat, 1, tokens=T2))
    for n in (2, 3):
        A(lambda n=n: mk_crossbar(n, 1))

    # ---- mode B: realistic sizes (8/32/64/128-bit, ratios 2-16 incl. 3/5/6, odd depths)
    B(lambda: ident("PipeValid/32b", stream.PipeValid(L32), "pipevalid", 1, 32))
    B(lambda: ident("PipeValid/64b", stream.PipeValid(L64), "pipevalid", 1, 64))
    B(lambda: ident("PipeReady/128b+p", stream.PipeReady(LW), "pipeready", 1, 128))
    B(lambda: ident("Buffer(v,r)/8b", stream.Buffer(L8, True, True), "buffer_vr", 2, 8))
    B(lambda: ident("Buffer(v,r)/64b", stream.Buffer(L64, True, True), "buffer_vr", 2, 64))
    B(lambda: fifo(16, False, L8, 8, "SyncFIFO(16)/8b"))
    B(lambda: fifo(64, True, L32, 32, "SyncFIFO(64,buffered)/32b"))
    B(lambda: fifo(7, False, L64, 64, "SyncFIFO(7)/64b"))
    B(lambda: fifo(9, True, LW, 128, "SyncFIFO(9,buffered)/128b+p"))
    B(lambda: fifo(5, True, L8, 8, "SyncFIFO(5,buffered)/8b"))
    B(lambda: fifo(6, False, ED([("data", 8)], [("p", 4)]), 12, "SyncFIFO(6)/8b+p4"))
    B(lambda: mk_up(8, 8, False))
    B(lambda: mk_up(16, 8, True))
    B(lambda: mk_up(2, 32, False, raw=False))
    B(lambda: mk_up(3, 64, False, conv_vtc=True))
    B(lambda: mk_up(5, 8, True, conv_vtc=True))
    B(lambda: mk_up(6, 16, True, raw=False))
    B(lambda: mk_down(8, 8, True))
    B(lambda: mk_down(16, 4, False))
    B(lambda: mk_down(2, 32, False, raw=False))
    B(lambda: mk_down(3, 64, True, conv_vtc=True))
    B(lambda: mk_down(5, 8, False, raw=False))
    B(lambda: mk_down(6, 16, True, conv_vtc=True))
    B(lambda: mk_pack(8, 8, 4, False))
    B(lambda: mk_pack(4, 16, 0, True))
    B(lambda: mk_pack(3, 64, 8, True, fields=[40, 24]))
    B(lambda: mk_pack(5, 8, 3, False))
    B(lambda: mk_unpack(8, 8, 4, True))
    B(lambda: mk_unpack(2, 32, 0, False))
    B(lambda: mk_unpack(3, 64, 8, False, fields=[40, 24]))
    B(lambda: mk_unpack(6, 8, 3, True))
    B(lambda: mk_stride(True, 4, [8, 3, 5], 6, False))
    B(lambda: mk_stride(True, 8, [4, 4], 2, True))
    B(lambda: mk_stride(True, 3, [5, 3], 4, True))
    B(lambda: mk_stride(True, 5, [7, 9, 16], 3, False))
    B(lambda: mk_stride(False, 4, [8, 3, 5], 6, True))
    B(lambda: mk_stride(False, 2, [16, 16], 0, False))
    B(lambda: mk_stride(False, 3, [64, 8], 5, False))
    B(lambda: mk_stride(False, 6, [3, 2], 1, True))
    for (i, o, msb) in ((10, 8, True), (8, 10, False), (66, 64, True), (20, 32, True), (7, 9, False),
                        (8, 16, True), (4, 16, False), (64, 66, False)) + \
            (() if quick else ((10, 8, False), (8, 10, True), (32, 20, False), (9, 7, True), (40, 64, True))):
        B(lambda i=i, o=o, msb=msb: mk_gearbox(i, o, msb))
    B(lambda: L.MuxInst("Multiplexer(3)/8b", stream.Multiplexer(L8, 3), 3, nb=8))
    B(lambda: L.DemuxInst("Demultiplexer(3)/8b", stream.Demultiplexer(L8, 3), 3, nb=8))
    for n in (5, 9):      # 2^k + 1 ways: the top selector value needs the full documented selector width
        B(lambda n=n: L.MuxInst("Multiplexer(%d)/8b" % n, stream.Multiplexer(L8, n), n, nb=8))
        B(lambda n=n: L.DemuxInst("Demultiplexer(%d)/8b" % n, stream.Demultiplexer(L8, n), n, nb=8))
    for kind in ("mux", "demux"):
        B(lambda kind=kind: mk_route(kind, 6, 64, via="crossbar", _cls=(L.MuxInst, L.DemuxInst)))
        B(lambda kind=kind: mk_route(kind, 5, 16, via="csr", _cls=(L.MuxInst, L.DemuxInst)))
    B(lambda: mk_gate(32, False))
    B(lambda: mk_gate(8, True))
    B(lambda: mk_gate(64, True))
    B(lambda: mk_delay(32, 3))
    B(lambda: mk_delay(64, 2))
    B(lambda: mk_cast([8, 16, 8], [4, 12, 16], True, False))
    B(lambda: mk_cast([5, 11], [11, 5], False, True))
    B(lambda: mk_cast([64, 40, 24], [8, 56, 64], False, True))
    B(lambda: mk_cast([33, 31, 64], [128], True, False, int_to=True))
    B(lambda: mk_shifter(8))
    B(lambda: mk_shifter(32))
    B(lambda: mk_shifter(64, ext=True))
    B(lambda: mk_pipeactor(1, 32))
    B(lambda: mk_pipeactor(5, 64))
    B(lambda: mk_crossbar(5, 16))
    B(lambda: mk_bufferized_up(4, 8, True))
    B(lambda: mk_bufferized_up(3, 32, False))
    return J



def glue_jobs(tier):
    """Session-2 instances: the glue of stream.py (stage selection of Buffer/SyncFIFO/Delay/ClockDomainCrossing,
    Pipeline over heterogeneous stage lists, BufferizeEndpoints with every option, Converter's class selection,
    Monitor, selector widths) against the models of LitexModel/Stream/Glue.lean, and Pack/Unpack over multi-field
    layouts.  Kept apart from `jobs` (props/c04.py re-uses that list with its own driver)."""
    import time
    quick = tier == "quick"
    J = []
    t_end = time.time() + (240 if quick else 2400)
    S = L.Safe
    A = lambda mk, **kw: J.append(Job("A", S(mk, "glue job %d (mode A)" % len(J)), max_states=kw.pop("max_states", 20000 if quick else 30000),
                                      deadline=t_end, **kw))
    B = lambda mk, **kw: J.append(Job("B", S(mk, "glue job %d (mode B)" % len(J)), cycles=2000 if quick else 20000, runs=1 if quick else 3, **kw))
    T2 = [(0, 0, 1), (1, 1, 0)]
    LP = ED([("data", 1)], [("p", 1)])
    T2P = [(0, 0, 1), (3, 1, 0)]
    L64 = [("data", 64)]

    # ---- Buffer: all four flag combinations; SyncFIFO: every selection corner (0, 1, 2, odd) x buffered
    for pv in (False, True):          # all four flag combinations; the stage selection is done by the model
        for pr in (False, True):
            A(lambda pv=pv, pr=pr: mk_buffer(pv, pr, 1))
    for d in (0, 1, 2, 3) if quick else (0, 1, 2, 3, 4, 5):
        for bf in (False, True):
            A(lambda d=d, bf=bf: fifo(d, bf, L1, 1, "SyncFIFO(%d%s)/1b/glue" % (d, ",buffered" if bf else ""),
                                      tokens=T2 if d >= 2 else None, glue=True))
    A(lambda: fifo(2, False, LP, 2, "SyncFIFO(2)/1b+p1/glue", tokens=T2P, glue=True))
    # ---- Pipeline of heterogeneous stage lists (bare Endpoints in the middle, FIFOs of both kinds, odd depths)
    for codes in ((), ("w",), ("v", "f2", "r"), ("r", "w", "v"), ("b2", "v"), ("f3", "r"), ("r", "r"), ("v", "w", "w", "r", "v")) + \
            (() if quick else (("b3", "f2"), ("v", "b2", "r", "f2"), ("f5",), ("r", "f2", "v", "w"))):
        A(lambda codes=codes: mk_stages(list(codes), 1, tokens=T2 if any(c[0] in "fb" for c in codes) or len(codes) > 3 else None))
    A(lambda: mk_delayn(1, 2, tokens=T2))
    A(lambda: mk_delayn(1, 0))
    for bf in (False, True):
        A(lambda bf=bf: mk_cdc_same(1, bf))
    # ---- BufferizeEndpoints: sink only / source only / both, pipe_valid / pipe_ready / both, up and down inside
    TU = [(0, 0, 1), (1, 1, 0), (1, 0, 0)]
    for (bs, bd, pv, pr) in ((1, 0, 1, 0), (0, 1, 0, 1), (1, 1, 0, 1), (1, 0, 1, 1)) + \
            (() if quick else ((0, 1, 1, 0), (1, 0, 0, 1), (1, 1, 1, 1), (0, 1, 1, 1), (0, 0, 1, 1))):
        A(lambda bs=bs, bd=bd, pv=pv, pr=pr: mk_bufferize(bs, bd, pv, pr, "up", 2 if bs and bd else 3, 1, 0, bool(pr),
                                                          tokens=T2 if quick and bs and bd else TU),
          max_states=6000 if quick else 60000)
    A(lambda: mk_bufferize(1, 1, 1, 0, "up", 2, 2, 0, True, tokens=[(0, 0, 1), (3, 1, 0), (1, 0, 0)], fields=[1, 1]),
      max_states=4000 if quick else 30000)
    for (bd, pr) in ((0, 0), (1, 1)) + (() if quick else ((1, 0), (0, 1))):
        A(lambda bd=bd, pr=pr: mk_bufferize(1, bd, 1, pr, "down", 3 if not pr else 2, 1, 0, bool(bd),
                                            tokens=[(0, 0, 1), (5, 1, 0), (3, 1, 1)] if not pr else [(0, 0, 1), (2, 1, 0), (3, 1, 1)]),
          max_states=4000 if quick else 30000)
    A(lambda: mk_bufferize(1, 1, 1, 0, "down", 2, 2, 0, False, tokens=[(0, 0, 1), (0xb, 1, 0), (0xd, 1, 1)], fields=[1, 1]),
      max_states=4000 if quick else 30000)
    # ---- Monitor counters (2-bit and 1-bit counters saturate inside the explored product)
    A(lambda: mk_monitor(2, False, (1, 0, 0, 0)))
    A(lambda: mk_monitor(1, True, (0, 0, 0, 1), via_csr=True))
    A(lambda: mk_monitor(1, False, (0, 1, 1, 0),
                         letters=[l for l in itertools.product((0, 1), repeat=6) if l[4] == l[5]]))
    if not quick:
        A(lambda: mk_monitor(2, False, (0, 0, 0, 1)))
        A(lambda: mk_monitor(3, True, (1, 0, 0, 0), via_csr=True))

    # ---- Converter through the model's class selection (up / down / identity, count port or not)
    for (nf, nt) in ((1, 3), (3, 1), (2, 2), (1, 2), (4, 2)):
        for vtc in (False, True):
            if nf < nt:
                A(lambda nf=nf, nt=nt, vtc=vtc: mk_up(nt // nf, nf, vtc, raw=False, conv_vtc=vtc, glue=True))
            elif nf > nt:
                A(lambda nf=nf, nt=nt, vtc=vtc: mk_down(nf // nt, nt, not vtc, raw=False, conv_vtc=vtc, glue=True))
            else:
                A(lambda nf=nf, vtc=vtc: DW(RG(StreamInst("Converter(%d->%d%s)/glue" % (nf, nf, ",vtc" if vtc else ""),
                                                          stream.Converter(nf, nf, report_valid_token_count=vtc),
                                                          "converter %d %d 0 %d" % (nf, nf, b(vtc)), tokens=toks(nf),
                                                          spec=lambda: L.DownScoreboard(1, nf, 0, False, vtc=vtc))), nf))
    # ---- Pack / Unpack over multi-field layouts, n not a power of two, unequal field widths, params
    TF = [(d, f, l) for d in ((0, 5) if quick else (0, 7, 5, 2)) for (f, l) in ((0, 0), (1, 1))] + [(6, 1, 0), (3, 0, 1)]
    A(lambda: mk_pack(3, 3, 0, False, fields=[1, 2], tokens=TF), max_states=3000 if quick else 30000)
    A(lambda: mk_pack(2, 3, 1, True, fields=[2, 1], tokens=[(d, f, l) for d in (0, 15, 5, 10, 6) for (f, l) in ((0, 0), (1, 1))]),
      max_states=3000 if quick else 30000)
    A(lambda: mk_unpack(3, 3, 0, True, fields=[1, 2], tokens=wide_tokens(9, 8)))
    A(lambda: mk_unpack(2, 3, 1, False, fields=[2, 1], tokens=wide_tokens(7, 8)))
    # ---- routing
    for n in (2, 3):      # selector driven beyond its documented width: the port keeps bits_for(max(n,2)-1) bits
        A(lambda n=n: L.widen_sel(L.MuxInst("Multiplexer(%d)/wide-sel" % n, stream.Multiplexer(L1, n), n, nb=1)))
        A(lambda n=n: L.widen_sel(L.DemuxInst("Demultiplexer(%d)/wide-sel" % n, stream.Demultiplexer(L1, n), n, nb=1)))

    # ---- mode B
    B(lambda: mk_delayn(64, 2))
    B(lambda: mk_delayn(16, 5))
    B(lambda: mk_buffer(False, True, 32))
    B(lambda: mk_buffer(True, True, 128))
    B(lambda: mk_cdc_same(32, True))
    B(lambda: mk_stages(["v", "f7", "w", "r", "b5", "v"], 32, pw=4))
    B(lambda: mk_stages(["r", "b16", "f3", "r", "v", "w", "f2"], 64))
    B(lambda: mk_stages(["f9", "v", "v", "r", "b2"], 8, pw=3))
    B(lambda: mk_bufferize(1, 1, 1, 1, "up", 5, 8, 0, True, fields=[3, 5]))
    B(lambda: mk_bufferize(0, 1, 0, 1, "up", 4, 16, 0, False))
    B(lambda: mk_bufferize(1, 0, 1, 0, "up", 3, 24, 0, False, fields=[7, 9, 8]))
    B(lambda: mk_bufferize(1, 1, 1, 1, "down", 6, 8, 0, True))
    B(lambda: mk_bufferize(1, 0, 1, 0, "down", 3, 32, 0, False))
    B(lambda: mk_bufferize(1, 1, 1, 0, "down", 5, 12, 0, True, fields=[5, 4, 3]))
    B(lambda: mk_monitor(8, False, (1, 1, 1, 1)))
    B(lambda: mk_monitor(32, True, (1, 1, 1, 1), via_csr=True))
    B(lambda: mk_monitor(3, False, (1, 0, 1, 1)))
    B(lambda: mk_pack(3, 12, 4, False, fields=[5, 4, 3]))
    B(lambda: mk_pack(7, 9, 0, True, fields=[1, 8]))
    B(lambda: mk_unpack(5, 12, 4, True, fields=[5, 4, 3]))
    B(lambda: mk_unpack(7, 9, 2, False, fields=[1, 8]))
    for n in (5, 6):
        B(lambda n=n: L.widen_sel(L.MuxInst("Multiplexer(%d)/8b/wide-sel" % n, stream.Multiplexer(L8, n), n, nb=8)))
        B(lambda n=n: L.widen_sel(L.DemuxInst("Demultiplexer(%d)/8b/wide-sel" % n, stream.Demultiplexer(L8, n), n, nb=8)))
    B(lambda: fifo(1, True, L64, 64, "SyncFIFO(1,buffered)/64b/glue", glue=True))
    B(lambda: fifo(11, True, ED([("data", 8)], [("p", 4)]), 12, "SyncFIFO(11,buffered)/8b+p4/glue", glue=True))
    B(lambda: fifo(6, False, L64, 64, "SyncFIFO(6)/64b/glue", glue=True))
    B(lambda: mk_up(7, 8, True, raw=False, glue=True))
    B(lambda: mk_up(3, 16, False, conv_vtc=True, glue=True))
    B(lambda: mk_down(7, 8, False, raw=False, glue=True))
    B(lambda: mk_down(12, 4, True, conv_vtc=True, glue=True))
    return J


def all_jobs(tier):
    return jobs(tier) + glue_jobs(tier)


MAKERS = {"up": lambda *a: mk_up(*a), "down": lambda *a: mk_down(*a), "pack": lambda *a: mk_pack(*a),
          "unpack": lambda *a: mk_unpack(*a), "stride": lambda *a: mk_stride(*a),
          "gearbox": lambda *a: mk_gearbox(*a), "gate": lambda *a: mk_gate(*a), "delay": lambda *a: mk_delay(*a),
          "shifter": lambda *a: mk_shifter(*a), "pipeactor": lambda *a: mk_pipeactor(*a),
          "crossbar": lambda *a: mk_crossbar(*a), "stages": lambda *a: mk_stages(*a),
          "bufferize": lambda *a: mk_bufferize(*a), "monitor": lambda *a: mk_monitor(*a),
          "mux": lambda n: L.MuxInst("Multiplexer(%d)" % n, stream.Multiplexer(L1, n), n, nb=1),
          "demux": lambda n: L.DemuxInst("Demultiplexer(%d)" % n, stream.Demultiplexer(L1, n), n, nb=1)}


def corpus(ctx):
    """corpus/C03/*.json: finding witnesses and minimised mutation witnesses.  Each is replayed on the real code
    with the property oracle armed and in lock-step against the model."""
    import os, glob, json
    from explore import Disagreement, _masked_equal
    here = os.path.join(os.path.dirname(os.path.dirname(os.path.dirname(os.path.abspath(__file__)))), "corpus", "C03")
    out = []
    n = 0
    for f in sorted(glob.glob(os.path.join(here, "*.json"))):
        w = json.load(open(f))
        inst = MAKERS[w["make"]](*w["args"])
        inst.name = "corpus/" + os.path.basename(f)[:-5] + ":" + inst.name
        trace = [tuple(l) for l in w["trace"]]
        r = replay_with_monitor(inst, trace)
        if r:
            out.append(Disagreement(inst, trace[:r[0] + 1], r[0], None, None, kind="monitor:" + r[1]))
        root = inst.netlist.snapshot()
        impl = [impl_step(inst, l) for l in trace]
        inst.netlist.restore(root)
        ctx.lean.open(inst.lean_open)
        model = ctx.lean.run(trace)
        ctx.lean.close_session()
        for t, (a, m) in enumerate(zip(impl, model)):
            if not _masked_equal(inst, a, m):
                out.append(Disagreement(inst, trace[:t + 1], t, a, m))
                break
        n += 1
        ctx.cov.add_instance(inst.name, states=0, transitions=len(trace),
                             nontrivial=sum(1 for l, o in zip(trace, impl) if inst.nontrivial(l, o)),
                             exhaustive=False, mode="corpus")
    return out


def correspond(ctx):
    dis = corpus(ctx)
    dis += glue_calls(ctx)
    ctx.jobs = all_jobs(ctx.tier)
    d2, bad = run_jobs(ctx, ctx.jobs)
    return dis + d2


def search(ctx, disagreements, proof_info):
    """Failing-input search.  Short first: the breadth-first (hence minimal-length) disagreement traces of mode A
    are replayed and extended on the real code with the property oracle armed; a trace on which an oracle already
    fired during co-simulation is delta-debugged before it is reported."""
    from explore import search_failing_input, shrink
    all_jobs = getattr(ctx, "jobs", None) or globals()["all_jobs"](ctx.tier)
    import time
    deadline = time.time() + (45 if ctx.tier == "quick" else 300)
    by_job = {}
    for d in disagreements:
        if d.job is not None and not d.kind.startswith("monitor:") and all_jobs[d.job].mode == "A":
            by_job.setdefault(d.job, []).append(d.trace)
    for j, seeds in list(by_job.items())[:4]:
        inst = all_jobs[j].make()
        r = search_failing_input(inst, ctx.rng, seeds, ext_len=12, tries=150, deadline=deadline)
        if r:
            return {"instance": inst.name, "trace": [list(l) for l in r[0]], "monitor": r[1], "letter_format": FMT}
    for d in disagreements:
        if d.kind.startswith("monitor:") and d.job is not None:
            inst = all_jobs[d.job].make()
            tr = shrink(inst, [tuple(l) for l in d.trace])
            r = replay_with_monitor(inst, tr)
            if r:
                return {"instance": inst.name, "trace": [list(l) for l in tr[:r[0] + 1]], "monitor": r[1],
                        "letter_format": FMT}
    return generic_search(ctx, disagreements, all_jobs, FMT)


# ---------------------------------------------------------------------------------------------------------
# finding probes (witnesses replayed on the real code with the property oracle armed)

def _probe(inst, trace):
    r = replay_with_monitor(inst, [tuple(l) for l in trace])
    return (r is not None), ("cycle %d: %s" % r if r else "witness passes")


def probes(ctx):
    out = []
    # F5 (fixed bb9626a): Pack, n = 2.  Sub-words 1,1 complete a word; while the consumer takes it the sink is
    # invalid but carries last = 1; the next word (sub-words 0,0 without last) must not be marked last.
    inst = mk_pack(2, 1, 0, False)
    w = [(1, 1, 0, 0, 0), (1, 1, 0, 0, 0), (0, 0, 0, 1, 1), (1, 0, 0, 0, 0), (1, 0, 0, 0, 0), (0, 0, 0, 0, 1)]
    fails, what = _probe(inst, w)
    out.append((F_PACK, fails, "Pack(n=2): sink invalid with last=1 during a source handshake; " + what))
    # fixed 3f0170f: StrideConverter (up).  A completed word of packet A (param 1) waits for the consumer
    # (a) while the producer idles with other values on the param lines, (b) while it offers the first sub-word
    # of packet B (param 2).  The delivered param must be the one accepted with the word.
    pa, pb = 1 << 1, 2 << 1                                     # param field sits above the 1-bit payload
    for tag, stall in (("idle producer", (0, 1 | pb, 1, 1, 0)), ("next packet offered", (1, 1 | pb, 1, 0, 0))):
        inst = mk_stride(True, 2, [1], 2, False)
        w = [(1, 1 | pa, 1, 0, 0), (1, 0 | pa, 0, 1, 0), stall, stall[:4] + (1,)]
        fails, what = _probe(inst, w)
        out.append((F_STRIDE, fails, "StrideConverter(up), word stalled at the source, %s; %s" % (tag, what)))
    return out


def replay(ctx, payload):
    from explore import generic_replay
    if payload.get("kind") in ("fixed-finding-returned", "unlisted-finding"):
        bad = [(fid, what) for fid, fails, what in probes(ctx) if fails and fid == payload.get("id")]
        for fid, what in bad:
            print("%s: %s" % (fid, what))
        if bad:
            print("VIOLATION property=%s replay=(replayed)" % ctx.prop)
            return 1
        print("finding witness passes on the current tree")
        return 0
    return generic_replay(ctx, payload, all_jobs("thorough"))
