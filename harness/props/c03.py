"""C03 — stream elements deliver each token exactly once, in order, rightly transformed."""
from explore import Job, run_jobs, generic_search
from streamlib import StreamInst
from litex.soc.interconnect import stream

L1 = [("data", 1)]
L2 = [("data", 2)]
L8 = [("data", 8)]
L32 = [("data", 32)]
FMT = "sink.valid, sink.data, sink.first, sink.last, source.ready"


def jobs(tier):
    quick = tier == "quick"
    J = []
    A = lambda mk, **kw: J.append(Job("A", mk, max_states=30000 if quick else 1000000, **kw))
    B = lambda mk, **kw: J.append(Job("B", mk, cycles=3000 if quick else 30000, runs=1 if quick else 4, **kw))
    A(lambda: StreamInst("PipeValid/1b", stream.PipeValid(L1), "pipevalid", capacity=1))
    A(lambda: StreamInst("PipeReady/1b", stream.PipeReady(L1), "pipeready", capacity=1))
    A(lambda: StreamInst("Buffer(v,r)/1b", stream.Buffer(L1, True, True), "buffer_vr", capacity=2))
    A(lambda: StreamInst("Buffer(v)/1b", stream.Buffer(L1, True, False), "pipevalid", capacity=1))
    A(lambda: StreamInst("Buffer(r)/1b", stream.Buffer(L1, False, True), "pipeready", capacity=1))
    A(lambda: StreamInst("SyncFIFO(0)/1b", stream.SyncFIFO(L1, 0), "wire", capacity=0))
    A(lambda: StreamInst("SyncFIFO(1)/1b", stream.SyncFIFO(L1, 1), "pipevalid", capacity=1))
    T2 = [(0, 0, 1), (1, 1, 0)]   # two token values that toggle every field (keeps stale-memory blow-up small)
    for d in (2, 3) if quick else (2, 3, 4, 5):
        A(lambda d=d: StreamInst("SyncFIFO(%d)/1b" % d, stream.SyncFIFO(L1, d), "syncfifo %d" % d, capacity=d,
                                 tokens=T2))
        A(lambda d=d: StreamInst("SyncFIFO(%d,buffered)/1b" % d, stream.SyncFIFO(L1, d, buffered=True),
                                 "syncfifo_buffered %d" % d, capacity=d + 1, tokens=T2))
    A(lambda: StreamInst("SyncFIFO(2)/1b/allflags", stream.SyncFIFO(L1, 2), "syncfifo 2", capacity=2))
    B(lambda: StreamInst("PipeValid/32b", stream.PipeValid(L32), "pipevalid", capacity=1))
    B(lambda: StreamInst("Buffer(v,r)/8b", stream.Buffer(L8, True, True), "buffer_vr", capacity=2))
    B(lambda: StreamInst("SyncFIFO(16)/8b", stream.SyncFIFO(L8, 16), "syncfifo 16", capacity=16))
    B(lambda: StreamInst("SyncFIFO(64,buffered)/32b", stream.SyncFIFO(L32, 64, buffered=True),
                         "syncfifo_buffered 64", capacity=65))
    return J


def correspond(ctx):
    ctx.jobs = jobs(ctx.tier)
    dis, bad = run_jobs(ctx, ctx.jobs)
    return dis


def search(ctx, disagreements, proof_info):
    return generic_search(ctx, disagreements, getattr(ctx, "jobs", None) or jobs(ctx.tier), FMT)


def replay(ctx, payload):
    from explore import generic_replay
    return generic_replay(ctx, payload, jobs("thorough"))
