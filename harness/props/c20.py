"""C20 — computed PLL/clock configurations meet the request and the device limits.

Mode C (operation differential) + D (regenerated range tables):  random and boundary requests per vendor / speed
grade are run through the real clocking classes (compute_config + do_finalize, parameters read from the emitted
Instance) and through the Lean model (`call`), and compared; an exact-rational oracle that does not depend on the
model recomputes `Valid` on every real answer and searches the declared grid on every refusal.

Session 2: after do_finalize EVERY item of the emitted primitive (parameters, port connections, attributes; c20emit.py)
is read back and compared (a) with an expectation computed from the captured compute_config() result + the request only
(`expect_*`, oracle side) and (b) with the complete item list of the Lean model (`...Emit`, answer suffix " || ...");
the clock-domain wiring (buffer primitive per output, reset synchroniser) is checked by object identity; directed grids
(`directed()`) use every output port / source selector / phase class of a primitive.  GW5A and Efinix Trion are tied
to Lean models (float-borderline requests stay oracle-only), CologneChip CC_PLL has a request-legality model."""
import os, json, time
import c20lib as L

CORPUS = os.path.join(L.VERIF, "corpus", "C20")

# requests per family: (quick, thorough)
BUDGET = {
    "xilinx": (1150, 13000),
    "ecp5": (550, 6000),
    "ice40": (300, 3000),
    "nx": (300, 3000),
    "nxosc": (100, 800),
    "nxoscfin": (40, 300),
    "intel": (120, 1200),
    "gw1n": (300, 3000),
    "gwosc": (80, 600),
    "gw5a": (40, 400),
    "trion": (150, 1500),
    "gatemate": (60, 600),
}


def regen(ctx):
    if L.regen():
        ctx.log("regenerated " + os.path.relpath(L.GEN_PATH, L.VERIF))


def norm_case(c):
    c = dict(c)
    if "outs" in c:
        c["outs"] = [tuple(o) for o in c["outs"]]
    for k in ("out", "hf", "hfsdc"):
        if c.get(k) is not None:
            c[k] = tuple(c[k])
    return c


def corpus_entries():
    out = []
    if os.path.isdir(CORPUS):
        for fn in sorted(os.listdir(CORPUS)):
            if fn.endswith(".json"):
                j = json.load(open(os.path.join(CORPUS, fn)))
                if "case" not in j:
                    continue                      # tables.pinned.json
                j["case"] = norm_case(j["case"])
                j["file"] = fn
                out.append(j)
    return out


def corpus_cases():
    return [j["case"] for j in corpus_entries()]


def gen_cases(ctx, scale=1.0, only=None):
    F = L.fams()
    quick = ctx.tier == "quick"
    cases = []
    for fam, (q, t) in BUDGET.items():
        if fam not in F or (only and fam not in only):
            continue
        n = int((q if quick else t) * scale)
        cases += [F[fam].gen(ctx.rng) for _ in range(n)]
    return cases


def tally(ctx, recs, label="random"):
    """merge records into coverage; return (disagreements, n_errors)"""
    dis = []
    per = {}
    for r in recs:
        c = r["case"]
        fam = c["fam"]
        key = fam + (":" + c["dev"].split(":")[0] if "dev" in c else "")
        p = per.setdefault(key, {"n": 0, "ok": 0, "rejected": 0, "other": 0, "borderline": 0, "region": 0, "compared": 0})
        p["n"] += 1
        st = r["status"]
        p[st if st in ("ok", "rejected") else "other"] += 1
        ctx.cov.count("%s:status=%s" % (fam, st))
        if "outs" in c and c["outs"] is not None:
            ctx.cov.count("%s:nouts=%d" % (fam, len(c["outs"])))
            for o in c["outs"]:
                if len(o) > 2:
                    ctx.cov.count("margin=%g" % o[2])
        if r.get("error"):
            dis.append({"kind": "machinery", "what": r["error"], "case": c})
            continue
        if r.get("out_of_domain"):
            ctx.cov.count("out-of-domain (refused by the helper's range assert):" + fam)
        elif r["region"]:
            p["region"] += 1
            ctx.cov.count("known-defect-region:" + r["region"])
        elif r["borderline"]:
            p["borderline"] += 1
            ctx.cov.count("float-borderline(oracle only):" + fam)
        else:
            p["compared"] += 1
        for v in r["viol"]:
            dis.append({"kind": "monitor", "what": v, "case": c, "real": r.get("real")})
        if r.get("emit_compared"):
            ctx.cov.count("emitted instance compared item by item with the model:" + fam)
        if r["dis"]:
            dis.append({"kind": "correspondence", "what": r["dis"], "case": c, "real": r.get("real"), "model": r.get("model")})
    for key, p in sorted(per.items()):
        ctx.cov.add_cases("%s/%s" % (label, key), p["n"], p["ok"], exhaustive=False)
        ctx.cov.instances[-1].update({"accepted": p["ok"], "refused": p["rejected"], "other_status": p["other"],
                                      "compared_with_model": p["compared"], "float_borderline_oracle_only": p["borderline"],
                                      "known_defect_region": p["region"]})
    return dis


def self_test(ctx, recs):
    """sensitivity: perturbing a model answer must be flagged by the comparison."""
    F = L.fams()
    done = 0
    for r in recs:
        if r["status"] == "ok" and not r["borderline"] and not r["region"] and not r["dis"] and r["case"]["fam"] in ("xilinx", "ecp5"):
            c = r["case"]
            fam = F[c["fam"]]
            line = ctx.lean.call_batch([fam.lean_line(c)])[0]
            w = line.split()
            w[1] = str(int(w[1]) + 1)            # first integer field of every "some ..." answer
            real = fam.real(c)
            if fam.compare(c, real, fam.parse(c, " ".join(w))) is None:
                return [{"kind": "machinery", "what": "sensitivity self-test: perturbed model answer not flagged", "case": c}]
            if fam.compare(c, real, fam.parse(c, "none")) is None:
                return [{"kind": "machinery", "what": "sensitivity self-test: refusal not flagged", "case": c}]
            done += 1
            if done >= 2:
                break
    ctx.cov.notes.append("sensitivity self-test: %d perturbed model answers flagged" % (2 * done))
    return []


def correspond(ctx):
    ctx.rule = ("one case = one request (vendor class, speed grade/device, input frequency, 1..max outputs with frequency/"
                "phase/margin) run through the real compute_config+do_finalize, the Lean model and the exact oracle; "
                "non-trivial = the real code returned a configuration (refusals counted separately)")
    t0 = time.time()
    # (D) the declared device limits of the tree under test against the pinned reference tables
    tdiff = L.table_diffs()
    for t in tdiff[:20]:
        ctx.log("declared range changed: " + t)
    cor = corpus_cases()
    cases = gen_cases(ctx)
    # directed port-coverage grids: every output port / source selector / phase class of a primitive (not sampled)
    directed = [c for fam in L.fams().values() if hasattr(fam, "directed") for c in fam.directed()]
    recs_c = L.run_cases(cor, procs=1) if cor else []
    recs_d = L.run_cases(directed) if directed else []
    recs = L.run_cases(cases)
    dis = [{"kind": "tables", "what": "declared device range differs from the pinned reference (re-pin with C20_REPIN=1 "
            "after review): " + t} for t in tdiff[:20]]
    dis += tally(ctx, recs_c, "corpus") + tally(ctx, recs_d, "directed") + tally(ctx, recs)
    dis += self_test(ctx, recs)
    ctx.cov.samples += [{"case": r["case"], "status": r["status"]} for r in recs[:6]]
    ctx.log("correspond: %d cases in %.1fs, %d disagreements/monitor hits" % (len(cor) + len(cases), time.time() - t0, len(dis)))
    ctx.c20_recs = recs
    return dis


def probe_gw5a_odiv():
    """GW5APLL (not modelled): odiv = round(vco/f) is never checked against the ODIV range 1..128."""
    from migen import Signal
    from litex.soc.cores.clock.gowin_gw5a import GW5APLL
    g = GW5APLL("GW5A-25", "GW5A-LV25MG121NES")
    g.register_clkin(Signal(), 50e6)
    g.create_clkout(L.mk_cd(0), 5e6, with_reset=False)
    try:
        c = g.compute_config()
    except Exception as e:
        return False, "refused: %r" % e
    return not (1 <= c["odiv0"] <= 128), "50 MHz in, 5 MHz out -> odiv0=%s" % c["odiv0"]


def probe_gw1n_same_pin():
    """GW1NPLL: two requests resolving to the same primitive pin overwrite each other silently."""
    from migen import Signal
    from migen.fhdl.specials import Instance
    from litex.soc.cores.clock.gowin_gw1n import GW1NPLL
    g = GW1NPLL("GW1NR-9C", "GW1NR-LV9QN88PC6/I5")
    g.register_clkin(Signal(), 27e6)
    g.create_clkout(L.mk_cd(0), 108e6, with_reset=False)
    g.create_clkout(L.mk_cd(1), 108e6, with_reset=False)
    try:
        g.finalize()
    except Exception as e:
        return False, "refused: %r" % e
    driven = set()
    for sp in L.frag_of(g).specials:
        if isinstance(sp, Instance) and sp.of in ("rPLL", "PLLVR"):
            driven = {id(it.expr) for it in sp.items if isinstance(it, Instance.Output)}
    undriven = [i for i, (clk, _, _, _) in g.clkouts.items() if id(clk) not in driven]
    return bool(undriven), "27 MHz in, two 108 MHz outputs: clock(s) %s not connected to any PLL pin" % undriven


def probe_gw1n_best_only():
    """GW1NPLL: only the (idiv, fdiv) closest to the highest request is tried against the slower clocks."""
    from migen import Signal
    from litex.soc.cores.clock.gowin_gw1n import GW1NPLL

    def run(fhi):
        g = GW1NPLL("GW1NR-9C", "GW1NR-LV9QN88PC6/I5")
        g.register_clkin(Signal(), 27e6)
        g.create_clkout(L.mk_cd(0), fhi, margin=0.03, with_reset=False)
        g.create_clkout(L.mk_cd(1), 52.5e6, margin=1e-4, with_reset=False)
        return g.compute_config()
    try:
        c = run(108e6)
        return False, "accepted: idiv=%s fdiv=%s odiv=%s" % (c["idiv"], c["fdiv"], c["odiv"])
    except ValueError as e:
        w = run(105e6)          # the valid setting (CLKOUT 105 MHz is within 3 % of 108 MHz, CLKOUTD = 52.5 MHz exactly)
        ok = abs(27e6 * w["fdiv"] / w["idiv"] - 108e6) <= 108e6 * 0.03 and w["SDIV_SEL"] == 2
        return ok, "27 MHz in, 108 MHz +-3 %% and 52.5 MHz +-1e-4 refused (%s) although idiv=%s fdiv=%s odiv=%s serves both" % (
            e, w["idiv"], w["fdiv"], w["odiv"])


def probe_ecp5_idempotent():
    """ECP5PLL.compute_config stores the spare feedback output in self.clkouts: a second call is refused."""
    from migen import Signal
    from litex.soc.cores.clock.lattice_ecp5 import ECP5PLL
    e = ECP5PLL()
    e.register_clkin(Signal(), 25e6)
    e.create_clkout(L.mk_cd(0), 60e6, margin=1e-2, with_reset=False)
    first = e.compute_config()
    try:
        second = e.compute_config()
    except ValueError as ex:
        return True, "25 MHz in, 60 MHz out: first compute_config ok (clkfb=%s), second raises %r" % (first["clkfb"], ex)
    return False, "second call returned clkfb=%s" % second["clkfb"]


def probe_trion_fpll():
    c = {"fam": "trion", "clkin": 16e6, "outs": [(16e6, 0)], "fb": 0, "exact": True}
    r = L.run_cases([c], procs=1)[0]
    fails = bool(r["viol"]) or r["status"] not in ("ok", "assertion") or bool(r.get("error"))
    return fails, "16 MHz in, 16 MHz feedback output: status=%s %s" % (r["status"], r["viol"])


DIRECT_PROBES = {"C20-ecp5-compute-config-not-idempotent": probe_ecp5_idempotent,
                 "C20-trion-fpll-max-unchecked": probe_trion_fpll,"C20-gw5a-odiv-unchecked": probe_gw5a_odiv, "C20-gw1n-same-pin-overwrite": probe_gw1n_same_pin,
                 "C20-gw1n-best-only-incomplete": probe_gw1n_best_only}


def probes(ctx):
    """Replay the witness of every LISTED finding (fixed ones must be accepted and valid; open ones are reported while
    the real code still shows the defect).  Ids not present in known_findings.json are not probed."""
    listed = {e.get("id") for e in ctx.known}
    out = []
    ents = [j for j in corpus_entries() if j.get("finding") in listed]
    recs = L.run_cases([j["case"] for j in ents], procs=1) if ents else []
    for j, r in zip(ents, recs):
        fid = j["finding"]
        if j["expect"] == "no-crash":
            fails = r["status"] not in ("ok", "rejected", "assertion") or bool(r["viol"]) or bool(r.get("error"))
            what = "status=%s %s" % (r["status"], "; ".join(r["viol"])[:200])
        elif j["expect"] == "accepted":
            fails = r["status"] != "ok" or bool(r["viol"]) or bool(r.get("error"))
            what = "status=%s %s" % (r["status"], "; ".join(r["viol"])[:200])
        else:
            fails = r.get("region") == fid
            what = "status=%s region=%s" % (r["status"], r.get("region"))
        out.append((fid, fails, "%s: %s" % (j["file"], what)))
    L.fast_tracer()
    for fid, fn in DIRECT_PROBES.items():
        if fid in listed:
            try:
                fails, what = fn()
            except Exception as e:
                fails, what = True, "probe raised %r" % e
            out.append((fid, fails, what))
    return out


def search(ctx, disagreements, proof_info):
    """Failing-input search with the exact oracle only (independent of the Lean model)."""
    for d in disagreements:
        if d.get("kind") == "monitor":
            return {"case": d["case"], "oracle": d["what"], "real": d.get("real")}
    fams = {d["case"]["fam"] for d in disagreements if isinstance(d.get("case"), dict)} or None
    t0 = time.time()
    budget = 90 if ctx.tier == "quick" else 600
    rounds = 0
    seeds = [d["case"] for d in disagreements if isinstance(d.get("case"), dict)]
    while time.time() - t0 < budget and rounds < 6:
        rounds += 1
        cases = seeds + gen_cases(ctx, scale=0.5, only=fams) + (gen_cases(ctx, scale=0.25) if fams else [])
        if rounds == 1:
            cases = [c for fam in L.fams().values() if hasattr(fam, "directed") and (not fams or fam.fam in fams)
                     for c in fam.directed()] + cases
        seeds = []
        for r in L.run_cases(cases, use_lean=False):
            if r["viol"] and not r["region"]:
                return {"case": r["case"], "oracle": r["viol"][0], "real": r.get("real")}
    return None


def replay(ctx, payload):
    fi = payload.get("failing_input")
    if not fi:
        print("replay file carries no failing input (no-failing-input-found); disagreements were:")
        for d in payload.get("disagreements", [])[:3]:
            print("  ", json.dumps(d, default=str)[:400])
        return 1
    L.fast_tracer()
    c = norm_case(fi["case"])
    fam = L.fams()[c["fam"]]
    real = fam.real(c)
    orc = fam.oracle(c, real)
    print("case   :", json.dumps(c))
    print("real   :", json.dumps(L.jsonable(real))[:600])
    print("oracle :", orc[0] or "no violation")
    if orc[0]:
        print("VIOLATION property=C20 replay reproduces: " + orc[0][0])
        return 1
    return 0
