"""C15 — interrupt events are never lost and the IRQ line means pending-and-enabled."""
import itertools, signal
from explore import Job, run_jobs, generic_search, replay_with_monitor, Disagreement
import c15lib as L
from migen import Signal
from migen.genlib.record import Record

FMT = ("EventManager instances: (trigger vector, bus.adr, bus.we, bus.dat_w, bus.re); SharedIRQ: (trigger vector, "
       "bus.adr, bus.we, bus.dat_w) per manager; clients: (cycle, stimulus..., bus.adr, bus.we, bus.dat_w, bus.re) with "
       "stimulus = Timer: none, UART: sink.valid, sink.data, source.ready, GPIOIn: pads (raw pads, before the "
       "synchroniser); SoCCore+stub CPU: (trigger vector per peripheral, cpu wishbone adr, we, dat_w, stb, cycle)")

N_STALE = "C15-multiword-pending-stale-words"     # not a finding: logged as a note (see probes)
F_GPIO = "C15-gpio-change-back-to-back"           # open finding (known_findings.json)


# ---------------------------------------------------------------------------------------------------------
# clients

def mk_timer(width, dw, ordering="big", full=False, small=None):
    from litex.soc.cores.timer import Timer
    core = Timer(width=width)

    def gen_bus(inst, rng, t):
        # keep the timer running with short periods most of the time so that `zero` events keep coming
        x = rng.random()
        if x > 0.25:
            return None
        v = inst.view
        ids = [id(c) for c in inst.top.bank.simple_csrs]
        reg = rng.choice([core._load, core._reload, core._en, core._en, core._update_value])
        sc = rng.choice(reg.simple_csrs)
        low = sc is (reg.simple_csrs[-1] if ordering == "big" else reg.simple_csrs[0])
        if reg is core._en:
            dat = 1 if rng.random() < 0.8 else 0
        else:
            dat = rng.choice([0, 1, 2, 3, 5]) if low else (0 if rng.random() < 0.95 else 1)
        return (ids.index(id(sc)), 1, dat, 0)

    if full:
        return L.TimerInst("Timer(%d)" % width, core, dw, gen_bus, ordering, small=small)
    return L.ClientInst("Timer(%d)" % width, core, ["r"], dw, [], lambda rng, t: (), gen_bus, ordering)


def mk_uart(txd, rxd, dw, rx_we=False, ordering="big", full=False, small=False):
    from litex.soc.cores.uart import UART
    core = UART(phy=None, tx_fifo_depth=txd, rx_fifo_depth=rxd, rx_fifo_rx_we=rx_we)

    def gen_stim(rng, t):
        regime = (t // 131) % 4
        pv = (0.15, 0.6, 0.02, 0.3)[regime]        # characters arriving
        pr = (0.3, 0.05, 0.9, 0.5)[regime]         # phy taking characters
        return (1 if rng.random() < pv else 0, rng.getrandbits(8), 1 if rng.random() < pr else 0)

    def gen_bus(inst, rng, t):
        x = rng.random()
        if x < 0.12:                                # software sends a character
            ids = [id(c) for c in inst.top.bank.simple_csrs]
            return (ids.index(id(core._rxtx)), 1, rng.getrandbits(8), 0)
        if x < 0.16 and rx_we:                      # software reads rxtx (pops with rx_fifo_rx_we)
            ids = [id(c) for c in inst.top.bank.simple_csrs]
            return (ids.index(id(core._rxtx)), 0, 0, 1)
        return None

    if full:
        return L.UartFullInst("UART(tx%d,rx%d%s)" % (txd, rxd, ",rx_we" if rx_we else ""), core, dw,
                              [core.sink.valid, core.sink.data, core.source.ready], gen_stim, gen_bus, rx_we,
                              txd, rxd, ordering, small=small)
    return L.UartInst("UART(tx%d,rx%d%s)" % (txd, rxd, ",rx_we" if rx_we else ""), core, dw,
                      [core.sink.valid, core.sink.data, core.source.ready], gen_stim, gen_bus, rx_we, ordering)


def mk_gpio(npads, dw, tristate=False, ordering="big", full=False, small=False, edge_ops=True):
    from litex.soc.cores.gpio import GPIOIn, GPIOTristate
    if tristate:
        pads = Record([("o", npads), ("oe", npads), ("i", npads)])
        core = GPIOTristate(pads, with_irq=True)
        pin = pads.i
    else:
        pin = Signal(npads)
        core = GPIOIn(pin, with_irq=True)
    state = {"v": 0}

    def gen_stim(rng, t):
        if t == 0:
            state["v"] = 0
        regime = (t // 113) % 3
        p = (0.05, 0.4, 0.01)[regime]
        for k in range(npads):
            if rng.random() < p:
                state["v"] ^= 1 << k
        return (state["v"],)

    if full:
        return L.GpioSyncInst("%s(%d pads,irq)" % ("GPIOTristate" if tristate else "GPIOIn", npads), core, npads, dw,
                              [pin], gen_stim, ordering, pads_alphabet=range(1 << npads) if small else None,
                              edge_ops=edge_ops)
    return L.GpioInst("%s(%d pads,irq)" % ("GPIOTristate" if tristate else "GPIOIn", npads), core, npads, dw,
                      [pin], gen_stim, ordering)


def mk_timer_full(width, dw, ordering="big", small=None):
    """Timer against the model that contains the counter (`open timer`)."""
    return mk_timer(width, dw, ordering, full=True, small=small)


def mk_uart_full(txd, rxd, dw, rx_we=False, ordering="big", small=False):
    """UART against the model that contains the FIFO levels (`open uart`)."""
    return mk_uart(txd, rxd, dw, rx_we, ordering, full=True, small=small)


def mk_gpio_sync(npads, dw, tristate=False, ordering="big", small=False, edge_ops=True):
    """GPIO against the model that contains the MultiReg synchroniser (`open gpiosync`)."""
    return mk_gpio(npads, dw, tristate, ordering, full=True, small=small, edge_ops=edge_ops)


def mk_soc(kinds_list, reqs, reserved=None, csr_dw=32, **kw):
    """Real SoCCore + stub CPU; the interrupt numbers of the model come from the model's own `irqAlloc`."""
    import logging
    from leanproc import LeanDriver
    logging.disable(logging.CRITICAL)
    inst = L.SocIrqInst(kinds_list, reqs, reserved, csr_dw, **kw)
    ld = LeanDriver("C15")
    try:
        ans = ld.call_batch([inst.alloc_request()])[0].split()
    finally:
        ld.quit()
    if ans[0] != "ok":
        raise RuntimeError("model refuses the interrupt requests %s that soc.py accepted" % inst.alloc_request())
    inst.set_locs([int(x) for x in ans[1:]])
    return inst


# ---------------------------------------------------------------------------------------------------------

def rand_kinds(seed, n):
    import random
    r = random.Random(seed)
    ks = [r.choice("prfl") for _ in range(n)]
    for k, c in enumerate("prfl"):          # every kind present
        if n >= 4:
            ks[(seed + k * 3) % n] = c
    return ks


def jobs(tier):
    quick = tier == "quick"
    J = []
    A = lambda mk, **kw: J.append(Job("A", mk, max_states=kw.pop("max_states", 400000 if quick else 3000000), **kw))
    B = lambda mk, **kw: J.append(Job("B", mk, cycles=kw.pop("cycles", 3000 if quick else 30000),
                                      runs=kw.pop("runs", 1 if quick else 3), **kw))
    K = "prfl"
    # ---- mode A: one source, every kind, 8- and 32-bit CSR bus; every mask, reads of every register, a write to
    #      `status`, a write to the same index in another page
    for k in K:
        for dw in (8, 32):
            A(lambda k=k, dw=dw: L.EvInst([k], dw))
    # ---- bank on another page; attach order / attribute names / default-argument constructors differing from the
    #      creation order (bit order = creation order)
    A(lambda: L.EvInst(["r"], 8, page=3, tag="/page3"))
    A(lambda: L.EvInst(["f", "p"], 32, page=5, variant=True, reads=False, extra=False, en_masks=[0, 1, 2],
                       tag="/page5/reversed names+attach order, default edge"))
    # ---- two sources: every clear mask x every enable mask x every trigger vector
    #      quick: four mixes covering every kind in both bit positions (three without read letters, one complete);
    #      thorough: all 16 ordered mixes with reads, both bus widths
    if quick:
        A(lambda: L.EvInst(["p", "r"], 8, reads=False, extra=False, en_masks=[0, 1, 2], tag="/no reads, enable none|one"))
        A(lambda: L.EvInst(["f", "l"], 32, reads=False, extra=False, tag="/no reads"))
        A(lambda: L.EvInst(["r", "f"], 32, reads=False, extra=False, en_masks=[0, 3], tag="/no reads, enable all|none"))
        A(lambda: L.EvInst(["l", "p"], 8))
    else:
        for a, b in itertools.product(K, K):
            for dw in (8, 32):
                A(lambda a=a, b=b, dw=dw: L.EvInst([a, b], dw))
    # ---- three sources (clear masks none / one-hot / all, enable none / all, no read letters): thorough only
    if not quick:
        for idx, m in enumerate(["prf", "lpr", "flp", "rlf", "plp", "lfl", "rpl", "fll"]):
            A(lambda m=m, dw=(8, 32)[idx % 2]: L.EvInst(list(m), dw, masks="onehot", reads=False, extra=False,
                                                        tag="/onehot"))
    # ---- more sources than bus bits: `pending`/`enable`/`status` span several words (1- and 2-bit CSR buses);
    #      single word writes in any order, so stale words of `pending.r` are exercised
    A(lambda: L.EvInst(["p", "r"], 1, "big", disciplined=False, reads=not quick, extra=not quick))
    A(lambda: L.EvInst(["f", "l"], 1, "little", disciplined=False, reads=not quick, extra=not quick))
    if not quick:
        A(lambda: L.EvInst(["p", "r"], 1, "little", disciplined=False))
        A(lambda: L.EvInst(["f", "l"], 1, "big", disciplined=False))
        for ordering in ("big", "little"):
            A(lambda o=ordering: L.EvInst(["p", "r", "l"], 2, o, disciplined=False, reads=False, extra=False,
                                          en_masks=[0, 3]))
            A(lambda o=ordering: L.EvInst(["l", "p", "l"], 1, o, disciplined=False, reads=False, extra=False))
            A(lambda o=ordering: L.EvInst(["p", "p"], 8, o))
    # ---- SharedIRQ
    A(lambda: L.SharedInst([["p"], ["l"]], 8, small=quick))
    if not quick:
        A(lambda: L.SharedInst([["r"], ["f"]], 32))
        A(lambda: L.SharedInst([["p"], ["l"], ["l"]], 8, small=2))

    # ---- mode B: bare managers, realistic sizes
    B(lambda: L.EvInst(rand_kinds(1, 3), 8, trigs=[0]))
    B(lambda: L.EvInst(rand_kinds(2, 8), 8, trigs=[0]))
    B(lambda: L.EvInst(rand_kinds(10, 9), 8, trigs=[0], tag="/whole-register writes"))          # bus width + 1
    B(lambda: L.EvInst(rand_kinds(11, 7), 8, "little", trigs=[0], variant=True, page=2, tag="/variant/page2"))
    B(lambda: L.EvInst(rand_kinds(3, 12), 8, trigs=[0], tag="/whole-register writes"))
    B(lambda: L.EvInst(rand_kinds(3, 12), 8, trigs=[0], disciplined=False, tag="/single-word writes"), with_monitor=False)
    big = dict(cycles=3000 if quick else 10000)       # many sources: slower steps
    B(lambda: L.EvInst(rand_kinds(4, 20), 8, "little", trigs=[0], tag="/whole-register writes"), **big)
    B(lambda: L.EvInst(rand_kinds(5, 32), 32, trigs=[0]), **big)
    B(lambda: L.EvInst(rand_kinds(6, 33), 32, trigs=[0], tag="/whole-register writes"), **big)   # bus width + 1
    if not quick:
        B(lambda: L.EvInst(rand_kinds(12, 35), 32, trigs=[0], tag="/whole-register writes"), **big)
        B(lambda: L.EvInst(rand_kinds(6, 35), 32, "little", trigs=[0], disciplined=False, tag="/single-word writes"),
          with_monitor=False, **big)
    B(lambda: L.SharedInst([rand_kinds(7, 3), rand_kinds(8, 4), rand_kinds(9, 2)], 8))
    # ---- the way an SoC builds it: peripherals as attributes, CSRBankArray + address map, Interconnect, SharedIRQ;
    #      sources without name= (default field names)
    B(lambda: L.GlueInst([list("pr"), list("lfp"), list("f")], [2, 5, 9], 8))
    B(lambda: L.GlueInst([rand_kinds(13, 9), list("rl")], [1, 30], 8, "little"))
    if not quick:
        B(lambda: L.GlueInst([rand_kinds(14, 33), list("p"), list("fl")], [0, 3, 4], 32))
    # ---- mode B: clients with their real trigger logic
    B(lambda: mk_timer(8, 8))
    B(lambda: mk_timer(32, 32))
    B(lambda: mk_timer(32, 8))
    B(lambda: mk_uart(2, 2, 8))
    B(lambda: mk_uart(4, 3, 32))
    B(lambda: mk_uart(2, 4, 8, rx_we=True))
    B(lambda: mk_gpio(4, 8))
    B(lambda: mk_gpio(12, 8))
    B(lambda: mk_gpio(3, 32, tristate=True))
    if not quick:
        B(lambda: mk_uart(16, 16, 32))
        B(lambda: mk_gpio(33, 32), **big)
        B(lambda: mk_timer(16, 8, "little"))
    # ---- the event PRODUCERS inside the model (session 2): counter / FIFO levels / MultiReg computed by the model
    A(lambda: mk_timer_full(2, 8, small=(0, 2)))
    A(lambda: mk_gpio_sync(1, 8, small=True, edge_ops=not quick))
    A(lambda: mk_uart_full(2, 2, 8, small="rx"))
    A(lambda: mk_uart_full(2, 2, 8, small="tx"))
    B(lambda: mk_timer_full(8, 8))
    B(lambda: mk_timer_full(32, 8, "little"))
    B(lambda: mk_uart_full(2, 2, 8))
    B(lambda: mk_uart_full(4, 3, 32, rx_we=True))
    B(lambda: mk_gpio_sync(4, 8))
    B(lambda: mk_gpio_sync(3, 32, tristate=True))
    if not quick:
        A(lambda: mk_timer_full(2, 8, "little", small=(0, 1, 3)))
        A(lambda: mk_gpio_sync(1, 32, tristate=True, ordering="little", small=True))
        A(lambda: mk_uart_full(3, 2, 8, small="tx"))
        A(lambda: mk_uart_full(2, 3, 8, rx_we=True, small="rx"))
        B(lambda: mk_timer_full(32, 32))
        B(lambda: mk_uart_full(16, 16, 32))
        B(lambda: mk_uart_full(2, 5, 8, rx_we=True, ordering="little"))
        B(lambda: mk_gpio_sync(12, 8))
        B(lambda: mk_gpio_sync(33, 32), **big)
    # ---- SoC level: real SoCCore + stub CPU, `soc.irq.add` numbering, `cpu.interrupt[loc] = ev.irq`
    soc = dict(cycles=700 if quick else 6000)        # whole-SoC netlist: ~150 steps/s
    B(lambda: mk_soc([list("pr"), list("lfp"), list("f")], [5, None, 31], {"noirq": 0, "x": 2}), **soc)
    B(lambda: mk_soc([list("l"), list("rp")], [None, None], {}, csr_dw=8), **soc)
    if not quick:
        B(lambda: mk_soc([rand_kinds(21, 8), list("p"), list("fl"), list("r")], [None, 0, None, 3], {"a": 1}, csr_dw=8), **soc)
        B(lambda: mk_soc([list("p"), list("l"), list("f")], [2, 1, 0], {}, n_irqs=3), **soc)
    return J


def corpus_cases():
    import os, json, glob
    d = os.path.join(os.path.dirname(os.path.dirname(os.path.dirname(os.path.abspath(__file__)))), "corpus", "C15")
    for f in sorted(glob.glob(os.path.join(d, "*.json"))):
        yield os.path.basename(f), json.load(open(f))


def corpus_instance(case):
    inst = L.EvInst(case["kinds"], case["dw"], case.get("ordering", "big"), trigs=[0],
                    disciplined=case.get("disciplined", True), tag="/corpus")
    v = inst.view

    def adr(a):
        if a == "idle":
            return v.idle_adr()
        if a == "other":
            return (1 << L.PAGE_BITS) | v.bus_adr(v.local_index(1, 0))
        return v.bus_adr(v.local_index("SPE".index(a[0]), int(a[1:])))
    return inst, [(l[0], adr(l[1]), l[2], l[3], l[4]) for l in case["trace"]]


def run_corpus(ctx):
    """Corpus first: each stored trace on the real code (monitor armed) and on the model."""
    from explore import Disagreement, impl_step, _masked_equal
    dis = []
    for fname, case in corpus_cases():
        inst, trace = corpus_instance(case)
        mon = inst.monitor()
        n = inst.netlist
        impl, msg = [], None
        for t, letter in enumerate(trace):
            outs = impl_step(inst, letter)
            impl.append(outs)
            m = mon.observe(letter, outs)
            if m and msg is None:
                msg = (t, m)
        ctx.lean.open(inst.lean_open)
        model = ctx.lean.run([inst.model_letter(l) for l in trace])
        ctx.lean.close_session()
        ctx.cov.add_instance("corpus/" + fname, states=0, transitions=len(trace), nontrivial=len(trace),
                             exhaustive=False, mode="B")
        for t in range(len(trace)):
            if not _masked_equal(inst, impl[t], model[t]):
                d = Disagreement(inst, trace[:t + 1], t, impl[t], model[t])
                d.inst = None
                dis.append(d)
                break
        if msg is not None:
            d = Disagreement(inst, trace[:msg[0] + 1], msg[0], impl[msg[0]], None, kind="monitor:" + msg[1])
            d.inst = None
            dis.append(d)
    return dis


def real_irq_numbers(n_irqs, reserved, reqs):
    """The real `SoCIRQHandler` as `SoC.add_cpu` and `soc.irq.add` use it -> list of numbers, or None on SoCError."""
    import logging
    from litex.soc.integration import soc as S
    logging.disable(logging.CRITICAL)
    try:
        h = S.SoCIRQHandler(n_irqs=n_irqs)
        h.enable()
        for i, r in enumerate(reserved):
            h.add("cpu%d" % i, r)
        for j, r in enumerate(reqs):
            if r is None:
                h.add("p%d" % j)
            else:
                h.add("p%d" % j, r)
        return [h.locs["p%d" % j] for j in range(len(reqs))]
    except S.SoCError:
        return None


def expected_or_none(n_irqs, reserved, reqs):
    """Documented behaviour, independent of /repo and of the model: a requested number must be free and < n_irqs;
    no number = the lowest free one; anything else is refused."""
    used = set(reserved)
    out = []
    for r in reqs:
        if r is None:
            free = [x for x in range(n_irqs) if x not in used]
            if not free:
                return None
            r = free[0]
        elif r in used or r >= n_irqs or r < 0:
            return None
        used.add(r)
        out.append(r)
    return out


def irq_numbers(ctx):
    """Python-level correspondence of the interrupt numbering: real `SoCIRQHandler` vs the model's `irqAlloc`,
    exhaustive for n_irqs <= 3 (every set of CPU lines, every request sequence up to length 3 over {any, 0..n}),
    seeded random for n_irqs = 32."""
    cases = []
    for n in (1, 2, 3):
        sets = [c for k in range(0, 3) for c in itertools.combinations(range(n), k)]
        alpha = [None] + list(range(n + 1))
        for res in sets:
            for ln in range(0, 4):
                for reqs in itertools.product(alpha, repeat=ln):
                    cases.append((n, list(res), list(reqs)))
    nex = len(cases)
    rng = ctx.rng
    for _ in range(150 if ctx.tier == "quick" else 2000):
        n = rng.choice([32, 32, 8, 5])
        res = rng.sample(range(n), rng.randrange(0, min(4, n)))
        reqs = [None if rng.random() < 0.5 else rng.randrange(0, n + 2) for _ in range(rng.randrange(1, 8))]
        cases.append((n, res, reqs))
    lines = ["irqalloc %d %s / %s" % (n, " ".join(map(str, res)), " ".join("a" if r is None else str(r) for r in reqs))
             for n, res, reqs in cases]
    answers = ctx.lean.call_batch(lines)
    dis, ok = [], 0
    ctx.irq_failures = []
    for (n, res, reqs), ans in zip(cases, answers):
        real = real_irq_numbers(n, res, reqs)
        a = ans.split()
        model = [int(x) for x in a[1:]] if a and a[0] == "ok" else None
        if real is not None:
            ok += 1
        if real != expected_or_none(n, res, reqs):
            ctx.irq_failures.append({"n_irqs": n, "cpu_lines": res, "requests": reqs, "real": real,
                                     "documented": expected_or_none(n, res, reqs)})
        if real != model and len(dis) < 3:
            d = Disagreement(None, [], 0, real, model,
                             kind="irq numbering: n_irqs=%d cpu lines %s requests %s: soc.py gives %s, model %s"
                                  % (n, res, reqs, real, model))
            d.inst_name = "SoCIRQHandler numbering"
            dis.append(d)
    ctx.cov.add_cases("SoCIRQHandler numbering (n_irqs<=3 exhaustive: %d, random: %d)" % (nex, len(cases) - nex),
                      len(cases), ok, False)
    return dis


class InstanceTimeout(Exception):
    pass


def _on_alarm(signum, frame):
    raise InstanceTimeout("instance did not finish within its time limit (hang or state explosion)")


def timed(job, limit):
    """Per-instance time limit (SIGALRM in the worker process): a hang while building or driving a changed
    implementation ends as an exception, which the runner reports as a violation."""
    def make():
        signal.signal(signal.SIGALRM, _on_alarm)
        signal.alarm(limit)
        return job.make()
    return Job(job.mode, make, **job.kw)


def correspond(ctx):
    ctx.rule = ("one (state, letter) transition of the real EventManager+CSRBank netlist compared with the model; "
                "non-trivial = a bus write, an active clear, a pending source or irq high in that cycle")
    ctx.assumptions = [
        "process sources: the first trigger sample is compared with 0 (reset value of trigger_d), so a trigger that is "
        "high (rising) at reset counts as an event - this is what the code does (Timer/UART raise one event after reset)",
        "status of pulse sources reads 0 (documented by the class)",
        "more sources than CSR bus bits: a clear addressed to bit k means the most recent value written to k's word; "
        "software writes every word of `pending` before the committing word (generated accessors do)",
        "Timer/UART client instances: the trigger waveform is sampled from the real trigger logic (value == 0, FIFO "
        "valid/ready); pending, clear, irq and read values are the model's own prediction.  GPIO instances: the model "
        "computes the triggers itself from the synchronised pads and the sampled mode/edge registers",
        "producer instances ('counter modelled', 'fifos modelled', 'raw pads'): the model computes the triggers itself "
        "(down counter; FIFO levels from sink.valid/source.ready/rxtx accesses, data abstracted, depths >= 2; MultiReg "
        "from the raw pads); the client configuration registers (_en/_load/_reload, _mode/_edge) are model inputs fed "
        "from the real storage registers every cycle",
        "SoC instances: a stub CPU (interrupt vector + wishbone master, no core) in a real SoCCore; every manager's "
        "model gets the access seen at its own CSR bank port; interrupt numbers come from the model's irqAlloc"]
    dis = run_corpus(ctx)
    dis += irq_numbers(ctx)
    ctx.jobs = jobs(ctx.tier)
    limit = 1800 if ctx.tier == "quick" else 6000     # against hangs, far above the normal time (loaded machine)
    d2, bad = run_jobs(ctx, [timed(j, limit) for j in ctx.jobs])
    signal.alarm(0)
    # every mode-A instance terminates with the complete reachable product on the unchanged tree; an exploration
    # that hits its state cap means the implementation's state space changed
    for i in ctx.cov.instances:
        if i.get("mode") == "A" and not i.get("exhaustive") and not any(d.inst_name == i["instance"] for d in d2):
            d = Disagreement(None, [], 0, None, None, kind="exploration of %s did not terminate within %d states"
                             % (i["instance"], i.get("states", 0)))
            d.inst_name = i["instance"]
            d2.append(d)
    return dis + d2


def search(ctx, disagreements, proof_info):
    """Failing-input search: shortest first.  (1) every disagreement / monitor trace is replayed on the real code
    with the lost-event monitor armed (plus two idle cycles) and shrunk; (2) random search on every instance."""
    from explore import shrink
    if getattr(ctx, "irq_failures", None):
        f = ctx.irq_failures[0]
        return {"instance": "SoCIRQHandler numbering", "input": f,
                "monitor": "interrupt numbers differ from the documented numbering (requested number free and < n_irqs, "
                           "else lowest free number)"}
    all_jobs = getattr(ctx, "jobs", None) or jobs(ctx.tier)
    cands = sorted([d for d in disagreements if getattr(d, "job", None) is not None], key=lambda d: len(d.trace))
    cands = [d for d in cands if not d.kind.startswith("monitor:")][:12] + [d for d in cands if d.kind.startswith("monitor:")]
    made = {}
    for d in cands:
        try:
            inst = made.get(d.job) or made.setdefault(d.job, all_jobs[d.job].make())
        except Exception:
            continue
        trace = [tuple(l) for l in d.trace]
        tail = []
        if isinstance(inst, L.EvInst):
            tail = [(0, inst.view.idle_adr(), 0, 0, 0)] * 2
        r = replay_with_monitor(inst, trace + tail)
        if r:
            t, msg = r
            small = shrink(inst, (trace + tail)[:t + 1])
            r2 = replay_with_monitor(inst, small)
            return {"instance": inst.name, "trace": [list(l) for l in small], "monitor": (r2 or r)[1],
                    "letter_format": FMT}
    return generic_search(ctx, disagreements, all_jobs, FMT)


# ---------------------------------------------------------------------------------------------------------
# probes

def stale_word_witness():
    """Two sources on a 1-bit CSR bus (so `pending` has two words; same structure as 9+ sources on an 8-bit bus).
    Software acknowledges source 1 with a whole-register write (word1 = 1, word0 = 0); later it acknowledges
    source 0 by writing only the committing word (word0 = 1).  `pending.r` still holds word1 = 1, so the event that
    source 1 raised in between is cleared although no one was written to its bit."""
    inst = L.EvInst(["p", "p"], 1, "big", disciplined=True)
    v = inst.view
    idle = v.idle_adr()
    w1, w0 = v.bus_adr(v.local_index(1, 1)), v.bus_adr(v.local_index(1, 0))
    trace = [(2, idle, 0, 0, 0),        # event on source 1
             (0, w1, 1, 1, 0),          # pending word1 := 1
             (0, w0, 1, 0, 0),          # pending word0 := 0  (commit) -> clears source 1
             (0, idle, 0, 0, 0),
             (3, idle, 0, 0, 0),        # events on sources 0 and 1
             (0, w0, 1, 1, 0),          # pending word0 := 1 only (commit)
             (0, idle, 0, 0, 0),
             (0, idle, 0, 0, 0)]
    return inst, trace


def gpio_change_witness():
    """GPIOIn(1 pad, with_irq) in Change mode: the pad changes in two consecutive cycles (a one-cycle glitch after
    the synchroniser) while software acknowledges an earlier event so that the clear lands in the second of those
    cycles.  The change pulse `in ^ in_d` stays high for two cycles = one rising edge for the EventSourceProcess, so
    the change that coincides with the clear is not retained.  Returns (lost, description)."""
    inst = mk_gpio(1, 8)
    v, n, core = inst.view, inst.netlist, inst.core
    ids = [id(c) for c in inst.top.bank.simple_csrs]
    mode = ids.index(id(core._mode.simple_csrs[0]))
    pend, idle = v.bus_adr(v.local_index(1, 0)), v.idle_adr()
    seq = [(0, mode, 1, 1), (0, idle, 0, 0), (1, idle, 0, 0)] + [(1, idle, 0, 0)] * 4 + \
          [(0, idle, 0, 0), (1, idle, 0, 0), (1, pend, 1, 1)] + [(1, idle, 0, 0)] * 4
    log = []
    for t, (pad, adr, we, dat) in enumerate(seq):
        inst.apply((t, pad, adr, we, dat, 0))
        inst.sample()
        o = inst.last_obs
        log.append((o["trig"][0], o["clear"][0], o["pend"][0]))
        n.tick()
    both = [t for t, (tr, cl, _) in enumerate(log) if tr and cl]
    lost = bool(both) and all(p == 0 for (_, _, p) in log[both[0] + 1:])
    return lost, ("GPIOIn change mode, pad 1->0->1 in consecutive cycles, clear in the second: (trigger, clear, "
                  "pending) per cycle = %s" % (log[7:],))


def probes(ctx):
    out = []
    # (1) multi-word pending, stale words: outside the accessor discipline (generated accessors always write every
    #     word); DESIGN §7.C15 lists it as the hypothesis of the `_partial` theorem, not as a finding -> note only.
    inst, trace = stale_word_witness()
    r = replay_with_monitor(inst, trace)
    ctx.cov.notes.append("%s: writing only the committing word of a multi-word pending register re-applies the stale "
                         "upper words of pending.r: %s" % (N_STALE, ("reproduces, cycle %d: %s" % r) if r else
                                                           "does not reproduce"))
    # (2) GPIO change mode (client logic, not the EventManager): listed as an open finding
    lost, what = gpio_change_witness()
    out.append((F_GPIO, lost, what))
    return out


def replay(ctx, payload):
    from explore import generic_replay
    fi = payload.get("failing_input") or {}
    name = fi.get("instance") or ""
    if name.endswith("/corpus"):
        for fname, case in corpus_cases():
            inst, _ = corpus_instance(case)
            if inst.name == name:
                r = replay_with_monitor(inst, [tuple(l) for l in fi.get("trace", [])])
                if r:
                    print("cycle %d: %s" % r)
                    print("VIOLATION property=%s replay=(replayed)" % ctx.prop)
                    return 1
                print("trace no longer violates the property on the current tree")
                return 0
    return generic_replay(ctx, payload, jobs("thorough"))
