"""C16 — packet framing: headers round-trip and packets are never interleaved or torn."""
import time
from explore import Job, run_jobs, Disagreement
import c16lib as L
from c16lib import bit_per_byte

FMT = "see lean/LitexModel/Packet/Num.lean (inputs in protocol order of the instance's machine)"

# header tables used by the small instances: name -> (byte, offset, width)
H1 = {"a": (0, 0, 8)}
H2 = {"a": (0, 0, 16)}
H2S = {"a": (0, 0, 8), "b": (1, 0, 8)}
H3 = {"a": (0, 0, 8), "b": (1, 0, 16)}
H4 = {"a": (0, 0, 16), "b": (2, 0, 16)}
H5 = {"a": (0, 0, 8), "b": (1, 0, 32)}
TEST_HDR = {"field_8b": (0, 0, 8), "field_16b": (1, 0, 16), "field_32b": (3, 0, 32), "field_64b": (7, 0, 64),
            "field_128b": (15, 0, 128)}


def hvals(fields, H, picks):
    """Header field-value tuples whose encoded header bytes follow the given byte patterns (bit 0 of each byte),
    for un-swapped reading of the table (enough to make every header byte toggle independently)."""
    names = sorted(fields)
    out = []
    for pat in picks:
        sig = sum(((pat >> k) & 1) << (8 * k) for k in range(H))
        vals = []
        for k in names:
            b, o, w = fields[k]
            vals.append((sig >> (8 * b + o)) & ((1 << w) - 1))
        out.append(tuple(vals))
    return out


def small_grid(tier):
    """(B, H, fields, swap, header byte patterns)"""
    quick = tier == "quick"
    g = [
        (1, 1, H1, False, (0, 1)),
        (1, 2, H2, True, (1, 2)),
        (1, 3, H3, True, (1, 6) if quick else (1, 6, 3, 4)),
        (2, 2, H2S, False, (1, 2)),
        (2, 4, H4, True, (1, 14) if quick else (1, 14, 6, 9)),
        (2, 1, H1, False, (0, 1)),                       # header shorter than a beat (W = 0)
        (2, 3, H3, True, (1, 6) if quick else (1, 6, 3, 4)),   # W = 1, leftover 1
        (2, 5, H5, True, (5, 26) if quick else (5, 26, 9, 18)),  # W = 2, leftover 1
    ]
    if not quick:
        g += [(3, 4, H4, False, (1, 14, 6, 9)), (3, 2, H2, False, (1, 2)), (3, 8, {"a": (0, 0, 64)}, True, (0x35, 0xca)),
              (4, 6, {"a": (0, 0, 16), "b": (2, 0, 32)}, True, (0x15, 0x2a))]
    return g


def jobs(tier):
    quick = tier == "quick"
    J = []
    mx = 40000 if quick else 1500000
    A = lambda mk, **kw: J.append(Job("A", mk, max_states=kw.pop("max_states", mx), **kw))
    B = lambda mk, **kw: J.append(Job("B", mk, cycles=kw.pop("cycles", 3000 if quick else 30000),
                                      runs=kw.pop("runs", 1 if quick else 4), **kw))
    # ---- Packetizer / Depacketizer / round trip, exhaustive on small instances ---------------------------
    for (Bb, H, f, sw, pats) in small_grid(tier):
        dv = bit_per_byte(Bb)
        hv = hvals(f, H, pats)
        tag = "dw%d/H%d" % (8 * Bb, H)
        A(lambda Bb=Bb, H=H, f=f, sw=sw, dv=dv, hv=hv, tag=tag:
          L.packetizer_inst("Packetizer/" + tag, Bb, H, f, sw, dv, hv))
        A(lambda Bb=Bb, H=H, f=f, sw=sw, dv=dv, tag=tag:
          L.depacketizer_inst("Depacketizer/" + tag, Bb, H, f, sw, dv))
        A(lambda Bb=Bb, H=H, f=f, sw=sw, dv=dv, hv=hv, tag=tag:
          L.pkdpk_inst("Packetizer>Depacketizer/" + tag, Bb, H, f, sw, dv[:2] if Bb == 1 else [dv[1], dv[2]], hv[:2]))
    # ---- PacketFIFO ---------------------------------------------------------------------------------------
    # tokens (data, param, last).  T4 distinguishes data, param and last; T2 exercises the occupancy logic only
    # (every stored word of a deeper FIFO multiplies the implementation states by the number of token values)
    T4 = [(0, 0, 0), (1, 1, 0), (0, 1, 1), (1, 0, 1)]
    T2 = [(0, 0, 0), (1, 1, 1)]
    A(lambda: L.packetfifo_inst("PacketFIFO(2)", 2, tokens=T4))
    A(lambda: L.packetfifo_inst("PacketFIFO(3)/T2", 3, tokens=T2))
    A(lambda: L.packetfifo_inst("PacketFIFO(4,param_depth=1)/T2", 4, 1, tokens=T2))
    if not quick:
        A(lambda: L.packetfifo_inst("PacketFIFO(2)/alltokens", 2))
        A(lambda: L.packetfifo_inst("PacketFIFO(3)", 3, tokens=T4))
        A(lambda: L.packetfifo_inst("PacketFIFO(4)/T2", 4, tokens=T2))
        A(lambda: L.packetfifo_inst("PacketFIFO(3,param_depth=1)", 3, 1, tokens=T4))
    # ---- Arbiter / Dispatcher -----------------------------------------------------------------------------
    A(lambda: L.arbiter_inst("Arbiter(2)", 2))
    A(lambda: L.arbiter_inst("Arbiter(3)", 3))
    A(lambda: L.dispatcher_inst("Dispatcher(2)", 2))
    A(lambda: L.dispatcher_inst("Dispatcher(3)", 3))
    A(lambda: L.dispatcher_inst("Dispatcher(2,one_hot)", 2, one_hot=True))
    A(lambda: L.dispatcher_inst("Dispatcher(1,one_hot)", 1, one_hot=True))
    if not quick:
        A(lambda: L.arbiter_inst("Arbiter(4)", 4, data_values=(0,)))
        A(lambda: L.dispatcher_inst("Dispatcher(3,one_hot)", 3, one_hot=True))
        A(lambda: L.dispatcher_inst("Dispatcher(4)", 4))
    return J


def correspond(ctx):
    ctx.jobs = jobs(ctx.tier)
    dis, bad = run_jobs(ctx, ctx.jobs)
    return dis


def search(ctx, disagreements, proof_info):
    return None


def replay(ctx, payload):
    return 2
