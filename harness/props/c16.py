"""C16 — packet framing: headers round-trip and packets are never interleaved or torn.

Correspondence
  A  exhaustive co-exploration of small Packetizer / Depacketizer / Packetizer>Depacketizer / PacketFIFO /
     Arbiter / Dispatcher instances against the Lean machines (all letters incl. garbage while valid = 0,
     selector flips, contract-breaking producers: the model is faithful there too);
  B  random lock-step co-simulation of realistic sizes (the test suite's 31-byte header and random headers,
     data widths 8..128, packets of 1..127 beats) with the property monitors of c16lib armed;
  C  `Header.encode/decode` of random field tables executed on a Netlist against the Lean functions.
The B generators stay inside the region in which the property holds on the current tree; the regions in which
it does not are compared against the model without monitors (`with_monitor=False`) and probed separately.
"""
import os, json, random, time
from explore import Job, run_jobs, Disagreement, replay_with_monitor
import c16lib as L
import c16hdr
from c16lib import bit_per_byte

FMT = "letters/outputs in the port order documented in lean/LitexModel/Packet/Num.lean for the instance's machine"

# header tables used by the small instances: name -> (byte, offset, width)
H1 = {"a": (0, 0, 8)}
H2 = {"a": (0, 0, 16)}
H2S = {"a": (0, 0, 8), "b": (1, 0, 8)}
H3 = {"a": (0, 0, 8), "b": (1, 0, 16)}
H4 = {"a": (0, 0, 16), "b": (2, 0, 16)}
H5 = {"a": (0, 0, 8), "b": (1, 0, 32)}
TEST_HDR = {"field_8b": (0, 0, 8), "field_16b": (1, 0, 16), "field_32b": (3, 0, 32), "field_64b": (7, 0, 64),
            "field_128b": (15, 0, 128)}
ETH_LIKE = {"target_mac": (0, 0, 48), "sender_mac": (6, 0, 48), "ethernet_type": (12, 0, 16)}       # 14 bytes
IP_LIKE = {"ihl": (0, 0, 4), "version": (0, 4, 4), "total_length": (2, 0, 16), "identification": (4, 0, 16),
           "ttl": (8, 0, 8), "protocol": (9, 0, 8), "checksum": (10, 0, 16), "sender_ip": (12, 0, 32),
           "target_ip": (16, 0, 32)}                                                                  # 20 bytes


def hvals(fields, H, picks):
    """Header field-value tuples whose un-swapped header bytes follow the given bit patterns (bit 0 of each
    byte), so that header bytes toggle independently of each other."""
    names = sorted(fields)
    out = []
    for pat in picks:
        sig = sum(((pat >> k) & 1) << (8 * k) for k in range(H))
        out.append(tuple((sig >> (8 * fields[k][0] + fields[k][1])) & ((1 << fields[k][2]) - 1) for k in names))
    return out


def small_grid(tier):
    """(B, H, fields, swap, header byte patterns, composite in this tier)"""
    quick = tier == "quick"
    g = [
        (1, 1, H1, False, (0, 1), True),
        (1, 2, H2, True, (1, 2), True),
        (1, 3, H3, True, (1, 6) if quick else (1, 6, 3, 4), True),
        (2, 2, H2S, False, (1, 2), True),
        (2, 4, H4, True, (1, 14) if quick else (1, 14, 6, 9), True),
        (2, 1, H1, False, (0, 1), True),                                  # header shorter than a beat (W = 0)
        (2, 3, H3, True, (1, 6) if quick else (1, 6, 3, 4), True),        # W = 1, leftover 1
        (2, 5, H5, True, (5, 26) if quick else (5, 26, 9, 18), not quick),  # W = 2, leftover 1
    ]
    if not quick:
        g += [(3, 4, H4, False, (1, 14, 6, 9), True), (3, 2, H2, False, (1, 2), True),
              (3, 8, {"a": (0, 0, 64)}, True, (0x35, 0xca), False),
              (4, 6, {"a": (0, 0, 16), "b": (2, 0, 32)}, True, (0x15, 0x2a), False)]
    return g


def rand_header(rng, H):
    """A random non-overlapping field table over H bytes (whole-byte or sub-byte fields), swap random."""
    fields = {}
    pos = 0
    k = 0
    swap = rng.random() < 0.6
    while pos < 8 * H and k < 8:
        if rng.random() < 0.2:
            pos += rng.choice((1, 3, 8))
            continue
        if pos % 8 == 0 and rng.random() < 0.7:
            w = 8 * rng.randint(1, max(1, min(8, H - pos // 8)))
        else:
            w = rng.randint(1, 8 - pos % 8)
        if pos + w > 8 * H:
            break
        fields["f%02d" % k] = (pos // 8, pos % 8, w)
        pos += w
        k += 1
    if not fields:
        fields["f00"] = (0, 0, 8)
    return fields, swap


def b_grid(tier, seed):
    """Realistic parameterisations for mode B: (tag, B, H, fields, swap)."""
    rng = random.Random(9000 + seed)
    g = [("test_packet.py", Bb, 31, TEST_HDR, True) for Bb in (1, 4, 8, 16)]
    g += [("eth", 4, 14, ETH_LIKE, True), ("ip", 8, 20, IP_LIKE, True), ("ip", 4, 20, IP_LIKE, True)]
    # corners: no byte swap on a wide bus, 24-bit bus, header of exactly one 128-bit beat, long header on 8 bit
    g += [("test_packet.py/noswap", 8, 31, TEST_HDR, False), ("one-beat-header", 16, 16, {"a": (0, 0, 128)}, True)]
    f, sw = rand_header(rng, 7)
    g.append(("dw24", 3, 7, f, sw))
    f, sw = rand_header(rng, 40)
    g.append(("long", 1, 40, f, sw))
    nrand = 4 if tier == "quick" else 16
    for _ in range(nrand):
        Bb = rng.choice((1, 2, 3, 4, 5, 8, 16))
        H = rng.randint(Bb, 40)                  # H >= B: the FSMs need at least one header word
        f, sw = rand_header(rng, H)
        g.append(("random", Bb, H, f, sw))
    return g


def jobs(tier, seed=0):
    quick = tier == "quick"
    J = []
    mx = 40000 if quick else 1500000
    A = lambda mk, **kw: J.append(Job("A", mk, max_states=kw.pop("max_states", mx), **kw))
    B = lambda mk, **kw: J.append(Job("B", mk, cycles=kw.pop("cycles", 2500 if quick else 25000),
                                      runs=kw.pop("runs", 1 if quick else 3), **kw))
    # ---- Packetizer / Depacketizer / round trip, exhaustive on small instances ---------------------------
    for (Bb, H, f, sw, pats, comp) in small_grid(tier):
        dv = bit_per_byte(Bb)
        hv = hvals(f, H, pats)
        tag = "dw%d/H%d" % (8 * Bb, H)
        A(lambda Bb=Bb, H=H, f=f, sw=sw, dv=dv, hv=hv, tag=tag:
          L.packetizer_inst("Packetizer/" + tag, Bb, H, f, sw, dv, hv))
        A(lambda Bb=Bb, H=H, f=f, sw=sw, dv=dv, tag=tag:
          L.depacketizer_inst("Depacketizer/" + tag, Bb, H, f, sw, dv))
        if comp:
            # quick tier: unaligned composites see only two different beats on an invalid sink (state blow-up of
            # the two sink_d registers); the full garbage alphabet runs in the thorough tier
            ig = not (quick and H % Bb != 0 and H > Bb)
            A(lambda Bb=Bb, H=H, f=f, sw=sw, dv=dv, hv=hv, tag=tag, ig=ig:
              L.pkdpk_inst("Packetizer>Depacketizer/" + tag, Bb, H, f, sw, dv[:2] if Bb == 1 else [dv[1], dv[2]],
                           hv[:2], idle_garbage=ig))
    # ---- the optional `error` field: combinational pass-through beside the FSM (both endpoints have it), or a
    #      source-only field that stays 0
    dv1, dv2 = bit_per_byte(1), bit_per_byte(2)
    A(lambda: L.packetizer_inst("Packetizer/dw8/H1/error", 1, 1, H1, False, dv1, hvals(H1, 1, (0, 1)), error="both"))
    A(lambda: L.packetizer_inst("Packetizer/dw16/H3/error", 2, 3, H3, True, dv2[:2], hvals(H3, 3, (1, 6)),
                                error="both"))
    A(lambda: L.depacketizer_inst("Depacketizer/dw16/H3/error", 2, 3, H3, True, dv2[:3], error="both"))
    A(lambda: L.packetizer_inst("Packetizer/dw8/H2/error on source only", 1, 2, H2, True, dv1,
                                hvals(H2, 2, (1, 2)), error="source"))
    A(lambda: L.depacketizer_inst("Depacketizer/dw8/H2/error on source only", 1, 2, H2, True, dv1, error="source"))
    B(lambda: L.packetizer_inst("Packetizer/eth/dw32/H14/error", 4, 14, ETH_LIKE, True, garbage="hold", min_len=2,
                                max_len=12, alphabet=False, error="both"))
    B(lambda: L.depacketizer_inst("Depacketizer/eth/dw32/H14/error", 4, 14, ETH_LIKE, True, alphabet=False,
                                  garbage="random", max_len=3 + 2 + 12, error="both"))
    # ---- PacketFIFO ---------------------------------------------------------------------------------------
    # tokens (data, param, last).  T4 distinguishes data, param and last; T2 exercises the occupancy logic only
    # (every stored word of a deeper FIFO multiplies the implementation states by the number of token values)
    OV = 2200 if quick else 23000      # over-long packets (which block the FIFO for good) only at the end of a run
    T4 = [(0, 0, 0), (1, 1, 0), (0, 1, 1), (1, 0, 1)]
    T2 = [(0, 0, 0), (1, 1, 1)]
    T3 = [(0, 0, 0), (1, 0, 1), (0, 1, 1)]
    A(lambda: L.packetfifo_inst("PacketFIFO(2)", 2, tokens=T3 if quick else T4, legacy=True))
    A(lambda: L.packetfifo_inst("PacketFIFO(2)/all-depths model", 2, tokens=T2 if quick else T4))
    A(lambda: L.packetfifo_inst("PacketFIFO(3)/T2", 3, tokens=T2))
    A(lambda: L.packetfifo_inst("PacketFIFO(4,param_depth=1)/T2", 4, 1, tokens=T2))
    A(lambda: L.packetfifo_inst("PacketFIFO(2,buffered)", 2, buffered=True, tokens=T2 if quick else T3, legacy=True))
    A(lambda: L.packetfifo_inst("PacketFIFO(2,buffered)/all-depths model", 2, buffered=True, tokens=T2))
    # depths below 2: stream.SyncFIFO builds a PipeValid register (1) or a wire (0), `buffered` is ignored there
    A(lambda: L.packetfifo_inst("PacketFIFO(1)", 1, tokens=T4))
    A(lambda: L.packetfifo_inst("PacketFIFO(1,param_depth=0)", 1, 0, tokens=T4))
    A(lambda: L.packetfifo_inst("PacketFIFO(1,buffered)", 1, buffered=True, tokens=T3))
    A(lambda: L.packetfifo_inst("PacketFIFO(1,param_depth=2,buffered)/T2", 1, 2, buffered=True, tokens=T2))
    A(lambda: L.packetfifo_inst("PacketFIFO(2,param_depth=0)", 2, 0, tokens=T3))
    A(lambda: L.packetfifo_inst("PacketFIFO(0)", 0, tokens=T3))
    # layout without params: the `dummy` param path of the constructor
    A(lambda: L.packetfifo_inst("PacketFIFO(2)/no params", 2, tokens=[(0, 0, 0), (1, 0, 0), (0, 0, 1), (1, 0, 1)],
                                noparam=True))
    B(lambda: L.packetfifo_inst("PacketFIFO(5,buffered)/no params/8b", 5, buffered=True, dwid=8, alphabet=False,
                                overlong_from=OV, noparam=True))
    A(lambda: L.packetfifo_inst("PacketFIFO(0,buffered)", 0, buffered=True, tokens=T3))
    # buffered payload FIFO + PipeValid param queue (fixed finding C16-packetfifo-buffered-param-depth0)
    A(lambda: L.packetfifo_inst("PacketFIFO(2,param_depth=0,buffered)", 2, 0, buffered=True, tokens=T3))
    A(lambda: L.packetfifo_inst("PacketFIFO(3,param_depth=1,buffered)/T2", 3, 1, buffered=True, tokens=T2))
    B(lambda: L.packetfifo_inst("PacketFIFO(8,buffered)/8b", 8, buffered=True, dwid=8, pwid=8, alphabet=False,
                                overlong_from=OV))
    if not quick:
        B(lambda: L.packetfifo_inst("PacketFIFO(16,2,buffered)/8b", 16, 2, buffered=True, dwid=8, pwid=8,
                                    alphabet=False, overlong_from=OV))
        A(lambda: L.packetfifo_inst("PacketFIFO(2)/alltokens", 2))
        A(lambda: L.packetfifo_inst("PacketFIFO(3)", 3, tokens=T4))
        A(lambda: L.packetfifo_inst("PacketFIFO(4)/T2", 4, tokens=T2))
        A(lambda: L.packetfifo_inst("PacketFIFO(3,param_depth=1)", 3, 1, tokens=T4))
    fgrid = ((8, None, 8, False), (16, 2, 8, False), (5, 5, 64, False), (7, 3, 8, True), (3, 9, 128, False),
             (6, 1, 33, True), (1, None, 8, False), (1, 0, 64, True), (5, 0, 8, False), (1, 4, 8, True))
    if not quick:
        fgrid += ((64, None, 8, False), (32, 3, 8, False), (9, 2, 8, True), (2, 1, 64, False), (12, 20, 8, True),
                  (1, 0, 8, False), (1, 7, 33, False), (13, 0, 8, False), (0, 3, 8, False), (0, 0, 8, True))
    for (pd, qd, wid, buf) in fgrid:
        B(lambda pd=pd, qd=qd, wid=wid, buf=buf:
          L.packetfifo_inst("PacketFIFO(%d,%s%s)/%db" % (pd, qd, ",buffered" if buf else "", wid), pd, qd,
                            buffered=buf, dwid=wid, pwid=wid, alphabet=False, overlong_from=OV))
    # fixed finding C16-packetfifo-buffered-param-depth0: param queue faster than the payload output register
    for (pd, qd, wid) in ((4, 0, 8),) if quick else ((4, 0, 8), (2, 0, 64), (7, 0, 8)):
        B(lambda pd=pd, qd=qd, wid=wid:
          L.packetfifo_inst("PacketFIFO(%d,%d,buffered)/%db" % (pd, qd, wid), pd, qd, buffered=True,
                            dwid=wid, pwid=wid, alphabet=False, overlong_from=OV))
    # ---- Arbiter / Dispatcher (payload = data | first << dwid) -----------------------------------------------
    A(lambda: L.arbiter_inst("Arbiter(2)", 2))
    A(lambda: L.arbiter_inst("Arbiter(3)", 3, payload_values=(0, 3)))
    A(lambda: L.arbiter_inst("Arbiter(1)/plain connect", 1))            # constructor glue: masters.pop().connect
    A(lambda: L.dispatcher_inst("Dispatcher(2)", 2))
    A(lambda: L.dispatcher_inst("Dispatcher(3)", 3, payload_values=(0, 3)))
    A(lambda: L.dispatcher_inst("Dispatcher(2,one_hot)", 2, one_hot=True))
    A(lambda: L.dispatcher_inst("Dispatcher(3,one_hot)", 3, one_hot=True, payload_values=(0, 3)))
    A(lambda: L.dispatcher_inst("Dispatcher(1,one_hot)", 1, one_hot=True))
    A(lambda: L.dispatcher_inst("Dispatcher(1)/plain connect", 1))      # constructor glue: master.connect(slave)
    A(lambda: L.arbiter_inst("Arbiter(0)/nothing connected", 0))        # constructor glue: `pass`
    A(lambda: L.dispatcher_inst("Dispatcher(0)/nothing connected", 0))  # constructor glue: only `sel` exists
    A(lambda: L.dispatcher_inst("Dispatcher(0,one_hot)/nothing connected", 0, one_hot=True))
    if not quick:
        A(lambda: L.arbiter_inst("Arbiter(3)/allpayloads", 3))
        A(lambda: L.arbiter_inst("Arbiter(4)", 4, payload_values=(0, 3)))
        A(lambda: L.dispatcher_inst("Dispatcher(4)", 4, payload_values=(0, 3)))
        A(lambda: L.dispatcher_inst("Dispatcher(4,one_hot)", 4, one_hot=True, payload_values=(0, 3)))
        A(lambda: L.dispatcher_inst("Dispatcher(5)", 5, payload_values=(0, 3)))
    # port counts incl. non powers of two, narrow and wide (> 32 bit) payloads
    for (n, dwid) in ((3, 8), (4, 64), (5, 8), (7, 128)) if quick else ((2, 8), (3, 8), (4, 64), (5, 8), (6, 33), (7, 128), (9, 8)):
        B(lambda n=n, dwid=dwid: L.arbiter_inst("Arbiter(%d)/%db" % (n, dwid), n, dwid=dwid, alphabet=False))
        B(lambda n=n, dwid=dwid: L.dispatcher_inst("Dispatcher(%d)/%db" % (n, dwid), n, dwid=dwid, alphabet=False))
        B(lambda n=n, dwid=dwid: L.dispatcher_inst("Dispatcher(%d,one_hot)/%db" % (n, dwid), n, one_hot=True,
                                                   dwid=dwid, alphabet=False))
    # ---- realistic Packetizer / Depacketizer / round trip, monitors armed ---------------------------------
    for (tag, Bb, H, f, sw) in b_grid(tier, seed):
        un = H % Bb != 0
        name = "%s/dw%d/H%d" % (tag, 8 * Bb, H)
        mn = 2 if un else 1           # unaligned: single-beat packets are a known-finding region (probed)
        gb = "hold" if un else "random"   # unaligned: garbage on an invalid sink is a known-finding region (probed)
        mxl = 127 if tag == "test_packet.py" and not quick else 24
        B(lambda Bb=Bb, H=H, f=f, sw=sw, name=name, mn=mn, gb=gb, mxl=mxl:
          L.packetizer_inst("Packetizer/" + name, Bb, H, f, sw, garbage=gb, min_len=mn, max_len=mxl, alphabet=False))
        B(lambda Bb=Bb, H=H, f=f, sw=sw, name=name, mxl=mxl:
          L.depacketizer_inst("Depacketizer/" + name, Bb, H, f, sw, alphabet=False, garbage="random",
                              max_len=(8 * H) // (8 * Bb) + 2 + mxl))
        B(lambda Bb=Bb, H=H, f=f, sw=sw, name=name, mn=mn, gb=gb, mxl=mxl:
          L.pkdpk_inst("Packetizer>Depacketizer/" + name, Bb, H, f, sw, garbage=gb, min_len=mn, max_len=mxl,
                       alphabet=False))
    # ---- the regions in which the property fails on the current tree: model comparison only ----------------
    for (Bb, H, f, sw) in ((4, 14, ETH_LIKE, True), (8, 20, IP_LIKE, True), (8, 3, H3, True)):
        name = "defect-region/dw%d/H%d" % (8 * Bb, H)
        B(lambda Bb=Bb, H=H, f=f, sw=sw, name=name:
          L.packetizer_inst("Packetizer/" + name, Bb, H, f, sw, garbage="random", min_len=1, max_len=4,
                            alphabet=False), with_monitor=False)
        B(lambda Bb=Bb, H=H, f=f, sw=sw, name=name:
          L.depacketizer_inst("Depacketizer/" + name, Bb, H, f, sw, alphabet=False, garbage="random",
                              min_len=1, max_len=(8 * H) // (8 * Bb) + 4), with_monitor=False)
    return J


# -------------------------------------------------------------------------------------------------------------
# C: Header.encode / Header.decode against the Lean functions (and the round-trip / layout oracle)

def _enc_dec_modules(hs):
    from migen import Module, Signal, Record
    layout = [(k, w) for k, (_, _, w) in zip(hs.names, hs.table)]

    class Enc(Module):
        def __init__(self):
            self.obj = Record(layout)
            self.sig = Signal(8 * hs.length)
            self.comb += hs.header.encode(self.obj, self.sig)

    class Dec(Module):
        def __init__(self):
            self.obj = Record(layout)
            self.sig = Signal(8 * hs.length)
            self.comb += hs.header.decode(self.sig, self.obj)
    return Enc(), Dec()


def real_encode_decode(hs, vals_list, sigs):
    """Run the real Header.encode on every value vector and the real Header.decode on every signal value."""
    from netlist import Netlist
    enc, dec = _enc_dec_modules(hs)
    ne, nd = Netlist(enc), Netlist(dec)
    encoded = []
    for vals in vals_list:
        for k, v in zip(hs.names, vals):
            ne.set(getattr(enc.obj, k), v)
        ne.settle()
        encoded.append(ne.getu(enc.sig))
    decoded = []
    for s in sigs:
        nd.set(dec.sig, s)
        nd.settle()
        decoded.append([nd.getu(getattr(dec.obj, k)) for k in hs.names])
    return encoded, decoded


def rand_table(rng, allow_overlap):
    H = rng.choice((1, 2, 3, 4, 6, 8, 14, 20, 31)) if rng.random() < 0.7 else rng.randint(1, 40)
    if not allow_overlap:
        f, sw = rand_header(rng, H)
        if rng.random() < 0.3:      # also fields that straddle bytes / odd widths
            k = len(f)
            used = max((8 * b + o + w for (b, o, w) in f.values()), default=0)
            if used + 3 <= 8 * H:
                w = rng.randint(1, min(24, 8 * H - used))
                f["g%02d" % k] = (used // 8, used % 8, w)
        return f, H, sw
    f = {}
    for k in range(rng.randint(1, 5)):
        w = rng.randint(1, min(8 * H, 40))
        st = rng.randint(0, 8 * H - w)
        f["f%02d" % k] = (st // 8, st % 8, w)
    return f, H, rng.random() < 0.5


def header_tie(ctx, ntables):
    dis = []
    rng = ctx.rng
    ncases = 0
    nontriv = 0
    tables = [(TEST_HDR, 31, True), (TEST_HDR, 31, False), (ETH_LIKE, 14, True), (IP_LIKE, 20, True),
              ({"a": (0, 0, 12)}, 2, True), ({"a": (0, 3, 20)}, 3, True)]
    while len(tables) < ntables:
        tables.append(rand_table(rng, allow_overlap=rng.random() < 0.25))
    for (f, H, sw) in tables:
        hs = L.HdrSpec(f, H, sw)
        mx = hs.max_vals()
        vals_list = [[0] * len(mx), list(mx)] + [[rng.choice((0, m, rng.randint(0, m), 1 << rng.randrange(m.bit_length())))
                                                  for m in mx] for _ in range(6)]
        sigs = [0, (1 << (8 * H)) - 1] + [rng.getrandbits(8 * H) for _ in range(6)]
        try:
            enc, dec = real_encode_decode(hs, vals_list, sigs)
        except Exception as e:      # a changed Header may fail to elaborate: report it with the table at hand
            dis.append({"kind": "header-exception", "fields": f, "length": H, "swap": sw,
                        "what": "Header.encode/decode raised %s: %s" % (type(e).__name__, e)})
            continue
        la = hs.lean_args()
        reqs = ["encode %s %s" % (la, " ".join(map(str, v))) for v in vals_list] + \
               ["decode %s %d" % (la, s) for s in sigs]
        ans = ctx.lean.call_batch(reqs)
        for k, v in enumerate(vals_list):
            ncases += 1
            nontriv += 1 if any(v) else 0
            if ans[k] != str(enc[k]):
                dis.append({"kind": "header-encode", "fields": f, "length": H, "swap": sw, "values": v,
                            "impl": enc[k], "model": ans[k]})
            ref = hs.ref_encode(v)
            if ref is not None and ref != L.to_bytes(enc[k], H):
                dis.append({"kind": "monitor:header layout", "fields": f, "length": H, "swap": sw, "values": v,
                            "impl_bytes": L.to_bytes(enc[k], H), "prescribed_bytes": ref})
        for k, s in enumerate(sigs):
            ncases += 1
            nontriv += 1 if s else 0
            if ans[len(vals_list) + k].split() != [str(x) for x in dec[k]]:
                dis.append({"kind": "header-decode", "fields": f, "length": H, "swap": sw, "signal": s,
                            "impl": dec[k], "model": ans[len(vals_list) + k]})
        # round trip on the real code (property oracle) inside the region where it is claimed
        if hs.swappable() and hs.disjoint():
            _, back = real_encode_decode(hs, [], enc)
            for v, b in zip(vals_list, back):
                if list(v) != list(b):
                    dis.append({"kind": "monitor:header round trip", "fields": f, "length": H, "swap": sw,
                                "values": v, "decoded": b})
        ctx.cov.count("header_tables")
        ctx.cov.count("header_tables_swap" if sw else "header_tables_noswap")
        if not hs.disjoint():
            ctx.cov.count("header_tables_overlapping")
        if not hs.swappable():
            ctx.cov.count("header_tables_odd_width_swapped")
        if len(dis) > 5:
            break
    ctx.cov.add_cases("Header.encode/decode (random field tables)", ncases, nontriv, exhaustive=False)
    if tables:
        f, H, sw = tables[-1]
        ctx.cov.samples.append({"instance": "Header", "mode": "C", "fields": f, "length": H, "swap": sw})
    return dis


ASSUMPTIONS = [
    "Packetizer / round-trip theorems: the producer obeys the stream contract (a beat offered and not accepted is "
    "offered again unchanged); nothing is assumed about source.ready or about the lines while valid = 0",
    "aligned headers (H % B = 0): Packetizer / Depacketizer / round trip proved for every data width and header "
    "length; unaligned headers with H >= B: proved under UOk2 (no single-beat packets; in a pause with "
    "source.ready = 1 strictly inside a packet the `last` line is low and the top H%B data bytes are held) and "
    "udWellFormed2 (no `last` on the final header beat or on the residue beat) - exactly the regions of the open "
    "findings; H < B excluded (finding C16-header-shorter-than-beat)",
    "header_roundtrip needs non-overlapping fields inside the header length and, with swap_field_bytes, field "
    "widths <= 8 or multiples of 8 (finding C16-header-swap-odd-width); overlapping tables and fields beyond the "
    "length are modelled (encodeL/decodeL), characterised by theorems (last writer wins, clipped fields) and tied; "
    "the _lsb/_msb name convention and the width check of Header.get_field are modelled and tied",
    "PacketFIFO is modelled for every payload_depth / param_depth (wire, PipeValid register, SyncFIFO, "
    "SyncFIFOBuffered) and follows the fixed code (source.valid = param valid & payload valid, fixed finding "
    "C16-packetfifo-buffered-param-depth0): atomicity holds for every combination; Arbiter / Dispatcher for every port "
    "count incl. 0 and 1 (plain Endpoint.connect) as the constructors build them",
    "the optional `error` payload field of Packetizer / Depacketizer is a combinational pass-through (modelled as "
    "a wrapper of the port encoding, compared exhaustively on small instances)",
]


def correspond(ctx):
    ctx.assumptions = ASSUMPTIONS
    dis = []
    for d in corpus_replay(ctx):
        dis.append(d)
    dis += header_tie(ctx, 120 if ctx.tier == "quick" else 1200)
    # ill-formed tables (fields beyond the header length, overlaps) and the _lsb/_msb convention of get_field
    dis += c16hdr.header_clip_tie(ctx, 80 if ctx.tier == "quick" else 1000)
    ctx.jobs = jobs(ctx.tier, ctx.seed)
    d2, bad = run_jobs(ctx, ctx.jobs)
    # every mode-A instance is sized to be explored completely on the unchanged tree: an exploration that does
    # not finish means the implementation's state space has changed (or it never settles)
    names_bad = {d.inst_name for d in d2}
    for inst in ctx.cov.instances:
        if inst.get("mode") == "A" and not inst.get("exhaustive") and inst["instance"] not in names_bad:
            dis.append({"kind": "exploration-not-exhaustive", "instance": inst["instance"],
                        "states": inst.get("states"), "note": "state limit or deadline hit before the reachable "
                        "product of implementation and model was covered"})
    return dis + d2


# -------------------------------------------------------------------------------------------------------------
# corpus: witnesses that must keep passing (fixed findings) — replayed first

def corpus_dir():
    return os.path.join(os.path.dirname(os.path.dirname(os.path.dirname(os.path.abspath(__file__)))), "corpus", "C16")


def load_corpus():
    out = []
    d = corpus_dir()
    if os.path.isdir(d):
        for fn in sorted(os.listdir(d)):
            if fn.endswith(".json"):
                out.append((fn, json.load(open(os.path.join(d, fn)))))
    return out


def build_named(spec):
    """Build an instance from a corpus/probe description {'kind':…, …}."""
    k = spec["kind"]
    if k == "packetfifo":
        return L.packetfifo_inst(spec.get("name", "PacketFIFO"), spec["pd"], spec.get("qd"),
                                 buffered=spec.get("buffered", False), dwid=spec.get("dwid", 8),
                                 pwid=spec.get("pwid", 8), alphabet=False)
    f = {n: tuple(v) for n, v in spec.get("fields", {}).items()}
    if k == "packetizer":
        return L.packetizer_inst(spec.get("name", "Packetizer"), spec["B"], spec["H"], f, spec["swap"], alphabet=False)
    if k == "depacketizer":
        return L.depacketizer_inst(spec.get("name", "Depacketizer"), spec["B"], spec["H"], f, spec["swap"], alphabet=False)
    if k == "pkdpk":
        return L.pkdpk_inst(spec.get("name", "Packetizer>Depacketizer"), spec["B"], spec["H"], f, spec["swap"],
                            alphabet=False)
    if k == "arbiter":
        return L.arbiter_inst(spec.get("name", "Arbiter"), spec["n"], dwid=spec.get("dwid", 8), alphabet=False)
    if k == "dispatcher":
        return L.dispatcher_inst(spec.get("name", "Dispatcher"), spec["m"], one_hot=spec.get("one_hot", False),
                                 dwid=spec.get("dwid", 8), alphabet=False)
    raise KeyError(k)


def corpus_replay(ctx):
    """Corpus traces: the monitor must stay silent (entries with expect == 'pass') and the model must agree."""
    from explore import impl_step, _masked_equal
    out = []
    for fn, c in load_corpus():
        if c.get("expect") != "pass":
            continue
        inst = build_named(c["instance"])
        trace = [tuple(l) for l in c["trace"]]
        r = replay_with_monitor(inst, trace)
        if r:
            out.append(Disagreement(inst, trace[:r[0] + 1], r[0], None, None, kind="monitor:" + r[1]))
            continue
        # model agreement along the trace
        n = inst.netlist
        root = n.snapshot()
        impl = [impl_step(inst, l) for l in trace]
        n.restore(root)
        ctx.lean.open(inst.lean_open)
        model = ctx.lean.run(trace)
        ctx.lean.close_session()
        for t in range(len(trace)):
            if not _masked_equal(inst, impl[t], model[t]):
                out.append(Disagreement(inst, trace[:t + 1], t, impl[t], model[t]))
                break
        ctx.cov.add_instance("corpus:" + fn, states=0, transitions=len(trace),
                             nontrivial=sum(1 for l, o in zip(trace, impl) if inst.nontrivial(l, o)),
                             exhaustive=False, mode="corpus")
    return out


# -------------------------------------------------------------------------------------------------------------
# probes: witnesses of the fixed finding and of the regions excluded by the `_partial` theorems

def _run_trace(inst, trace):
    return replay_with_monitor(inst, [tuple(l) for l in trace])


def probe_packetfifo_param_dup():
    """Fixed finding C16-packetfifo-param-dup: payload FIFO full exactly at a last beat, consumer stalled."""
    inst = L.packetfifo_inst("PacketFIFO(2)/probe", 2, dwid=8, pwid=8, alphabet=False)
    #        v  data  param last ready
    trace = [(1, 0x11, 0xa1, 0, 0), (1, 0x12, 0xa1, 1, 0),        # packet A (2 beats) fills the payload FIFO
             (1, 0x21, 0xb2, 1, 0), (1, 0x21, 0xb2, 1, 0), (1, 0x21, 0xb2, 1, 0),   # B's last beat stalled 3 cycles
             (1, 0x21, 0xb2, 1, 1), (1, 0x21, 0xb2, 1, 1), (1, 0x21, 0xb2, 1, 1),
             (0, 0, 0, 0, 1), (0, 0, 0, 0, 1), (0, 0, 0, 0, 1), (0, 0, 0, 0, 1)]
    r = _run_trace(inst, trace)
    return r


def probe_packetfifo_buffered_param_depth0():
    """Fixed finding C16-packetfifo-buffered-param-depth0: PacketFIFO(payload_depth >= 2, param_depth = 0,
    buffered=True) - the param queue is a PipeValid register (readable one cycle after the push), the payload
    queue a SyncFIFOBuffered (readable two cycles after).  Before the fix source.valid followed the param queue
    alone and a beat that was never accepted (stale payload output register) was delivered; the fix is
    source.valid = param valid & payload valid."""
    inst = L.packetfifo_inst("PacketFIFO(2,0,buffered)/probe", 2, 0, buffered=True, dwid=8, pwid=8, alphabet=False)
    #        v  data  param last ready
    trace = [(1, 107, 48, 1, 1), (0, 0, 0, 0, 1), (0, 0, 0, 0, 1), (1, 21, 9, 0, 1), (1, 22, 9, 1, 1),
             (0, 0, 0, 0, 0), (0, 0, 0, 0, 1), (0, 0, 0, 0, 1), (0, 0, 0, 0, 1), (0, 0, 0, 0, 1)]
    return _run_trace(inst, trace)


def probe_single_beat_unaligned():
    inst = L.packetizer_inst("Packetizer/dw16/H3/probe", 2, 3, H3, False, alphabet=False)
    #        v  data   last a     b      ready
    beat = (1, 0x2211, 1, 0xa1, 0xc3b2, 1)
    return _run_trace(inst, [beat] * 8)


def probe_header_shorter_than_beat():
    inst = L.packetizer_inst("Packetizer/dw16/H1/probe", 2, 1, H1, False, alphabet=False)
    return _run_trace(inst, [(1, 0x2211, 0, 0xa1, 1)] * 4 + [(1, 0x4433, 1, 0xa1, 1)] * 8)


def probe_stale_last():
    inst = L.packetizer_inst("Packetizer/dw16/H3/probe", 2, 3, H3, False, alphabet=False)
    hdr = (0xa1, 0xc3b2)
    tr = [(1, 0x2211, 0) + hdr + (1,)] * 3           # header word, first copy beat (beat accepted in the 3rd cycle)
    tr += [(0, 0x9999, 1) + hdr + (1,)]              # bubble with `last` high while valid = 0
    tr += [(1, 0x4433, 0) + hdr + (1,), (1, 0x6655, 1) + hdr + (1,), (0, 0, 0) + hdr + (1,), (0, 0, 0) + hdr + (1,)]
    return _run_trace(inst, tr)


def probe_depacketizer_residue_end():
    inst = L.depacketizer_inst("Depacketizer/dw16/H3/probe", 2, 3, H3, False, alphabet=False)
    mon = ResidueEndOracle()
    from explore import impl_step
    n = inst.netlist
    root = n.snapshot()
    a = [(1, 0xb2a1, 0, 1), (1, 0x11c3, 1, 1)]                                   # header + 1 payload byte
    b = [(1, 0xe2d1, 0, 1), (1, 0x21f3, 0, 1), (1, 0x4332, 0, 1), (1, 0x0044, 1, 1)]
    res = None
    for t, l in enumerate(a + b + [(0, 0, 0, 1)] * 3):
        o = impl_step(inst, l)
        m = mon.observe(l, o)
        if m:
            res = (t, m)
            break
    n.restore(root)
    return res


class ResidueEndOracle:
    """After a packet that ends inside the residue beat, the next packet must still be delivered with its own
    header (fields a = byte 0, b = bytes 1..2 of its first three bytes)."""
    def __init__(self):
        self.beats = []
        self.npk = 0

    def observe(self, letter, outs):
        v, d, l, r = letter
        if v and outs[0]:
            self.beats.append((d, l))
        if outs[1] and r:
            a, b = outs[4], outs[5]
            if (a, b) not in ((0xa1, 0xc3b2), (0xd1, 0xf3e2)):
                return "delivered header a=0x%x b=0x%x belongs to no packet sent (next packet's first beat swallowed)" % (a, b)
        return None


def probe_swap_odd_width():
    hs = L.HdrSpec({"f": (0, 0, 12)}, 2, True)
    enc, _ = real_encode_decode(hs, [[0xdef]], [])
    _, dec = real_encode_decode(hs, [], enc)
    if dec[0] != [0xdef]:
        return (0, "encode(0xdef) = 0x%x decodes to 0x%x" % (enc[0], dec[0][0]))
    return None


PROBES = [
    ("C16-packetfifo-param-dup", probe_packetfifo_param_dup,
     "PacketFIFO: last beat stalled on a full payload FIFO"),
    ("C16-packetizer-unaligned-single-beat", probe_single_beat_unaligned,
     "Packetizer, header not a multiple of the data width: single-beat packet is torn and re-sent forever"),
    ("C16-header-shorter-than-beat", probe_header_shorter_than_beat,
     "Packetizer/Depacketizer with header shorter than one beat never leave the header state"),
    ("C16-packetizer-unaligned-bubble", probe_stale_last,
     "Packetizer, unaligned header: sink_d samples an invalid sink beat (its data replaces the carried residue "
     "bytes, its `last` terminates the packet)"),
    ("C16-depacketizer-residue-end", probe_depacketizer_residue_end,
     "Depacketizer, unaligned header: packet ending inside the residue beat swallows the next packet's first beat"),
    ("C16-packetfifo-buffered-param-depth0", probe_packetfifo_buffered_param_depth0,
     "PacketFIFO(buffered=True, payload_depth >= 2, param_depth = 0): source.valid must wait for the payload output "
     "register (before the fix a beat that was never accepted was delivered)"),
    ("C16-header-swap-odd-width", probe_swap_odd_width,
     "Header with swap_field_bytes: field wider than 8 bits and not a whole number of bytes does not round-trip"),
]


def probes(ctx):
    out = []
    listed = {e.get("id") for e in ctx.known}
    for fid, fn, what in PROBES:
        try:
            r = fn()
        except Exception as e:      # a probe that cannot even be driven counts as failing
            r = (0, "probe raised %s: %s" % (type(e).__name__, e))
        fails = r is not None
        if fails and fid not in listed:
            # reported to the coordinator; until it is listed (or fixed) the witness is recorded as a note only
            ctx.cov.notes.append("unlisted deviation %s still reproduces: %s (%s)" % (fid, what, r[1]))
            ctx.log("NOTE unlisted deviation %s reproduces: %s" % (fid, r[1]))
            continue
        out.append((fid, fails, what + (": " + r[1] if r else "")))
    return out


# -------------------------------------------------------------------------------------------------------------
# failing-input search (closed loop, monitors armed) and replay

def search(ctx, disagreements, proof_info):
    for d in disagreements:
        if isinstance(d, dict) and d.get("kind", "").startswith("monitor:"):
            return {"instance": "Header", "input": d, "monitor": d["kind"][8:]}
    for d in disagreements:
        if not isinstance(d, dict) and getattr(d, "kind", "").startswith("monitor:"):
            return {"instance": d.inst_name, "job": d.job, "trace": [list(l) for l in d.trace],
                    "monitor": d.kind[8:], "letter_format": FMT}
    deadline = time.time() + (60 if ctx.tier == "quick" else 600)
    all_jobs = getattr(ctx, "jobs", None) or jobs(ctx.tier, ctx.seed)
    by_job = {}
    for d in disagreements:
        if not isinstance(d, dict):
            by_job.setdefault(d.job, []).append(d)
    order = [j for j in by_job if j is not None] + [j for j in range(len(all_jobs)) if j not in by_job]
    for j in order:
        if time.time() > deadline:
            break
        job = all_jobs[j]
        if job.kw.get("with_monitor") is False:
            continue
        inst = job.make()
        if getattr(inst, "defect_region", False):
            continue
        # 1. the disagreement traces themselves
        for d in by_job.get(j, []):
            r = replay_with_monitor(inst, [tuple(l) for l in d.trace])
            if r:
                return {"instance": inst.name, "job": j, "trace": [list(l) for l in d.trace[:r[0] + 1]],
                        "monitor": r[1], "letter_format": FMT}
        # 2. closed-loop random runs (contract-abiding producers) with the monitor armed
        for k in range(6 if j in by_job else 2):
            if time.time() > deadline:
                break
            trace, r = L.closed_loop_run(inst, ctx.rng, 1500 if j in by_job else 400)
            if r:
                return {"instance": inst.name, "job": j, "trace": [list(l) for l in trace[:r[0] + 1]],
                        "monitor": r[1], "letter_format": FMT}
    # 3. header round trip / layout oracle on fresh tables
    hd = [d for d in header_tie(ctx, 200) if d.get("kind", "").startswith("monitor:")]
    if hd:
        return {"instance": "Header", "input": hd[0], "monitor": hd[0]["kind"][8:]}
    return None


def replay(ctx, payload):
    fi = payload.get("failing_input") or {}
    if not fi:
        print("replay file carries no failing input (no-failing-input-found); disagreements were:")
        for d in payload.get("disagreements", [])[:3]:
            print("  ", d)
        return 1
    if fi.get("instance") == "Header" and "record" in fi.get("input", {}):
        msgs = c16hdr.replay_clip(fi["input"])
        for m in msgs:
            print("monitor:", m)
        if msgs:
            print("VIOLATION property=C16 replay=(replayed)")
            return 1
        print("input no longer violates the property on the current tree")
        return 0
    if fi.get("instance") == "Header":
        d = fi["input"]
        hs = L.HdrSpec({k: tuple(v) for k, v in d["fields"].items()}, d["length"], d["swap"])
        enc, _ = real_encode_decode(hs, [d["values"]], [])
        _, dec = real_encode_decode(hs, [], enc)
        ref = hs.ref_encode(d["values"])
        bad = (ref is not None and ref != L.to_bytes(enc[0], hs.length)) or \
              (hs.swappable() and hs.disjoint() and list(dec[0]) != list(d["values"]))
        print("encode ->", hex(enc[0]), "decode ->", dec[0], "prescribed bytes", ref)
        if bad:
            print("VIOLATION property=C16 replay=(replayed)")
            return 1
        print("input no longer violates the property on the current tree")
        return 0
    all_jobs = jobs(payload.get("tier", "quick"), payload.get("seed", 0))
    j = fi.get("job")
    cands = [all_jobs[j]] if j is not None and j < len(all_jobs) else all_jobs
    for job in cands:
        inst = job.make()
        if inst.name != fi.get("instance"):
            continue
        r = replay_with_monitor(inst, [tuple(l) for l in fi["trace"]])
        if r:
            print("cycle %d: %s" % r)
            print("VIOLATION property=C16 replay=(replayed)")
            return 1
        print("trace no longer violates the property on the current tree")
        return 0
    print("instance %r not found" % fi.get("instance"))
    return 2
