"""C10 — AXI bursts are expanded and resized according to the AXI address rules."""
import time
import c10lib
from c10lib import (Job, run_jobs, B2BInst, ConvArith, ConvE2E, LanePathInst, SideInst, B2BUserE2E, FIXED, INCR, WRAP, RESERVED,
                    spec_addr, legal, burst_bytes, eff_burst)
from explore import Disagreement, generic_search, search_failing_input

ALL = (FIXED, INCR, WRAP)
FMT = B2BInst.FMT + " || data paths: " + LanePathInst.FMT + " || +sideband instances: resp, id, user, dest inserted after ready"


def b2b_box_jobs(quick):
    """Mode A on AXIBurst2Beat alone, 12-bit addresses: ALL (addr low 7 bits, len 0..15, size 0..3, burst type)
    requests under all ready letters, sharded by (burst, size)."""
    J = []
    ids = [1, 2]
    for bt in (FIXED, INCR, WRAP, RESERVED):
        for size in range(4):
            box = dict(addr=list(range(128)), len=list(range(16)), size=[size], burst=[bt], id=ids)
            J.append(Job("D", lambda box=box, bt=bt, size=size: B2BInst(
                "Burst2Beat/aw12/all-caps/burst%d/size%d" % (bt, size), aw=12, caps=ALL, box=box)))
    # addresses next to the top of the address space (offset arithmetic wraps at 2^aw), and reduced capabilities
    hi = [0xF80 + a for a in range(0, 128, 4)] + [0xFFF, 0xFFD]
    box = dict(addr=hi, len=[0, 1, 3, 7, 15], size=[0, 2, 3], burst=[INCR, WRAP], id=ids)
    J.append(Job("D", lambda box=box: B2BInst("Burst2Beat/aw12/all-caps/top-of-space", aw=12, caps=ALL, box=box)))
    if not quick:
        # large transfer sizes and long bursts (thorough only)
        for size in (4, 5, 6, 7):
            addrs = sorted(set(list(range(0, 4096, 1 << size)) + [1, 0x7FF, 0xFFF, (1 << size) + 3]))
            if len(addrs) > 80:
                addrs = addrs[::len(addrs) // 64] + addrs[-3:]
            box = dict(addr=addrs, len=[0, 1, 2, 3, 7, 15, 31], size=[size], burst=[FIXED, INCR, WRAP], id=ids)
            J.append(Job("D", lambda box=box, size=size: B2BInst("Burst2Beat/aw12/all-caps/large/size%d" % size,
                                                                 aw=12, caps=ALL, box=box)))
        box = dict(addr=[0, 1, 0x10, 0x800, 0xF00, 0xFFF], len=[63, 64, 127, 128, 254, 255], size=[0, 1, 2, 3, 4],
                   burst=[FIXED, INCR, WRAP], id=ids)
        J.append(Job("D", lambda box=box: B2BInst("Burst2Beat/aw12/all-caps/long", aw=12, caps=ALL, box=box)))
    small = dict(addr=list(range(16)), len=list(range(6)), size=[0, 1, 2], burst=[FIXED, INCR, WRAP, RESERVED], id=ids)
    for caps, nm in (((FIXED,), "fixed-only"), ((FIXED, INCR), "fixed+incr"), ((FIXED, WRAP), "fixed+wrap")):
        J.append(Job("D", lambda caps=caps, nm=nm: B2BInst("Burst2Beat/aw12/%s" % nm, aw=12, caps=caps, box=small)))
    return J


def b2b_random_jobs(quick):
    J = []
    cyc = 6000 if quick else 60000
    runs = 1 if quick else 3
    J.append(Job("B", lambda: B2BInst("Burst2Beat/aw32/legal", aw=32, caps=ALL, legal_only=True, id_width=4),
                 cycles=cyc, runs=runs))
    J.append(Job("B", lambda: B2BInst("Burst2Beat/aw64/legal", aw=64, caps=ALL, legal_only=True, id_width=4),
                 cycles=cyc, runs=runs))
    J.append(Job("B", lambda: B2BInst("Burst2Beat/aw32/any", aw=32, caps=ALL, id_width=4), cycles=cyc, runs=runs))
    J.append(Job("B", lambda: B2BInst("Burst2Beat/aw16/fixed+incr/legal", aw=16, caps=(FIXED, INCR), legal_only=True),
                 cycles=cyc // 2, runs=runs))
    J.append(Job("B", lambda: B2BInst("Burst2Beat/aw13/fixed+wrap/legal", aw=13, caps=(FIXED, WRAP), legal_only=True,
                                      id_width=1), cycles=cyc // 2, runs=runs))
    J.append(Job("B", lambda: B2BInst("Burst2Beat/aw32/open-loop", aw=32, caps=ALL, hold=False, id_width=4),
                 cycles=cyc // 2, runs=runs))
    J.append(Job("B", lambda: B2BInst("Burst2Beat/aw32/axi3-ports/any", aw=32, caps=ALL, id_width=4, version="axi3"),
                 cycles=cyc // 2, runs=runs))
    return J


def lane_jobs(quick):
    J = []
    ms = 20000 if quick else 400000
    # exhaustive on the smallest legal AXI widths (8 -> 16, 8 -> 32), two lane values that toggle every bit
    for conv, a, b in (("up", 8, 16), ("down", 16, 8), ("up", 8, 32), ("down", 32, 8)):
        for ch in ("w", "r"):
            if quick and (max(a, b) == 32) and ((conv == "up") == (ch == "w")):
                continue     # ratio-4 up direction has 2^4 stale-lane memories: thorough only
            J.append(Job("A", lambda conv=conv, a=a, b=b, ch=ch: LanePathInst(
                "AXI%sConverter(%d->%d)/%s" % (conv.capitalize(), a, b, ch), conv, ch, a, b), max_states=ms))
    cyc = 3000 if quick else 30000
    for conv, a, b, via in (("up", 32, 64, "direct"), ("down", 64, 32, "AXIConverter"), ("up", 32, 128, "AXIConverter"),
                            ("down", 128, 32, "direct"), ("up", 64, 128, "direct"), ("down", 128, 64, "direct"),
                            ("up", 8, 64, "direct"), ("down", 256, 32, "AXIConverter")) + (
            () if quick else (("up", 32, 256, "direct"), ("down", 1024, 128, "direct"), ("up", 128, 1024, "AXIConverter"))):
        for ch in ("w", "r"):
            J.append(Job("B", lambda conv=conv, a=a, b=b, ch=ch, via=via: LanePathInst(
                c10lib.conv_name(conv, a, b, None, via) + "/" + ch, conv, ch, a, b, via=via), cycles=cyc, runs=1))
    return J


def side_jobs(quick):
    """Data channels together with their side-band ports resp/id/user/dest (model: LitexModel/Axi/WidthConvSide.lean):
    exhaustive on 8<->16, random lock-step on realistic widths; the registered R side-band of AXIDownConverter in every
    tier on two ratios."""
    J = []
    for conv, ch, a, b in (("down", "r", 16, 8), ("up", "w", 8, 16), ("down", "w", 16, 8), ("up", "r", 8, 16)):
        J.append(Job("A", lambda conv=conv, ch=ch, a=a, b=b: SideInst(
            "AXI%sConverter(%d->%d)/%s+sideband" % (conv.capitalize(), a, b, ch), conv, ch, a, b),
            max_states=20000 if quick else 400000))
    cyc = 1200 if quick else 20000
    grid = (("down", "r", 64, 32, "direct"), ("down", "r", 128, 32, "AXIConverter"), ("up", "w", 32, 64, "AXIConverter"),
            ("down", "w", 64, 32, "direct"), ("up", "r", 32, 128, "direct"))
    if not quick:
        grid += (("down", "r", 256, 32, "direct"), ("up", "w", 32, 256, "direct"), ("down", "w", 128, 32, "AXIConverter"),
                 ("up", "r", 64, 128, "AXIConverter"))
    for conv, ch, a, b, via in grid:
        J.append(Job("B", lambda conv=conv, ch=ch, a=a, b=b, via=via: SideInst(
            c10lib.conv_name(conv, a, b, None, via) + "/" + ch + "+sideband", conv, ch, a, b, via=via), cycles=cyc, runs=1))
    return J


B2B_USERS = (("axi2axilite", 32), ("axi2wishbone", 32), ("axi2axilite", 64))
B2B_USERS_THOROUGH = (("axi2wishbone", 64), ("axi2axilite", 128), ("axi2axilite", 8))


def user_jobs(quick):
    """Every in-tree instantiation of AXIBurst2Beat (AXI2AXILite; AXI2Wishbone through it) in front of a real SRAM:
    capability set vs Lean `userCaps`, FIXED/INCR/WRAP bursts of all legal lengths and sizes end to end."""
    return [Job("E", lambda u=u, dw=dw: B2BUserE2E(u, dw), label="%s(dw=%d)+SRAM/burst-types" % (u, dw))
            for (u, dw) in B2B_USERS + (() if quick else B2B_USERS_THOROUGH)]


def user_by_name(name):
    for (u, dw) in B2B_USERS + B2B_USERS_THOROUGH:
        e = B2BUserE2E(u, dw)
        if e.name == name:
            return e
    return None


def jobs(tier):
    quick = tier == "quick"
    # longest jobs first (the pool hands them out in order)
    return (b2b_box_jobs(quick) + conv_jobs(quick) + b2b_random_jobs(quick) + lane_jobs(quick) + side_jobs(quick) +
            user_jobs(quick))


# (kind, dw_from, dw_to, options).  Ratios 2/4/8 in both directions, widths up to 1024 bits, instances built through
# the AXIConverter selection glue, the identity case of that glue, and differing address widths on the two sides.
CONVS = (("up", 32, 64, {}), ("up", 64, 128, {"via": "AXIConverter"}), ("up", 32, 128, {}), ("up", 32, 256, {"via": "AXIConverter"}),
         ("down", 64, 32, {}), ("down", 128, 64, {"via": "AXIConverter"}), ("down", 128, 32, {}), ("down", 256, 32, {"via": "AXIConverter"}),
         ("down", 256, 64, {}), ("up", 8, 64, {}), ("down", 1024, 512, {"via": "AXIConverter"}), ("up", 512, 1024, {}),
         ("same", 64, 64, {"via": "AXIConverter"}), ("up", 32, 64, {"aw_to": 40}), ("down", 128, 32, {"aw_to": 40}))
E2E = (("up", 32, 64, {}), ("up", 32, 128, {"via": "AXIConverter"}), ("down", 64, 32, {"via": "AXIConverter"}),
       ("down", 128, 32, {}), ("down", 256, 32, {}), ("up", 16, 128, {}))
E2E_THOROUGH = (("up", 64, 128, {}), ("down", 128, 64, {}), ("up", 32, 256, {}), ("down", 256, 64, {"via": "AXIConverter"}),
                ("down", 64, 8, {}), ("up", 8, 16, {"via": "AXIConverter"}))


def conv_translate(ca, d):
    """Re-run the translation recorded in a disagreement / failing-input dict (channel, idle-channel garbage or
    concurrent other request)."""
    ch = d.get("channel", "aw")
    req = tuple(d["request"])
    if d.get("concurrent") and d.get("other"):
        pair = ca.impl2(req, tuple(d["other"])) if ch == "aw" else ca.impl2(tuple(d["other"]), req)
        return pair[0] if ch == "aw" else pair[1]
    return ca.impl(req, ch, d.get("other"))


def conv_by_name(name):
    for (kind, a, b, o) in CONVS:
        ca = ConvArith(kind, a, b, **o)
        if ca.name == name:
            return ca
    return None


def e2e_by_name(name):
    for (kind, a, b, o) in E2E + E2E_THOROUGH:
        e = ConvE2E(kind, a, b, **o)
        if e.name == name:
            return e
    return None


def conv_jobs(quick):
    J = [Job("C", lambda kind=kind, a=a, b=b, o=o: ConvArith(kind, a, b, **o),
             label=c10lib.conv_name(kind, a, b, o.get("aw_to"), o.get("via", "direct")) + "/ax") for (kind, a, b, o) in CONVS]
    for (kind, a, b, o) in E2E + (() if quick else E2E_THOROUGH):
        J.append(Job("E", lambda kind=kind, a=a, b=b, o=o: ConvE2E(kind, a, b, **o),
                     label=c10lib.conv_name(kind, a, b, None, o.get("via", "direct")) + "/end-to-end"))
    return J


def spec_crosscheck(ctx):
    """The Lean `axiSpecAddr`/`Legal`/`burstBytes` (what the theorems are stated against) vs the independent
    Python transcription of A3.4.1."""
    rng = ctx.rng
    reqs = []
    for bt in (FIXED, INCR, WRAP):
        for size in range(4):
            for ln in (0, 1, 2, 3, 7, 15):
                for a in range(0, 64, 1 if size < 2 else 3):
                    reqs.append((a + 0xF00 * (a % 2), ln, size, bt))
    for _ in range(300):
        reqs.append((rng.randrange(1 << 32), rng.randrange(256), rng.randrange(8), rng.randrange(3)))
    lines, exp = [], []
    for (a, ln, size, bt) in reqs:
        ks = sorted(set([0, 1, ln // 2, ln]))
        for k in ks:
            if k <= ln:
                lines.append("spec %d %d %d %d %d" % (a, ln, size, bt, k))
                exp.append(str(spec_addr(a, ln, size, bt, k)))
        lines.append("legal 32 %d %d %d %d" % (a, ln, size, bt))
        exp.append(str(int(legal(32, a, ln, size, bt))))
        if (ln + 1) << size <= 256:
            lines.append("bytes %d %d %d %d" % (a, ln, size, bt))
            exp.append(" ".join(map(str, burst_bytes(a, ln, size, bt))))
    ans = ctx.lean.call_batch(lines)
    dis = []
    for l, a, e in zip(lines, ans, exp):
        if a.strip() != e and len(dis) < 3:
            dis.append({"instance": "A3.4.1 transcription", "kind": "spec-crosscheck", "call": l,
                        "lean": a[:200], "python": e[:200]})
    ctx.cov.add_cases("A3.4.1: Lean axiSpecAddr/Legal/burstBytes vs Python oracle", len(lines), len(lines))
    return dis


def run_corpus(ctx):
    """corpus/C10/*.json first: past disagreement / finding / mutation witnesses, model vs real code in lock-step
    (and the property monitor for the Burst2Beat traces)."""
    import os, glob, json
    from explore import impl_step, _masked_equal
    dis = []
    n = 0
    for path in sorted(glob.glob(os.path.join(os.path.dirname(os.path.dirname(os.path.dirname(
            os.path.abspath(__file__)))), "corpus", "C10", "*.json"))):
        w = json.load(open(path))
        tag = "corpus/" + os.path.basename(path)
        if w["kind"] == "b2b-trace":
            inst = B2BInst(tag, aw=w["aw"], caps=tuple(w["caps"]))
            mon = inst.monitor()
            trace = [tuple(l) for l in w["trace"]]
            outs = []
            monmsg = None
            for t, letter in enumerate(trace):
                o = impl_step(inst, letter)
                outs.append(o)
                m = mon.observe(letter, o)
                if m and monmsg is None:
                    monmsg = (t, m)
            ctx.lean.open(inst.lean_open)
            mouts = ctx.lean.run(trace)
            ctx.lean.close_session()
            for t in range(len(trace)):
                if not _masked_equal(inst, outs[t], mouts[t]):
                    d = Disagreement(None, trace[:t + 1], t, outs[t], mouts[t])
                    d.inst_name, d.lean_open = tag, inst.lean_open
                    dis.append(d)
                    break
            if monmsg:
                d = Disagreement(None, trace[:monmsg[0] + 1], monmsg[0], outs[monmsg[0]], None, kind="monitor:" + monmsg[1])
                d.inst_name, d.lean_open = tag, inst.lean_open
                dis.append(d)
            n += len(trace)
        elif w["kind"] == "conv-arith":
            for (kind, a, b, req) in w["cases"]:
                ca = ConvArith(kind, a, b)
                want = tuple(int(x) for x in ctx.lean.call_batch([ca.lean_line(tuple(req))])[0].split())
                for ch in ("aw", "ar"):
                    got = ca.impl(tuple(req), ch)
                    if got != want:
                        dis.append({"instance": tag + ":" + ca.name, "kind": "conv-arith", "channel": ch,
                                    "request": list(req), "impl": list(got), "model": list(want)})
                    m = ca.oracle(tuple(req), got)
                    if m:
                        dis.append({"instance": ca.name, "kind": "monitor:" + m, "channel": ch, "request": list(req),
                                    "forwarded": list(got), "monitor": m})
                    n += 1
    ctx.cov.add_cases("corpus/C10 (witness traces and requests)", n, n)
    return dis


def constants_check(ctx):
    """The burst-type encodings of axi_common.py against the ones the model (`BURST_*` in Burst2Beat.lean) and the
    oracle use."""
    from litex.soc.interconnect.axi import axi_common as ac
    have = (ac.BURST_FIXED, ac.BURST_INCR, ac.BURST_WRAP, ac.BURST_RESERVED)
    ctx.cov.add_cases("axi_common burst encodings", 4, 4, exhaustive=True)
    if have != (FIXED, INCR, WRAP, RESERVED):
        return [{"instance": "axi_common", "kind": "constants", "impl": list(have), "model": [FIXED, INCR, WRAP, RESERVED]}]
    return []


def correspond(ctx):
    ctx.jobs = jobs(ctx.tier)
    ctx.assumptions = [
        "AXIBurst2Beat theorems are about the module driven by a protocol-legal AXI master (ax_burst.valid and the "
        "request lines held until the handshake) - the master is part of the compared model `sys`; the bare module is "
        "also compared open-loop with arbitrary inputs (instance Burst2Beat/aw32/open-loop)",
        "b2b theorems: address width >= 12 and every offered burst legal per A3.4.1 (Legal); illegal bursts are "
        "modelled and compared but not covered by the theorems",
        "w_beats_down assumes the stream producer contract (Held) on the wide side",
        "converter byte-preservation is proved only inside the regions of upconv_arith_partial / downconv_arith_partial; "
        "outside them the four C10 known findings apply",
        "end-to-end byte theorems (upconv/downconv_write_e2e_partial, upconv_read_e2e_partial): full-width INCR bursts; "
        "down-converter: any start address, master strobes low below the start address (A3.4.3); the byte-level model "
        "(burstWrites, upWords/downWords) is compared with the Python byte oracle and with the real W/R beats on every "
        "end-to-end burst (also WRAP and single-transfer domains, which have address-level theorems only)",
        "downR_sideband_unstalled_partial assumes the wide R beat is taken in the first cycle it is offered (NoStall); "
        "with a stall the side-band register of AXIDownConverter follows the narrow side's lines (modelled, compared, "
        "Lean negative witness; reported as an observation outside the C10 statement)",
    ]
    ctx.extra_trusted = [
        "harness/c10lib.py: Python transcription of AMBA AXI A3.4.1 used by the monitors, cross-checked against the "
        "Lean axiSpecAddr/Legal/burstBytes (the definitions the theorems are stated against) on every run",
        "data-channel model shared with C03 (LitexModel/Stream/Conv.lean: upConv/downConv)",
    ]
    dis = []
    for part in (constants_check, run_corpus, lambda c: list(run_jobs(c, c.jobs)), spec_crosscheck):
        try:
            dis += part(ctx)
        except Exception as e:       # a changed implementation that cannot even be built/driven: report, go on
            import traceback
            dis.append({"instance": getattr(part, "__name__", "jobs"), "kind": "exception", "error": repr(e),
                        "traceback": traceback.format_exc()[-1500:]})
            try:
                ctx.lean.quit()
            except Exception:
                pass
            from leanproc import LeanDriver
            ctx.lean = LeanDriver(ctx.prop)
    ctx.c10_all_dis = list(dis)
    ctx.cov.notes.append("mode A on AXIBurst2Beat uses a state-dependent alphabet: all requests of the box are offered "
                         "in the clean idle state, only beat.ready varies while the master holds a request; idle states "
                         "with a stale offset (reachable only after an illegal burst) get a reduced request alphabet")
    return dis


def search(ctx, disagreements, proof_info):
    """Failing-input search with the model-independent oracles."""
    # the runner hands over only the machine-style Disagreement objects; the dict-style ones (converter arithmetic,
    # oracle hits, exceptions) were kept by correspond()
    disagreements = list(getattr(ctx, "c10_all_dis", [])) or list(disagreements)
    deadline = time.time() + (60 if ctx.tier == "quick" else 600)
    # 1. converters: the byte-set oracle fired during the arithmetic differential
    for d in disagreements:
        if isinstance(d, dict) and d.get("kind", "").startswith("monitor:") and (
                "request" in d or d.get("passthrough") or "e2e" in d or "b2buser" in d):
            return d
    # 1b. converters whose arithmetic disagrees with the model: sweep the byte-preserving region with the oracle
    import random
    for d in disagreements:
        if isinstance(d, dict) and d.get("kind") == "conv-arith":
            for ca in [conv_by_name(d["instance"].split(":")[-1])]:
                if ca is None:
                    continue
                got = conv_translate(ca, d)
                m = ca.oracle(tuple(d["request"]), got)
                if m:
                    return {"instance": ca.name, "channel": d.get("channel", "aw"), "request": d["request"],
                            "other": d.get("other"), "concurrent": d.get("concurrent", False),
                            "forwarded": list(got), "monitor": m}
                rng = random.Random(ctx.seed + 17)
                prev = None
                for r in c10lib.conv_supported_requests(rng, ca, 4000):
                    for ch in ("aw", "ar"):
                        for other in (None, prev, d.get("other")):
                            got = ca.impl(r, ch, other)
                            m = ca.oracle(r, got)
                            if m:
                                return {"instance": ca.name, "channel": ch, "request": list(r),
                                        "other": list(other) if other else None, "forwarded": list(got), "monitor": m}
                    prev = (r[0] ^ 0x1234, (r[1] * 7 + 3) & 0xff, rng.randrange(8), rng.randrange(4))
    # 2. Burst2Beat: isolate the burst that was being served when a monitor fired / the model disagreed and
    #    replay it alone from reset under three ready schedules with the monitor armed (short witness)
    machine_dis = [d for d in disagreements if isinstance(d, Disagreement)]
    all_jobs = getattr(ctx, "jobs", None) or jobs(ctx.tier)
    scheds = [lambda t: 1, lambda t: t % 2, lambda t: int(t % 3 == 2)]
    b2b_dis = [d for d in machine_dis if (d.inst_name or "").startswith("Burst2Beat") and d.job is not None]
    for d in b2b_dis[:6]:
        try:
            inst = all_jobs[d.job].make()
        except Exception:
            continue
        if not inst.hold:
            continue
        root = inst.netlist.snapshot()
        cur = None
        for letter in d.trace:
            from explore import impl_step
            impl_step(inst, tuple(letter))
            if inst._cur[0]:
                cur = inst._cur[1]
        inst.netlist.restore(root)
        if cur is not None and legal(inst.aw, cur[0], cur[1], cur[2], eff_burst(inst.caps, cur[3])):
            r = c10lib.monitor_sweep(inst, [tuple(cur)], scheds)
            if r:
                trace, msg = r
                return {"instance": inst.name, "trace": [list(l) for l in trace], "monitor": msg, "letter_format": FMT}
    # 3. Burst2Beat: legal requests of the exhaustive box under three ready schedules, monitor armed
    if b2b_dis or proof_info.get("failed"):
        for caps in (ALL, (FIXED, INCR), (FIXED, WRAP), (FIXED,)):
            inst = B2BInst("Burst2Beat/aw12/caps=%s" % "".join(map(str, caps)), aw=12, caps=caps)
            reqs = [(a + base, ln, size, bt, 1 + (a & 1))
                    for bt in (WRAP, INCR, FIXED) for size in range(4) for ln in (0, 1, 2, 3, 7, 15)
                    for a in range(0, 128, 3 if caps == ALL else 7) for base in ((0, 0xF80) if caps == ALL else (0,))
                    if legal(12, a + base, ln, size, eff_burst(set(caps), bt))]
            r = c10lib.monitor_sweep(inst, reqs, scheds, deadline=deadline)
            if r:
                trace, msg = r
                return {"instance": inst.name, "trace": [list(l) for l in trace], "monitor": msg, "letter_format": FMT}
            if time.time() > deadline:
                break
    # 4. a monitor that fired during co-simulation (long trace), then random extension of disagreement traces
    for d in machine_dis:
        if getattr(d, "kind", "").startswith("monitor:"):
            return {"instance": d.inst_name, "trace": [list(l) for l in d.trace], "monitor": d.kind[8:],
                    "letter_format": FMT}
    found = generic_search(ctx, machine_dis, all_jobs, FMT, quick_s=40, thorough_s=300)
    if found:
        return found
    # 5. last resort: an instance of the property's parameter grid that can no longer be built or driven at all
    for d in disagreements:
        if isinstance(d, dict) and d.get("kind") == "exception" and "/" in str(d.get("instance", "")):
            return {"instance": d["instance"], "exception": True,
                    "monitor": "building/driving this instance of the unchanged parameter grid raised %s" % d.get("error")}
    return None


def probes(ctx):
    """Known findings replayed on the real code."""
    out = []
    # (1) AXIUpConverter 32 -> 64, one 32-bit beat at 0x4
    up = LanePathInst("probe-up", "up", "w", 32, 64)
    n = up.netlist
    f, t = up.axi_from, up.axi_to
    n.set(f.aw.valid, 1); n.set(f.aw.addr, 0x4); n.set(f.aw.len, 0); n.set(f.aw.size, 2); n.set(f.aw.burst, INCR)
    n.set(f.w.valid, 1); n.set(f.w.data, 0xdeadbeef); n.set(f.w.strb, 0xf); n.set(f.w.last, 1)
    n.set(t.w.ready, 1); n.set(t.aw.ready, 1)
    n.settle()
    aw = (n.getu(t.aw.addr), n.getu(t.aw.len), n.getu(t.aw.size))
    n.tick()
    n.set(f.w.valid, 0); n.settle()
    wv, strb, data = n.getu(t.w.valid), n.getu(t.w.strb), n.getu(t.w.data)
    base = (aw[0] >> 3) << 3
    written = sorted(base + i for i in range(8) if (strb >> i) & 1) if wv else []
    want = [4, 5, 6, 7]
    out.append(("C10-upconv-unaligned-single-beat", written != want,
                "AXIUpConverter 32->64: AW(0x4,len 0,size 2) + W(strb 0xf) forwarded as AW(0x%x,len %d,size %d) + "
                "W(strb 0x%02x): bytes %r written instead of %r" % (aw + (strb, written, want))))
    # (2) AXIDownConverter 64 -> 32, narrow burst len=1,size=2
    ca = ConvArith("down", 64, 32)
    got = ca.impl((0x100, 1, 2, INCR))
    want_b = burst_bytes(0x100, 1, 2, INCR)
    have_b = burst_bytes(*got)
    got1 = ca.impl((0xec, 0, 0, INCR), "ar")            # same region: single transfer narrower than the narrow bus
    miss = 0xec not in burst_bytes(*got1)
    out.append(("C10-downconv-narrow-burst", have_b != want_b or miss,
                "AXIDownConverter 64->32: AW(0x100,len 1,size 2) forwarded as AW(0x%x,len %d,size %d,burst %d): %d bytes "
                "instead of %d; AR(0xec,len 0,size 0) forwarded as AR(0x%x,len %d,size %d,burst %d): byte 0xec %s" % (
                    got + (len(have_b), len(want_b)) + got1 + ("never addressed" if miss else "addressed",))))
    # (3) AXIDownConverter 64 -> 32, FIXED burst with more than one beat is turned into an INCR burst
    got = ca.impl((0x100, 1, 3, FIXED))
    want_b = burst_bytes(0x100, 1, 3, FIXED)
    have_b = burst_bytes(*got)
    out.append(("C10-downconv-fixed-burst", have_b != want_b,
                "AXIDownConverter 64->32: FIXED AW(0x100,len 1,size 3) forwarded as AW(0x%x,len %d,size %d,burst %d): "
                "bytes 0x%x..0x%x instead of twice 0x100..0x107" % (got + (min(have_b), max(have_b)))))
    # (4) AXIDownConverter 64 -> 32, (len+1)*ratio > 256 is truncated to the 8-bit len port
    got = ca.impl((0x0, 128, 3, INCR))
    want_n = (128 + 1) * 8
    have_n = len(burst_bytes(*got))
    gotw = ca.impl((0x1108, 15, 3, WRAP))               # same region: WRAP forwarded with an illegal length
    badw = not legal(32, *gotw)
    out.append(("C10-downconv-len-overflow", have_n != want_n or badw,
                "AXIDownConverter 64->32: INCR AW(0x0,len 128,size 3) (%d bytes) forwarded as AW(0x%x,len %d,size %d,burst %d)"
                " (%d bytes); WRAP AW(0x1108,len 15,size 3) forwarded as AW(0x%x,len %d,size %d,burst %d) (%s)" % (
                    (want_n,) + got + (have_n,) + gotw + ("illegal WRAP length" if badw else "legal",))))
    return out


def replay(ctx, payload):
    def verdict(m, what):
        if m:
            print(m)
            print("VIOLATION property=%s replay=(replayed)" % ctx.prop)
            return 1
        print("%s no longer violates the property on the current tree" % what)
        return 0
    fi = payload.get("failing_input") or {}
    name = fi.get("instance", "")
    if "b2buser" in fi:           # burst(s) through a user of AXIBurst2Beat into its SRAM
        e = user_by_name(name)
        if e is None:
            print("instance %r not found" % name)
            return 2
        return verdict(e.run_history(fi.get("history") or [fi]), "burst")
    if "e2e" in fi:               # end-to-end burst(s) through a converter
        e = e2e_by_name(name)
        if e is None:
            print("instance %r not found" % name)
            return 2
        return verdict(e.run_history(fi.get("history") or [fi]), "burst")
    if fi.get("exception"):
        try:
            inst = (conv_by_name(name) if name.endswith("/ax") else e2e_by_name(name))
            if inst is None:
                for j in jobs("thorough"):
                    if j.label == name or j.label is None:
                        i2 = j.make()
                        if i2.name == name:
                            break
            return verdict(None, "instance")
        except Exception as e:
            return verdict("building %s raised %r" % (name, e), "instance")
    if fi.get("passthrough"):
        import random
        ca = conv_by_name(name)
        if ca is None:
            print("instance %r not found" % name)
            return 2
        rng = random.Random(1)
        return verdict(next((m for m in (ca.passthrough(rng) for _ in range(400)) if m), None), "pass-through")
    if "request" in fi:           # converter arithmetic
        ca = conv_by_name(name)
        if ca is None:
            print("instance %r not found" % name)
            return 2
        got = conv_translate(ca, fi)
        return verdict(ca.oracle(tuple(fi["request"]), got), "request")
    if name.startswith("Burst2Beat/aw12/caps=") or name.startswith("corpus/"):
        caps = tuple(int(c) for c in name.split("=")[1]) if "=" in name else ALL
        inst = B2BInst(name, aw=12, caps=caps)
        from explore import replay_with_monitor
        r = replay_with_monitor(inst, [tuple(l) for l in fi.get("trace", [])])
        return verdict("cycle %d: %s" % r if r else None, "trace")
    from explore import generic_replay
    return generic_replay(ctx, payload, jobs("thorough"))
