"""C17 — 8b/10b coding is invertible, DC-balanced and comma-safe (litex/soc/cores/code_8b10b.py)."""
import importlib
from explore import Job, run_jobs, generic_search, Disagreement
import c17lib

FMT = ("Encoder: ce, d0, k0, d1, k1, ... | Decoder: ce, input | Stream*: sink.valid, sink.data (d | k << 8n or "
       "10-bit words, word 0 lowest), sink.first, sink.last, source.ready")
FINDING_ID = "C17-stream-bubble-disparity"


def _mod():
    return importlib.import_module("litex.soc.cores.code_8b10b")


def regen(ctx):
    changed = c17lib.regen_tables(_mod())
    if changed:
        ctx.log("regen: lean/LitexModel/Generated/Tables8b10b.lean CHANGED (tables in the repository differ)")
    ctx.tables_changed = changed


# -- correspondence -------------------------------------------------------------------------------------------

class TableDisagreement:
    """A difference on one input of a finite function (mode C)."""
    def __init__(self, inst_name, inputs, impl, model, kind="correspondence"):
        self.inst_name, self.inputs, self.impl, self.model, self.kind = inst_name, inputs, impl, model, kind
        self.job = None
        self.trace = []

    def to_json(self):
        return {"instance": self.inst_name, "kind": self.kind, "inputs": self.inputs, "impl": self.impl,
                "model": self.model}


def exhaustive_functions(ctx):
    """The combinational SingleEncoder stage (all 2*2*256 inputs, K with undefined symbols included) and the
    Decoder (all 1024 inputs), msb- and lsb-first, against encode1/decode1 of the Lean model; plus the table-free
    reference encoder on the 268 symbols of the code."""
    mod = _mod()
    dis = []
    for lsb in (0, 1):
        enc = c17lib.real_encoder_map(mod, bool(lsb))
        keys = sorted(enc)
        ans = ctx.lean.call_batch(["enc1 %d %d %d %d" % (d, k, disp, lsb) for (d, k, disp) in keys])
        nbad = 0
        for key, a in zip(keys, ans):
            got = tuple(int(x) for x in a.split()) if a and a[0].isdigit() else a
            if got != enc[key]:
                nbad += 1
                if nbad <= 3:
                    dis.append(TableDisagreement("SingleEncoder(%s)" % ("lsb" if lsb else "msb"),
                                                 {"d": key[0], "k": key[1], "disp_in": key[2]},
                                                 list(enc[key]), got))
        ctx.cov.add_cases("SingleEncoder(%s) stage1+stage2 vs encode1" % ("lsb" if lsb else "msb"), len(keys),
                          len(keys), exhaustive=nbad == 0)
        if not lsb:
            ctx.real_enc = enc
            nref = 0
            for (d, k) in c17lib.VALID_SYMBOLS:
                for disp in (0, 1):
                    if enc[(d, k, disp)] != c17lib.ref_encode(d, k, disp):
                        nref += 1
                        if nref <= 3:
                            dis.append(TableDisagreement("SingleEncoder(msb) vs table-free reference encoder",
                                                         {"d": d, "k": k, "disp_in": disp}, list(enc[(d, k, disp)]),
                                                         list(c17lib.ref_encode(d, k, disp)), kind="reference"))
            ctx.cov.add_cases("SingleEncoder(msb) vs Widmer-Franaszek equations", 2 * len(c17lib.VALID_SYMBOLS),
                              2 * len(c17lib.VALID_SYMBOLS), exhaustive=nref == 0)
        dec = c17lib.real_decoder_map(mod, bool(lsb))
        ws = sorted(dec)
        ans = ctx.lean.call_batch(["dec1 %d %d" % (w, lsb) for w in ws])
        nbad = 0
        for w, a in zip(ws, ans):
            got = tuple(int(x) for x in a.split()) if a and a[0].isdigit() else a
            if got != dec[w]:
                nbad += 1
                if nbad <= 3:
                    dis.append(TableDisagreement("Decoder(%s)" % ("lsb" if lsb else "msb"), {"input": w},
                                                 list(dec[w]), got))
        ctx.cov.add_cases("Decoder(%s) vs decode1" % ("lsb" if lsb else "msb"), len(ws), len(ws),
                          exhaustive=nbad == 0)
        if not lsb:
            ctx.real_dec = dec
    sensitivity_self_test(ctx)
    ctx.cov.count("encoder inputs (d,k,disp) x format", 2048)
    ctx.cov.count("decoder inputs x format", 2048)
    return dis


def sensitivity_self_test(ctx):
    """The property oracles must fire on in-memory perturbations of the real code's maps (never on the real maps:
    that is checked by `search` only when something broke, and by the monitors during co-simulation)."""
    enc, dec = ctx.real_enc, ctx.real_dec
    e2 = dict(enc)
    e2[(3, 0, 0)] = (enc[(3, 0, 1)][0], 1)            # D3.0 under RD- emitted with its RD+ word
    r1 = c17lib.static_search(e2, dec)
    d2 = dict(dec)
    d2[enc[(0xBC, 1, 0)][0]] = (0xBC, 0, 0)           # K28.5 decoded without its control flag
    r2 = c17lib.static_search(enc, d2)
    e3 = dict(enc)
    e3[(0xF1, 0, 0)] = (0b1000111110, enc[(0xF1, 0, 0)][1])   # D17.7 without the alternate A7: false comma
    r3 = c17lib.static_search(e3, dec)
    kinds = [r and r["kind"] for r in (r1, r2, r3)]
    if kinds != ["sequence", "roundtrip", "sequence"] or "comma" not in r3["what"]:
        raise RuntimeError("C17 oracle sensitivity self-test failed: %r" % (kinds,))
    if c17lib.static_search(enc, dec) is None:
        ctx.cov.notes.append("oracle self-test: 3/3 in-memory perturbations flagged; unchanged maps accepted")


def jobs(tier):
    quick = tier == "quick"
    mod = _mod()
    J = []
    A = lambda mk, **kw: J.append(Job("A", mk, max_states=60000 if quick else 1000000, **kw))
    B = lambda mk, **kw: J.append(Job("B", mk, cycles=1500 if quick else 8000, runs=1 if quick else 2, **kw))
    A(lambda: c17lib.EncoderInst(mod, 1, False))
    A(lambda: c17lib.EncoderInst(mod, 1, True))
    A(lambda: c17lib.EncoderInst(mod, 2, False, symbols=c17lib.SYMS4[:1] + c17lib.SYMS4[2:] if quick else c17lib.SYMS4))
    A(lambda: c17lib.DecoderInst(mod, False))
    A(lambda: c17lib.DecoderInst(mod, True))
    A(lambda: c17lib.make_stream_inst("enc", mod, 1, "A"))
    A(lambda: c17lib.make_stream_inst("dec", mod, 1, "A"))
    A(lambda: c17lib.make_stream_inst("enc", mod, 2, "A"))
    if not quick:
        A(lambda: c17lib.make_stream_inst("codec", mod, 1, "A"))
        A(lambda: c17lib.EncoderInst(mod, 2, True))
    for n in (1, 2, 3, 4):
        B(lambda n=n: c17lib.EncoderInst(mod, n, bool(n % 2)))
        B(lambda n=n: c17lib.make_stream_inst("enc", mod, n, "B"))
        B(lambda n=n: c17lib.make_stream_inst("dec", mod, n, "B"))
    for n in (1, 2, 4) if quick else (1, 2, 3, 4):
        B(lambda n=n: c17lib.make_stream_inst("enc", mod, n, "B", bubbles=False))
        B(lambda n=n: c17lib.make_stream_inst("codec", mod, n, "B"))
    B(lambda: c17lib.DecoderInst(mod, False))
    B(lambda: c17lib.DecoderInst(mod, True))
    return J


def corpus_inst(entry):
    mod = _mod()
    if entry["kind"] == "encoder":
        return c17lib.EncoderInst(mod, entry["n"], bool(entry.get("lsb", 0)))
    if entry["kind"] == "decoder":
        return c17lib.DecoderInst(mod, bool(entry.get("lsb", 0)))
    return c17lib.make_stream_inst(entry["kind"], mod, entry["n"], "A")


def run_corpus(ctx):
    """Past disagreement traces and finding witnesses (corpus/C17/*.json), lock-step on the real code and the model,
    with the instance's property monitor armed (the finding witness is exempt from the monitor by construction:
    the monitor disarms its balance check at the first bubble)."""
    import glob, json, os
    from explore import impl_step, _masked_equal
    dis = []
    files = sorted(glob.glob(os.path.join(os.path.dirname(os.path.dirname(os.path.abspath(c17lib.__file__))),
                                          "corpus", "C17", "*.json")))
    for f in files:
        entry = json.load(open(f))
        inst = corpus_inst(entry)
        trace = [tuple(l) for l in entry["trace"]]
        mon = inst.monitor()
        outs, msg = [], None
        for t, letter in enumerate(trace):
            o = impl_step(inst, letter)
            outs.append(o)
            m = mon.observe(letter, o)
            if m and msg is None:
                msg = (t, m)
        ctx.lean.open(inst.lean_open)
        mouts = ctx.lean.run(trace)
        ctx.lean.close_session()
        for t in range(len(trace)):
            if not _masked_equal(inst, outs[t], mouts[t]):
                d = Disagreement(inst, trace[:t + 1], t, outs[t], mouts[t])
                d.inst = None
                dis.append(d)
                break
        if msg:
            d = Disagreement(inst, trace[:msg[0] + 1], msg[0], outs[msg[0]], None, kind="monitor:" + msg[1])
            d.inst = None
            dis.append(d)
        ctx.cov.add_instance("corpus/" + os.path.basename(f), states=0, transitions=len(trace),
                             nontrivial=sum(1 for l, o in zip(trace, outs) if inst.nontrivial(l, o)),
                             exhaustive=False, mode="corpus")
    return dis


def correspond(ctx):
    dis = run_corpus(ctx)
    dis += exhaustive_functions(ctx)
    ctx.jobs = jobs(ctx.tier)
    d2, bad = run_jobs(ctx, ctx.jobs)
    return dis + d2


# -- known finding ----------------------------------------------------------------------------------------------

def bubble_witness(mod, ntokens=4):
    """D3.0 tokens separated by one valid=0 cycle with the data lines unchanged, source always ready, on the real
    `StreamEncoder(1)`.  Returns the delivered words (msb-first) and the cumulative disparity after each."""
    from netlist import Netlist
    m = mod.StreamEncoder(1)
    n = Netlist(m)
    words, cum, s = [], [], 0
    for t in range(2 * ntokens + 4):
        n.set(m.sink.valid, 1 if (t % 2 == 0 and t < 2 * ntokens) else 0)
        n.set(m.sink.d, 0x03)
        n.set(m.sink.k, 0)
        n.set(m.source.ready, 1)
        n.settle()
        if n.getu(m.source.valid):
            w = c17lib.rev10(n.getu(m.source.data))
            words.append(w)
            s += 2 * bin(w).count("1") - 10
            cum.append(s)
        n.tick()
    return words, cum


def probes(ctx):
    words, cum = bubble_witness(_mod())
    fails = any(abs(c) > 2 for c in cum) or (max(cum + [0]) - min(cum + [0]) > 2)
    what = ("StreamEncoder advances its running disparity on bubbles: D3.0 tokens separated by one valid=0 cycle "
            "(data lines unchanged) are delivered as %s, cumulative disparity %s" % (
                [format(w, "010b") for w in words], cum))
    return [(FINDING_ID, fails, what)]


# -- failing-input search -----------------------------------------------------------------------------------------

def search(ctx, disagreements, proof_info):
    mod = _mod()
    # (1) the finite functions of the real code against the property itself (no model involved)
    try:
        enc = getattr(ctx, "real_enc", None) or c17lib.real_encoder_map(mod, False)
        dec = getattr(ctx, "real_dec", None) or c17lib.real_decoder_map(mod, False)
        r = c17lib.static_search(enc, dec)
        if r:
            if r["kind"] == "sequence":
                r["replayed_on_real_Encoder(1)"] = c17lib.replay_symbols_on_real_encoder(mod, [tuple(s) for s in r["dk"]])
            elif r["kind"] == "roundtrip":
                pre = []
                if r["disp_in"] == 1:
                    pre = [(3, 0)]       # D3.0 takes the encoder from RD- to RD+
                r["dk"] = [list(s) for s in pre] + [[r["d"], r["k"]]]
                r["replayed_on_real_Encoder(1)"] = c17lib.replay_symbols_on_real_encoder(mod, [tuple(s) for s in r["dk"]])
            r["instance"] = "code tables / SingleEncoder+Decoder (static)"
            return r
    except Exception as e:   # a mutation may stop the modules from elaborating
        ctx.log("static search failed: %r" % (e,))
    # (2) the machines with their monitors
    machine_dis = [d for d in disagreements if not isinstance(d, TableDisagreement)]
    return generic_search(ctx, machine_dis, getattr(ctx, "jobs", None) or jobs(ctx.tier), FMT)


def replay(ctx, payload):
    fi = payload.get("failing_input") or {}
    mod = _mod()
    if fi.get("kind") in ("sequence", "roundtrip") and fi.get("dk"):
        msg = c17lib.replay_symbols_on_real_encoder(mod, [tuple(s) for s in fi["dk"]])
        if msg:
            print("symbols %s: %s" % (fi.get("symbols") or fi.get("symbol"), msg))
            print("VIOLATION property=%s replay=(replayed)" % ctx.prop)
            return 1
        print("sequence no longer violates the property on the current tree")
        return 0
    if fi.get("kind") == "invalid_ones":
        dec = c17lib.real_decoder_map(mod, False)
        w = int(fi["word"], 2)
        ones = bin(w).count("1")
        if bool(dec[w][2]) != (ones not in (4, 5, 6)):
            print("input %s with %d ones reported invalid=%d" % (fi["word"], ones, dec[w][2]))
            print("VIOLATION property=%s replay=(replayed)" % ctx.prop)
            return 1
        print("word no longer violates the property on the current tree")
        return 0
    from explore import generic_replay
    return generic_replay(ctx, payload, jobs("thorough"))
