"""C17 — 8b/10b coding is invertible, DC-balanced and comma-safe (litex/soc/cores/code_8b10b.py)."""
import importlib
from explore import Job, run_jobs, generic_search, Disagreement
import c17lib

FMT = ("Encoder: ce, d0, k0, d1, k1, ... | Decoder: ce, input | Stream*: sink.valid, sink.data (d | k << 8n or "
       "10-bit words, word 0 lowest), sink.first, sink.last, source.ready")
FINDING_ID = "C17-stream-bubble-disparity"


def _mod():
    return importlib.import_module("litex.soc.cores.code_8b10b")


def regen(ctx):
    changed = c17lib.regen_tables(_mod())
    if changed:
        ctx.log("regen: lean/LitexModel/Generated/Tables8b10b.lean CHANGED (tables in the repository differ)")
    ctx.tables_changed = changed
    # truth tables of the real elaborated netlists over their complete input spaces (kernel-compared with the model)
    try:
        nchanged, raw, err = _limited(240, lambda: c17lib.regen_netlist(_mod()))
    except Exception as e:          # time limit (oscillating / crawling implementation)
        nchanged, raw, err = False, {}, e
    ctx.net_raw, ctx.net_err, ctx.netlist_changed = raw, err, nchanged
    if err is not None:
        ctx.log("regen: the netlists could not be evaluated (%r): Generated/Netlist8b10b.lean left without tables" % (err,))
    elif nchanged:
        ctx.log("regen: lean/LitexModel/Generated/Netlist8b10b.lean CHANGED (the netlists compute something else)")


# -- correspondence -------------------------------------------------------------------------------------------

class TableDisagreement:
    """A difference on one input of a finite function (mode C)."""
    def __init__(self, inst_name, inputs, impl, model, kind="correspondence"):
        self.inst_name, self.inputs, self.impl, self.model, self.kind = inst_name, inputs, impl, model, kind
        self.job = None
        self.trace = []

    def to_json(self):
        return {"instance": self.inst_name, "kind": self.kind, "inputs": self.inputs, "impl": self.impl,
                "model": self.model}


def exhaustive_functions(ctx):
    """The combinational SingleEncoder stage (all 2*2*256 inputs, K with undefined symbols included) and the
    Decoder (all 1024 inputs), msb- and lsb-first, against encode1/decode1 of the Lean model; plus the table-free
    reference encoder on the 268 symbols of the code."""
    mod = _mod()
    dis = []
    for lsb in (0, 1):
        raw = getattr(ctx, "net_raw", None) or {}
        enc = raw.get("encLsb" if lsb else "encMsb") or c17lib.real_encoder_map(mod, bool(lsb))
        keys = sorted(enc)
        ans = ctx.lean.call_batch(["enc1 %d %d %d %d" % (d, k, disp, lsb) for (d, k, disp) in keys])
        nbad = 0
        for key, a in zip(keys, ans):
            got = tuple(int(x) for x in a.split()) if a and a[0].isdigit() else a
            if got != enc[key]:
                nbad += 1
                if nbad <= 3:
                    dis.append(TableDisagreement("SingleEncoder(%s)" % ("lsb" if lsb else "msb"),
                                                 {"d": key[0], "k": key[1], "disp_in": key[2]},
                                                 list(enc[key]), got))
        ctx.cov.add_cases("SingleEncoder(%s) stage1+stage2 vs encode1" % ("lsb" if lsb else "msb"), len(keys),
                          len(keys), exhaustive=nbad == 0)
        if not lsb:
            ctx.real_enc = enc
            nref = 0
            for (d, k) in c17lib.VALID_SYMBOLS:
                for disp in (0, 1):
                    if enc[(d, k, disp)] != c17lib.ref_encode(d, k, disp):
                        nref += 1
                        if nref <= 3:
                            dis.append(TableDisagreement("SingleEncoder(msb) vs table-free reference encoder",
                                                         {"d": d, "k": k, "disp_in": disp}, list(enc[(d, k, disp)]),
                                                         list(c17lib.ref_encode(d, k, disp)), kind="reference"))
            ctx.cov.add_cases("SingleEncoder(msb) vs Widmer-Franaszek equations", 2 * len(c17lib.VALID_SYMBOLS),
                              2 * len(c17lib.VALID_SYMBOLS), exhaustive=nref == 0)
        dec = raw.get("decLsb" if lsb else "decMsb") or c17lib.real_decoder_map(mod, bool(lsb))
        ws = sorted(dec)
        ans = ctx.lean.call_batch(["dec1 %d %d" % (w, lsb) for w in ws])
        nbad = 0
        for w, a in zip(ws, ans):
            got = tuple(int(x) for x in a.split()) if a and a[0].isdigit() else a
            if got != dec[w]:
                nbad += 1
                if nbad <= 3:
                    dis.append(TableDisagreement("Decoder(%s)" % ("lsb" if lsb else "msb"), {"input": w},
                                                 list(dec[w]), got))
        ctx.cov.add_cases("Decoder(%s) vs decode1" % ("lsb" if lsb else "msb"), len(ws), len(ws),
                          exhaustive=nbad == 0)
        if not lsb:
            ctx.real_dec = dec
    sensitivity_self_test(ctx)
    ctx.cov.count("encoder inputs (d,k,disp) x format", 2048)
    ctx.cov.count("decoder inputs x format", 2048)
    return dis


def regen_tie(ctx):
    """The regenerated netlist tables as the Lean side reads them (`nettab`) against the maps of the real netlists
    they were written from, the model's entries in the same layout (`modtab`: complete for the single-word tables and
    the 3/4-word chain tables, sampled for the 2-word one — the kernel compares all of them), the set of code words
    (`iscode`, all 1024 words against the image of the real encoder) and the comma windows of random symbol sequences
    with control symbols (`commas` against a scan of the real encoder's words)."""
    mod = _mod()
    dis = []
    raw = getattr(ctx, "net_raw", None) or {}
    if getattr(ctx, "net_err", None) is not None or not raw:
        return [{"kind": "correspondence-exception", "instance": "netlist regeneration",
                 "what": "the real netlists could not be evaluated during regen: %r" % (getattr(ctx, "net_err", None),)}]
    T, _ = None, None
    tabs = {}
    for tag in ("Msb", "Lsb"):
        enc, dec = raw["enc" + tag], raw["dec" + tag]
        tabs["enc" + tag] = [enc[(i % 256, (i >> 8) & 1, (i >> 9) & 1)][0] + 1024 * enc[(i % 256, (i >> 8) & 1, (i >> 9) & 1)][1]
                             for i in range(1024)]
        tabs["dec" + tag] = [dec[w][0] + 256 * dec[w][1] + 512 * dec[w][2] for w in range(1024)]
    tabs["chain2"] = [raw["chain2"][(i >> 10, i % 256, (i >> 8) & 1, (i >> 9) & 1)] for i in range(2048)]
    for n in (3, 4):
        tabs["chain%d" % n] = [raw["chain%d" % n][(lane, d, k, c)] for lane in range(n) for c in (0, 1)
                               for (d, k) in c17lib.CHAIN_PROBES]
    ncase = 0
    for name in sorted(tabs):
        vals = tabs[name]
        idx = list(range(len(vals)))
        ans = ctx.lean.call_batch(["nettab %s %d" % (name, i) for i in idx])
        midx = idx if name != "chain2" else sorted(ctx.rng.sample(idx, 192 if ctx.tier == "quick" else 1024))
        mans = ctx.lean.call_batch(["modtab %s %d" % (name, i) for i in midx])
        nbad = 0
        for what, ii, aa in (("generated table", idx, ans), ("model entry", midx, mans)):
            for i, a in zip(ii, aa):
                ncase += 1
                if str(a).strip() != str(vals[i]):
                    nbad += 1
                    if nbad <= 2:
                        dis.append(TableDisagreement("Netlist.%s (%s)" % (name, what), {"index": i}, vals[i], a))
    ctx.cov.add_cases("regenerated netlist tables: Lean reading + model entries vs the real netlists", ncase, ncase,
                      exhaustive=not dis)
    # the set of code words
    enc = raw["encMsb"]
    image = {enc[(d, k, c)][0] for (d, k) in c17lib.VALID_SYMBOLS for c in (0, 1)}
    ans = ctx.lean.call_batch(["iscode %d" % w for w in range(1024)])
    nbad = 0
    for w, a in enumerate(ans):
        if str(a).strip() != str(int(w in image)):
            nbad += 1
            if nbad <= 2:
                dis.append(TableDisagreement("isCodeWord", {"word": w}, int(w in image), a))
    ctx.cov.add_cases("isCodeWord vs the image of the real SingleEncoder on the 268 symbols", 1024, 1024,
                      exhaustive=nbad == 0)
    # comma windows of symbol sequences with control symbols
    nseq = 150 if ctx.tier == "quick" else 1500
    reqs, exps = [], []
    for j in range(nseq):
        L = ctx.rng.randint(1, 7)
        syms = [c17lib.random_symbol(ctx.rng, legal_only=True) if ctx.rng.random() < 0.8
                else (ctx.rng.choice([0xBC, 0x3C, 0xFC]), 1) for _ in range(L)]
        disp0 = ctx.rng.randint(0, 1)
        bits, disp = [], disp0
        for (d, k) in syms:
            w, disp = enc[(d, k, disp)]
            bits += c17lib.bits_msb(w)
        pos = [i for i in range(len(bits)) if tuple(bits[i:i + 7]) in c17lib.COMMAS]
        reqs.append("commas %d %s" % (disp0, " ".join("%d %d" % s for s in syms)))
        exps.append(" ".join(str(x) for x in [len(pos)] + pos))
    ans = ctx.lean.call_batch(reqs)
    nbad = 0
    for r, e, a in zip(reqs, exps, ans):
        if str(a).strip() != e:
            nbad += 1
            if nbad <= 2:
                dis.append(TableDisagreement("comma windows of a symbol sequence", {"call": r}, e, a))
    ctx.cov.add_cases("comma positions: serial(encodeSeq) vs the real encoder's words", nseq, nseq, exhaustive=False)
    return dis


def sensitivity_self_test(ctx):
    """The property oracles must fire on in-memory perturbations of the real code's maps (never on the real maps:
    that is checked by `search` only when something broke, and by the monitors during co-simulation)."""
    enc, dec = ctx.real_enc, ctx.real_dec
    e2 = dict(enc)
    e2[(3, 0, 0)] = (enc[(3, 0, 1)][0], 1)            # D3.0 under RD- emitted with its RD+ word
    r1 = c17lib.static_search(e2, dec)
    d2 = dict(dec)
    d2[enc[(0xBC, 1, 0)][0]] = (0xBC, 0, 0)           # K28.5 decoded without its control flag
    r2 = c17lib.static_search(enc, d2)
    e3 = dict(enc)
    e3[(0xF1, 0, 0)] = (0b1000111110, enc[(0xF1, 0, 0)][1])   # D17.7 without the alternate A7: false comma
    r3 = c17lib.static_search(e3, dec)
    kinds = [r and r["kind"] for r in (r1, r2, r3)]
    if kinds != ["sequence", "roundtrip", "sequence"] or "comma" not in r3["what"]:
        raise RuntimeError("C17 oracle sensitivity self-test failed: %r" % (kinds,))
    if c17lib.static_search(enc, dec) is None:
        ctx.cov.notes.append("oracle self-test: 3/3 in-memory perturbations flagged; unchanged maps accepted")


JOB_LIMIT_S = {"quick": 100, "thorough": 1200}


def guarded(make, tier):
    """Arm a per-job wall-clock limit inside the worker that builds the instance: a changed implementation that
    makes the simulator oscillate or crawl ends as a TimeoutError (reported as a broken correspondence), not as
    an endless run."""
    def mk():
        import signal

        def on_alarm(signum, frame):
            raise TimeoutError("C17 job exceeded its %d s limit (implementation hangs or is far slower than on "
                               "the unchanged tree)" % JOB_LIMIT_S[tier])
        try:
            signal.signal(signal.SIGALRM, on_alarm)
            signal.alarm(JOB_LIMIT_S[tier])
        except ValueError:          # not in the main thread of the process
            pass
        return make()
    return mk


def jobs(tier):
    quick = tier == "quick"
    mod = _mod()
    J = []
    A = lambda mk, **kw: J.append(Job("A", guarded(mk, tier), max_states=60000 if quick else 1000000, **kw))
    B = lambda mk, **kw: J.append(Job("B", guarded(mk, tier), cycles=1500 if quick else 8000,
                                      runs=1 if quick else 2, **kw))
    S3 = c17lib.SYMS4[:1] + c17lib.SYMS4[2:]
    A(lambda: c17lib.EncoderInst(mod, 1, False))
    A(lambda: c17lib.EncoderInst(mod, 1, True))
    A(lambda: c17lib.EncoderInst(mod, 2, False, symbols=S3 if quick else c17lib.SYMS4))
    A(lambda: c17lib.EncoderInst(mod, 2, True, symbols=S3 if quick else c17lib.SYMS4))
    A(lambda: c17lib.DecoderInst(mod, False))
    A(lambda: c17lib.DecoderInst(mod, True))
    A(lambda: c17lib.make_stream_inst("enc", mod, 1, "A"))
    A(lambda: c17lib.make_stream_inst("dec", mod, 1, "A"))
    A(lambda: c17lib.make_stream_inst("enc", mod, 2, "A"))
    # the default-argument paths (`Encoder()`, `Decoder()`, `StreamEncoder()`, `StreamDecoder()`): nwords=1, msb first
    A(lambda: c17lib.EncoderInst(mod, 1, False, via_default=True))
    A(lambda: c17lib.DecoderInst(mod, False, via_default=True))
    A(lambda: c17lib.make_stream_inst("enc", mod, 1, "A", via_default=True))
    A(lambda: c17lib.make_stream_inst("dec", mod, 1, "A", via_default=True))
    if not quick:
        A(lambda: c17lib.make_stream_inst("codec", mod, 1, "A"))
        A(lambda: c17lib.make_stream_inst("dec", mod, 2, "A"))
        A(lambda: c17lib.EncoderInst(mod, 3, False, symbols=S3[:2]))
    # every nwords of the quantifier (1..4, incl. the non-power-of-two 3) x both bit orders
    for n in (1, 2, 3, 4):
        for lsb in (False, True):
            B(lambda n=n, lsb=lsb: c17lib.EncoderInst(mod, n, lsb))
        B(lambda n=n: c17lib.make_stream_inst("enc", mod, n, "B"))
        B(lambda n=n: c17lib.make_stream_inst("dec", mod, n, "B"))
        B(lambda n=n: c17lib.make_stream_inst("enc", mod, n, "B", bubbles=False))
        B(lambda n=n: c17lib.make_stream_inst("codec", mod, n, "B"))
    if not quick:
        # beyond the quantifier: 5 lanes (50-bit source, 45-bit sink payload)
        B(lambda: c17lib.EncoderInst(mod, 5, True))
        B(lambda: c17lib.make_stream_inst("codec", mod, 5, "B"))
        # the theorems are parametric in nwords (`encoderN_chain`, `encoderN_iterated`): 6 and 8 lanes as well
        B(lambda: c17lib.EncoderInst(mod, 6, False, symbols=c17lib.SYMS4[:2]))
        B(lambda: c17lib.EncoderInst(mod, 8, True, symbols=c17lib.SYMS4[:2]))
        B(lambda: c17lib.make_stream_inst("codec", mod, 8, "B"))
    B(lambda: c17lib.DecoderInst(mod, False))
    B(lambda: c17lib.DecoderInst(mod, True))
    return J


def corpus_inst(entry):
    mod = _mod()
    if entry["kind"] == "encoder":
        return c17lib.EncoderInst(mod, entry["n"], bool(entry.get("lsb", 0)))
    if entry["kind"] == "decoder":
        return c17lib.DecoderInst(mod, bool(entry.get("lsb", 0)))
    return c17lib.make_stream_inst(entry["kind"], mod, entry["n"], "A")


def run_corpus(ctx):
    """Past disagreement traces and finding witnesses (corpus/C17/*.json), lock-step on the real code and the model,
    with the instance's property monitor armed (the finding witness is exempt from the monitor by construction:
    the monitor disarms its balance check at the first bubble)."""
    import glob, json, os
    from explore import impl_step, _masked_equal
    dis = []
    files = sorted(glob.glob(os.path.join(os.path.dirname(os.path.dirname(os.path.abspath(c17lib.__file__))),
                                          "corpus", "C17", "*.json")))
    for f in files:
        entry = json.load(open(f))
        try:
            inst = corpus_inst(entry)
        except Exception as e:
            dis.append(_exc_disagreement("corpus/%s: building the instance" % os.path.basename(f), e))
            continue
        trace = [tuple(l) for l in entry["trace"]]
        mon = inst.monitor()
        outs, msg = [], None
        for t, letter in enumerate(trace):
            o = impl_step(inst, letter)
            outs.append(o)
            m = mon.observe(letter, o)
            if m and msg is None:
                msg = (t, m)
        ctx.lean.open(inst.lean_open)
        mouts = ctx.lean.run(trace)
        ctx.lean.close_session()
        for t in range(len(trace)):
            if not _masked_equal(inst, outs[t], mouts[t]):
                d = Disagreement(inst, trace[:t + 1], t, outs[t], mouts[t])
                d.inst = None
                dis.append(d)
                break
        if msg:
            d = Disagreement(inst, trace[:msg[0] + 1], msg[0], outs[msg[0]], None, kind="monitor:" + msg[1])
            d.inst = None
            dis.append(d)
        ctx.cov.add_instance("corpus/" + os.path.basename(f), states=0, transitions=len(trace),
                             nontrivial=sum(1 for l, o in zip(trace, outs) if inst.nontrivial(l, o)),
                             exhaustive=False, mode="corpus")
    return dis


def helper_functions(ctx):
    """The module-level helpers users name symbols with (`K(x, y)`, `D(x, y)`) and the disparity helper the tables
    are built with: against their definition, and — for the 12 control symbols as users obtain them, `K(28, 5)` … —
    through the real encoder and decoder."""
    mod = _mod()
    dis = []
    names = [(28, y) for y in range(8)] + [(23, 7), (27, 7), (29, 7), (30, 7)]
    enc, dec = ctx.real_enc, ctx.real_dec
    ncase = 0
    for (x, y) in names:
        sym = mod.K(x, y)
        ncase += 1
        for disp in (0, 1):
            exp = c17lib.ref_encode((y << 5) | x, 1, disp)
            got = enc.get((sym, 1, disp)) if isinstance(sym, int) and 0 <= sym < 256 else None
            back = dec.get(got[0]) if got else None
            if got != exp or back != ((y << 5) | x, 1, 0):
                dis.append(TableDisagreement("K(%d,%d) through SingleEncoder+Decoder" % (x, y),
                                             {"K(x,y)": sym, "disp_in": disp}, [got, back],
                                             [list(exp), [(y << 5) | x, 1, 0]], kind="helper"))
    for x in range(32):
        for y in range(8):
            ncase += 1
            if mod.D(x, y) != ((y << 5) | x):
                dis.append(TableDisagreement("D(%d,%d)" % (x, y), {"x": x, "y": y}, mod.D(x, y), (y << 5) | x,
                                             kind="helper"))
    for nbits in (4, 6, 10):
        for w in range(1 << nbits):
            ncase += 1
            if mod.disparity(w, nbits) != 2 * bin(w).count("1") - nbits:
                dis.append(TableDisagreement("disparity(%d,%d)" % (w, nbits), {"word": w, "nbits": nbits},
                                             mod.disparity(w, nbits), 2 * bin(w).count("1") - nbits, kind="helper"))
                break
    dis += build_helpers(ctx, mod)
    model_k = sorted(int(x) for x in ctx.lean.call("ksyms").split())
    if model_k != sorted(mod.K(x, y) for (x, y) in names) or model_k != sorted(c17lib.K_SYMBOLS):
        dis.append(TableDisagreement("control symbol set", {}, sorted(mod.K(x, y) for (x, y) in names), model_k,
                                     kind="helper"))
    ctx.cov.add_cases("helpers K/D/disparity and the 12 K symbols through the real codec", ncase, ncase,
                      exhaustive=not dis)
    return dis[:6]


def build_helpers(ctx, mod):
    """The build-time helpers as modelled in Lean (`symK`/`symD`, `disparity`, `reverseTableFlip`, `reverseTable`)
    against the real Python functions: all K/D arguments, all words of 4/6/10 bits, the table constructions of the
    module itself and random (also colliding / out-of-range) inputs of the two reverse-table builders."""
    dis = []
    n = 0
    xy = [(x, y) for x in range(32) for y in range(8)]
    for (x, y), a in zip(xy, ctx.lean.call_batch(["kd %d %d" % p for p in xy])):
        n += 1
        if str(a).split() != [str(mod.K(x, y)), str(mod.D(x, y))]:
            dis.append(TableDisagreement("K/D(%d,%d)" % (x, y), {"x": x, "y": y}, [mod.K(x, y), mod.D(x, y)], a,
                                         kind="helper"))
    wn = [(w, nb) for nb in (4, 6, 10) for w in range(1 << nb)]
    for (w, nb), a in zip(wn, ctx.lean.call_batch(["disparity %d %d" % p for p in wn])):
        n += 1
        if str(a).strip() != str(mod.disparity(w, nb)):
            dis.append(TableDisagreement("disparity(%d,%d)" % (w, nb), {"word": w, "nbits": nb},
                                         mod.disparity(w, nb), a, kind="helper"))
            break

    def real(fn, *args):
        try:
            return " ".join(str(v) for v in fn(*args))
        except (ValueError, IndexError):
            return "err"

    cases = [("revflip", list(mod.table_5b6b), [int(bool(f)) for f in mod.table_5b6b_flip], 6),
             ("revflip", list(mod.table_3b4b), [int(bool(f)) for f in mod.table_3b4b_flip], 4),
             ("revtab", list(mod.table_3b4b), None, 4),
             ("revtab", [~x & 0b1111 for x in mod.table_3b4b], None, 4)]
    for _ in range(60 if ctx.tier == "quick" else 600):
        nb = ctx.rng.choice([2, 3, 4, 6])
        L = ctx.rng.randint(0, min(2 ** nb, 12))
        if ctx.rng.random() < 0.7:
            ws = ctx.rng.sample(range(2 ** nb), L)                       # distinct words
        else:
            ws = [ctx.rng.randint(0, 2 ** nb + 1) for _ in range(L)]     # collisions / out of range
        if ctx.rng.random() < 0.5:
            cases.append(("revtab", ws, None, nb))
        else:
            fl = [1 if ctx.rng.random() < 0.3 else 0 for _ in range(ctx.rng.choice([L, L, max(L - 1, 0)]))]
            cases.append(("revflip", ws, fl, nb))
    reqs, exps = [], []
    for kind, ws, fl, nb in cases:
        if kind == "revtab":
            reqs.append("revtab %d %s" % (nb, " ".join(map(str, ws))))
            exps.append(real(mod.reverse_table, ws, nb))
        else:
            m = min(len(ws), len(fl))
            reqs.append("revflip %d %s" % (nb, " ".join("%d %d" % p for p in zip(ws[:m], fl[:m]))))
            exps.append(real(mod.reverse_table_flip, ws, fl, nb))
    for r, e, a in zip(reqs, exps, ctx.lean.call_batch(reqs)):
        n += 1
        if str(a).strip() != e:
            dis.append(TableDisagreement("reverse table builder", {"call": r}, e, a, kind="helper"))
    ctx.cov.add_cases("build-time helpers K/D/disparity/reverse_table(_flip) vs their Lean models", n, n,
                      exhaustive=False)
    return dis[:4]


def _exc_disagreement(where, e):
    import traceback
    return {"kind": "correspondence-exception", "instance": where,
            "what": "%s raised %r on this tree (it does not on the unchanged one): the tie no longer checks" % (where, e),
            "traceback": traceback.format_exc()[-2000:]}


def _limited(seconds, fn):
    """Run fn() in the parent under a wall-clock limit."""
    import signal

    def on_alarm(signum, frame):
        raise TimeoutError("exceeded %d s" % seconds)
    old = signal.signal(signal.SIGALRM, on_alarm)
    signal.alarm(seconds)
    try:
        return fn()
    finally:
        signal.alarm(0)
        signal.signal(signal.SIGALRM, old)


def correspond(ctx):
    """Every stage is fenced: an exception or a hang while building or driving a changed implementation becomes a
    reported disagreement and the remaining stages still run (so that the failing-input search has material)."""
    from leanproc import LeanDriver
    dis = []
    for name, stage in (("corpus replay", run_corpus), ("exhaustive function tie", exhaustive_functions),
                        ("helper functions", helper_functions), ("regenerated netlist tables", regen_tie)):
        try:
            dis += _limited(60 if ctx.tier == "quick" else 300, lambda: stage(ctx))
        except Exception as e:
            dis.append(_exc_disagreement(name, e))
            try:
                ctx.lean.quit()
            except Exception:
                pass
            ctx.lean = LeanDriver(ctx.prop)
    ctx.jobs = jobs(ctx.tier)
    try:
        d2, bad = run_jobs(ctx, ctx.jobs)
        dis += d2
    except Exception as e:
        # some job raised (constructor, port missing, width changed, time limit): find out which, keep the others
        dis.append(_exc_disagreement("parallel job run", e))
        import time
        t_end = time.time() + (60 if ctx.tier == "quick" else 600)
        for k, job in enumerate(ctx.jobs):
            if time.time() > t_end:
                break
            try:
                d2, _ = _limited(JOB_LIMIT_S[ctx.tier], lambda: run_jobs(ctx, [job], procs=1))
                for d in d2:
                    d.job = k
                dis += d2
            except Exception as e2:
                dis.append(_exc_disagreement("job #%d (%s)" % (k, job.mode), e2))
                if isinstance(e2, TimeoutError):
                    break       # a hanging implementation: one witness is enough, do not wait for every job
    finally:
        try:
            import signal
            signal.alarm(0)
        except Exception:
            pass
    return dis


# -- known finding ----------------------------------------------------------------------------------------------

def bubble_witness(mod, ntokens=4):
    """D3.0 tokens separated by one valid=0 cycle with the data lines unchanged, source always ready, on the real
    `StreamEncoder(1)`.  Returns the delivered words (msb-first) and the cumulative disparity after each."""
    from netlist import Netlist
    m = mod.StreamEncoder(1)
    n = Netlist(m)
    words, cum, s = [], [], 0
    for t in range(2 * ntokens + 4):
        n.set(m.sink.valid, 1 if (t % 2 == 0 and t < 2 * ntokens) else 0)
        n.set(m.sink.d, 0x03)
        n.set(m.sink.k, 0)
        n.set(m.source.ready, 1)
        n.settle()
        if n.getu(m.source.valid):
            w = c17lib.rev10(n.getu(m.source.data))
            words.append(w)
            s += 2 * bin(w).count("1") - 10
            cum.append(s)
        n.tick()
    return words, cum


def probes(ctx):
    words, cum = bubble_witness(_mod())
    fails = any(abs(c) > 2 for c in cum) or (max(cum + [0]) - min(cum + [0]) > 2)
    what = ("StreamEncoder advances its running disparity on bubbles: D3.0 tokens separated by one valid=0 cycle "
            "(data lines unchanged) are delivered as %s, cumulative disparity %s" % (
                [format(w, "010b") for w in words], cum))
    return [(FINDING_ID, fails, what)]


# -- failing-input search -----------------------------------------------------------------------------------------

CONSTRUCTIONS = ([("SingleEncoder", (lsb,)) for lsb in (False, True)] +
                 [("Encoder", (n, lsb)) for n in (1, 2, 3, 4) for lsb in (False, True)] +
                 [("Decoder", (lsb,)) for lsb in (False, True)] +
                 [("StreamEncoder", (n,)) for n in (1, 2, 3, 4)] + [("StreamDecoder", (n,)) for n in (1, 2, 3, 4)] +
                 [("Encoder", ()), ("Decoder", ()), ("StreamEncoder", ()), ("StreamDecoder", ())])


def construction_probe(mod, only=None):
    """Build and elaborate every class x argument tuple the property quantifies over (1..4 words, both bit orders,
    default arguments); a constructor that raises is a concrete failing input: that wrapper does not exist."""
    from netlist import Netlist
    for cls, args in CONSTRUCTIONS:
        if only is not None and (cls, list(args)) != only:
            continue
        try:
            _limited(30, lambda: Netlist(getattr(mod, cls)(*args)))
        except Exception as e:
            return {"kind": "construction", "instance": "code_8b10b.%s%r" % (cls, args), "class": cls,
                    "args": list(args), "exception": repr(e),
                    "what": "code_8b10b.%s%r cannot be built/elaborated: %r" % (cls, args, e)}
    return None


def search(ctx, disagreements, proof_info):
    mod = _mod()
    # (1) the finite functions of the real code against the property itself (no model involved)
    raw = getattr(ctx, "net_raw", None) or {}
    try:
        enc = (getattr(ctx, "real_enc", None) or raw.get("encMsb") or
               _limited(60, lambda: c17lib.real_encoder_map(mod, False)))
        dec = (getattr(ctx, "real_dec", None) or raw.get("decMsb") or
               _limited(60, lambda: c17lib.real_decoder_map(mod, False)))
        r = c17lib.static_search(enc, dec)
        if r:
            if r["kind"] == "sequence":
                r["replayed_on_real_Encoder(1)"] = c17lib.replay_symbols_on_real_encoder(mod, [tuple(s) for s in r["dk"]])
            elif r["kind"] == "roundtrip":
                pre = []
                if r["disp_in"] == 1:
                    pre = [(3, 0)]       # D3.0 takes the encoder from RD- to RD+
                r["dk"] = [list(s) for s in pre] + [[r["d"], r["k"]]]
                r["replayed_on_real_Encoder(1)"] = c17lib.replay_symbols_on_real_encoder(mod, [tuple(s) for s in r["dk"]])
            r["instance"] = "code tables / SingleEncoder+Decoder (static)"
            return r
        # (1b) the symbols as users obtain them: K(x, y) / D(x, y) through the real encoder and decoder
        names = [(28, y) for y in range(8)] + [(23, 7), (27, 7), (29, 7), (30, 7)]
        for helper, k, pairs in ((mod.K, 1, names), (mod.D, 0, [(x, y) for y in range(8) for x in range(32)])):
            for (x, y) in pairs:
                sym = helper(x, y)
                want = ((y << 5) | x, k, 0)
                for disp in (0, 1):
                    got = dec.get(enc[(sym, k, disp)][0]) if isinstance(sym, int) and 0 <= sym < 256 else None
                    if got != want:
                        return {"kind": "helper", "instance": "code_8b10b.%s + SingleEncoder + Decoder" % helper.__name__,
                                "call": "%s(%d, %d)" % (helper.__name__, x, y), "returned": sym, "disp_in": disp,
                                "decoded": got, "expected": list(want),
                                "what": "the symbol obtained as %s(%d, %d) = %r, encoded under RD%s and decoded, is %r "
                                        "instead of %s%d.%d" % (helper.__name__, x, y, sym, "+" if disp else "-", got,
                                                                 "K" if k else "D", x, y)}
    except Exception as e:   # a mutation may stop the modules from elaborating
        ctx.log("static search failed: %r" % (e,))
    # (1b') the chain probes of the real multi-word Encoder netlists kept by regen
    try:
        r = c17lib.chain_probe_search(raw)
        if r:
            return r
    except Exception as e:
        ctx.log("chain probe search failed: %r" % (e,))
    # (1c) can every wrapper of the quantifier still be built and elaborated?
    r = construction_probe(mod)
    if r:
        return r
    # (2) the machines with their monitors
    machine_dis = [d for d in disagreements if not isinstance(d, TableDisagreement)]
    try:
        return generic_search(ctx, machine_dis, getattr(ctx, "jobs", None) or jobs(ctx.tier), FMT)
    finally:
        import signal
        signal.alarm(0)     # the per-job limit armed by the instance factories must not outlive the search


def replay(ctx, payload):
    fi = payload.get("failing_input") or {}
    mod = _mod()
    if fi.get("kind") in ("sequence", "roundtrip") and fi.get("dk"):
        msg = c17lib.replay_symbols_on_real_encoder(mod, [tuple(s) for s in fi["dk"]])
        if msg:
            print("symbols %s: %s" % (fi.get("symbols") or fi.get("symbol"), msg))
            print("VIOLATION property=%s replay=(replayed)" % ctx.prop)
            return 1
        print("sequence no longer violates the property on the current tree")
        return 0
    if fi.get("kind") == "chain-probe":
        n, lane, d, k, c = fi["n"], fi["lane"], fi["d"], fi["k"], fi["c"]
        got = c17lib.real_chain_map(mod, n, [(d, k)])[(lane, d, k, c)]
        if got != c17lib.ref_chain_expected(n, lane, d, k, c):
            print("Encoder(%d) chain probe lane=%d d=%d k=%d c=%d: packed outputs %d, chained single encodings %d" % (
                n, lane, d, k, c, got, c17lib.ref_chain_expected(n, lane, d, k, c)))
            print("VIOLATION property=%s replay=(replayed)" % ctx.prop)
            return 1
        print("chain probe no longer violates the property on the current tree")
        return 0
    if fi.get("kind") == "construction":
        r = construction_probe(mod, only=(fi["class"], [bool(a) if isinstance(a, bool) else a for a in fi["args"]]))
        if r:
            print(r["what"])
            print("VIOLATION property=%s replay=(replayed)" % ctx.prop)
            return 1
        print("the construction succeeds on the current tree")
        return 0
    if fi.get("kind") == "helper":
        enc, dec = c17lib.real_encoder_map(mod, False), c17lib.real_decoder_map(mod, False)
        name, args = fi["call"].split("(")
        x, y = [int(a) for a in args.rstrip(")").split(",")]
        sym = getattr(mod, name)(x, y)
        k = 1 if name == "K" else 0
        got = dec.get(enc[(sym, k, fi["disp_in"])][0]) if isinstance(sym, int) and 0 <= sym < 256 else None
        if got != ((y << 5) | x, k, 0):
            print("%s = %r encodes/decodes to %r" % (fi["call"], sym, got))
            print("VIOLATION property=%s replay=(replayed)" % ctx.prop)
            return 1
        print("helper call no longer violates the property on the current tree")
        return 0
    if fi.get("kind") == "invalid_ones":
        dec = c17lib.real_decoder_map(mod, False)
        w = int(fi["word"], 2)
        ones = bin(w).count("1")
        if bool(dec[w][2]) != (ones not in (4, 5, 6)):
            print("input %s with %d ones reported invalid=%d" % (fi["word"], ones, dec[w][2]))
            print("VIOLATION property=%s replay=(replayed)" % ctx.prop)
            return 1
        print("word no longer violates the property on the current tree")
        return 0
    from explore import generic_replay
    try:
        return generic_replay(ctx, payload, jobs("thorough"))
    finally:
        import signal
        signal.alarm(0)
