"""C14 — exported software maps tell the truth about the hardware.

Tie (see DESIGN §7.C14):
  * end-to-end: real `SoCMini` instances (bus standard x bus width x interconnect x CSR width x paging x ordering x
    address width x CSR base, random peripherals / CSR memories / fixed locations / RAMs with init images) are
    elaborated in worker processes, exported with the real exporters, and EVERY exported address is accessed through
    an extra bus master in the repository's simulator while the strobes of every simple CSR are sampled
    (`c14lib.check_soc`).  The oracle of the property is that simulation (independent of the Lean model); the same
    run records what it saw as `call` lines for the Lean model (`exportAddrs`, `hwDecode`, `accRead/accWriteWords`,
    `hwWords/hwWrite`, `memSel`, `accepts`) and the answers are compared one by one;
  * mode C: `get_mem_data` on random files against `memImage`/`imageByte` and a byte-addressing reference;
    the exporters alone on hand-made regions against `exportAddrs/headerAddrs` (wide sweep of the arithmetic).
Finding regions (known_findings.json, status open) are exercised by the grid as well: there the model must still
agree with the code, and the oracle's alarms are attributed to the region instead of being reported.
"""
import os, gc, json, glob, time, random, tempfile, shutil, multiprocessing as mp
import c14lib as L


def _pool():
    """A fork pool whose workers do not re-scan the parent's heap on every full collection (a parent that has
    elaborated thousands of Migen objects otherwise slows its children tenfold)."""
    gc.collect()
    gc.freeze()
    return mp.get_context("fork").Pool(procs(), maxtasksperchild=40)

VERIF = os.path.dirname(os.path.dirname(os.path.dirname(os.path.abspath(__file__))))
CORPUS = os.path.join(VERIF, "corpus", "C14")

# finding ids this builder reported; an id that is not (yet) listed in known_findings.json is treated as an open
# region (alarms attributed, logged as a note) and kept out of probes() until the coordinator lists it
CANDIDATES = (L.R_CSR8, L.R_LITTLE, L.R_AXIL_RD, L.R_UNALIGNED)

QUICK = {"random_socs": 4, "mem": 500, "export": 400, "max_regs": 14, "sweeps": 3, "verdicts": 32, "irqs": 10, "adapters": 30,
         "mixed_extra": 1}
THOROUGH = {"random_socs": 80, "mem": 6000, "export": 4000, "max_regs": None, "sweeps": 48, "verdicts": 300, "irqs": 150,
            "adapters": 400, "mixed_extra": None}


class Dis:
    def __init__(self, kind, inp, line=None, real=None, model=None, alarm=None):
        self.kind, self.input, self.line, self.real, self.model, self.alarm = kind, inp, line, real, model, alarm

    def to_json(self):
        return {"kind": self.kind, "input": self.input, "driver_call": self.line, "real": self.real,
                "model": self.model, "oracle": self.alarm}


def procs():
    return max(1, min(6, int(os.environ.get("VERIF_PROCS", "6") or 6)))


def tolerated(ctx):
    listed = {e["id"]: e.get("status") for e in ctx.known}
    return {i for i in CANDIDATES if listed.get(i, "open") == "open"}


def grid(rng):
    """The fixed part of the instance grid: every value of every axis at least once."""
    rows = [
        dict(bus="wishbone", bus_dw=32, ic="shared", csr_dw=32, paging=0x800, ordering="big", csr_aw=14, csr_origin=0, big_prob=1.0),
        dict(bus="wishbone", bus_dw=32, ic="crossbar", csr_dw=32, paging=0x400, ordering="big", csr_aw=15, csr_origin=0xf0000000,
             mem_prob=1.0, shadow_prob=1.0),
        dict(bus="wishbone", bus_dw=64, ic="shared", csr_dw=32, paging=0x1000, ordering="big", csr_aw=14, csr_origin=0x82000000,
             mem_prob=1.0, wide_prob=1.0),
        dict(bus="wishbone", bus_dw=128, ic="shared", csr_dw=32, paging=0x2000, ordering="big", csr_aw=17, csr_origin=0x40000000),
        dict(bus="wishbone", bus_dw=64, ic="crossbar", csr_dw=32, paging=0x800, ordering="big", csr_aw=16, bus_aw=64,
             csr_origin=0x200000000),
        dict(bus="axi-lite", bus_dw=32, ic="shared", csr_dw=32, paging=0x800, ordering="big", csr_aw=14, csr_origin=0x82000000,
             mem_prob=0.7, shadow_prob=1.0),
        dict(bus="axi-lite", bus_dw=32, ic="crossbar", csr_dw=32, paging=0x1000, ordering="big", csr_aw=15),
        dict(bus="axi", bus_dw=32, ic="shared", csr_dw=32, paging=0x400, ordering="big", csr_aw=14, max_regs=3),
        dict(bus="wishbone", bus_dw=32, ic="shared", csr_dw=8, paging=0x800, ordering="big", csr_aw=14),
        dict(bus="axi-lite", bus_dw=32, ic="shared", csr_dw=8, paging=0x400, ordering="big", csr_aw=14),
        dict(bus="wishbone", bus_dw=32, ic="shared", csr_dw=32, paging=0x800, ordering="little", csr_aw=14),
        dict(bus="wishbone", bus_dw=64, ic="crossbar", csr_dw=32, paging=0x400, ordering="little", csr_aw=15),
        dict(bus="axi-lite", bus_dw=64, ic="shared", csr_dw=32, paging=0x800, ordering="big", csr_aw=14),
        dict(bus="axi", bus_dw=64, ic="crossbar", csr_dw=32, paging=0x1000, ordering="big", csr_aw=14, max_regs=3),
    ]
    out = []
    for row in rows:
        mr = row.pop("max_regs", 6)
        cfg = L.gen_cfg(rng, max_regs=mr, **row)
        cfg.pop("max_regs", None)
        for k_ in ("big_prob", "mem_prob", "shadow_prob", "wide_prob"):
            cfg.pop(k_, None)
        out.append(cfg)
    return out


def _us(std, addressing="word", dw=None, origin=0x30000000, size=0x100, name="us0", **kw):
    return dict({"name": name, "origin": origin, "size": size, "std": std, "addressing": addressing, "dw": dw}, **kw)


# mixed-standard compositions: (bus, bus width, user slaves behind bus.add_slave, master variant).  The first two rows (a word
# addressed wishbone core on a byte-addressed SoC bus; byte-addressed cores on a wishbone SoC) run in every quick run.
MIXED = (
    ("axi-lite", 32, [_us("wishbone"), _us("wishbone", "byte", origin=0x40000000, size=0xc0, name="us1")], None),
    ("wishbone", 32, [_us("axi-lite", size=0x80), _us("wishbone", "byte", origin=0x40000000, name="us1")], None),
    ("axi-lite", 64, [_us("wishbone", dw=32), _us("wishbone", dw=64, origin=0x40000000, name="us1")], None),
    ("wishbone", 64, [_us("axi-lite", dw=32), _us("wishbone", "byte", origin=0x40000000, name="us1"),
                      _us("wishbone", "word", dw=32, origin=0x50000000, size=0x180, name="us2")], None),
    ("axi", 32, [_us("wishbone", size=0x80), _us("axi-lite", origin=0x40000000, size=0x80, name="us1")], None),
    ("axi-lite", 32, [_us("wishbone", size=0x200)], {"std": "wishbone", "addressing": "word"}),
    ("axi-lite", 32, [_us("wishbone"), _us("axi", origin=0x40000000, size=0x80, name="us1")], {"std": "wishbone", "addressing": "byte"}),
    ("wishbone", 32, [_us("axi-lite"), _us("wishbone", origin=0x40000000, name="us1")], {"std": "axi-lite"}),
    ("wishbone", 32, [_us("wishbone", "byte"), _us("axi", origin=0x40000000, size=0x80, name="us1")], {"std": "wishbone", "addressing": "byte"}),
    ("wishbone", 32, [_us("wishbone", size=0xc0)], {"std": "axi"}),
    ("axi", 64, [_us("wishbone", dw=32, size=0x80)], None),
)


def mixed_grid(rng, extra):
    """Small SoCs (one two-register bank, one RAM) around user slaves of another standard / addressing / width."""
    rows = list(range(len(MIXED)))
    pick = rows[:2] + (rows[2:] if extra is None else rng.sample(rows[2:], extra))
    out = []
    for i in pick:
        bus, dw, us, master = MIXED[i]
        cfg = dict(bus=bus, bus_dw=dw, ic=rng.choice(("shared", "crossbar")), csr_dw=32, paging=0x800, ordering="big", csr_aw=14,
                   csr_origin=0xf0000000, with_ctrl=False,
                   periphs=[{"name": "p0", "regs": [{"kind": "storage", "name": "a", "size": 8}, {"kind": "storage", "name": "b", "size": 40}]}],
                   rams=[{"name": "ram0", "origin": 0x10000000, "size": rng.choice((0x40, 0xc0))}],
                   uslaves=[dict(u, salt=rng.getrandbits(16)) for u in us])
        if master:
            cfg["master"] = dict(master)
        out.append(cfg)
    return out


def _account(ctx, rec):
    cov = ctx.cov
    cfg = rec["cfg"]
    cov.count("soc.bus_aw=%s" % cfg.get("bus_aw", 32))
    cov.count("soc.csr_base_at_0=%s" % (cfg.get("csr_origin", 0) == 0))
    for k in ("bus", "bus_dw", "ic", "csr_dw", "paging", "ordering", "csr_aw"):
        cov.count("soc.%s=%s" % (k, cfg.get(k)))
    cov.count("soc.verdict." + str(rec["verdict"]))
    for k, v in rec["stats"].items():
        cov.count("e2e." + k, v)
    for tag, _ in rec["alarms"]:
        cov.count("oracle.alarm.%s" % (tag or "UNATTRIBUTED"))
    for l, _ in rec["lean"]:
        cov.count("lean." + l.split()[0])


def _compare(ctx, rec, dis, tol):
    """Model answers against what the worker saw; oracle alarms against the tolerated regions."""
    inp = {"kind": "soc", "cfg": rec["cfg"], "seed": rec["seed"]}
    if rec["verdict"] == "crash":
        dis.append(Dis("crash", inp, alarm=rec.get("crash")))
        return 0
    lines = [l for l, _ in rec["lean"]]
    ans = ctx.lean.call_batch(lines) if lines else []
    bad = 0
    for (l, real), a in zip(rec["lean"], ans):
        if l.startswith("decode"):
            a = " ".join(sorted(a.split(), key=lambda w: tuple(map(int, w.split(":"))))) if a != "-" else a
            real = " ".join(sorted(real.split(), key=lambda w: tuple(map(int, w.split(":"))))) if real != "-" else real
        if a != real:
            bad += 1
            if bad <= 3:
                dis.append(Dis("correspondence", inp, l, real, a))
    for tag, text in rec["alarms"]:
        if tag is None or tag not in tol:
            dis.append(Dis("oracle", inp, alarm=text + ("" if tag is None else "  [region %s is not an open finding]" % tag)))
    return len(lines)


def run_socs(ctx, jobs, dis, label):
    tol = tolerated(ctx)
    n = nontriv = nlines = 0
    t0 = time.time()
    with _pool() as pool:
        for rec in pool.imap_unordered(L.soc_task, jobs, chunksize=1):
            _account(ctx, rec)
            nlines += _compare(ctx, rec, dis, tol)
            n += 1
            nontriv += 1 if rec["stats"].get("writes", 0) else 0
            if rec.get("samples") and len(ctx.cov.samples) < 6:
                ctx.cov.samples.append({"soc": {k: rec["cfg"].get(k) for k in ("bus", "bus_dw", "ic", "csr_dw", "paging", "ordering")},
                                        "sample": rec["samples"][0]})
    ctx.cov.add_cases(label, n, nontriv, False, mode="E2E")
    ctx.log("%s: %d SoCs, %d model calls compared, %.1fs" % (label, n, nlines, time.time() - t0))
    return n


def run_corpus(ctx, dis):
    jobs = []
    for f in sorted(glob.glob(os.path.join(CORPUS, "*.json"))):
        c = json.load(open(f))
        if c.get("input", {}).get("kind") == "soc":
            jobs.append((c["input"]["cfg"], c["input"].get("seed", 0), None))
    if jobs:
        run_socs(ctx, jobs, dis, "corpus witnesses (SoCs)")
    return len(jobs)


def mode_c(ctx, plan, dis):
    rng = random.Random(ctx.rng.getrandbits(48))
    tmp = tempfile.mkdtemp(prefix="c14_")
    cases = []
    try:
        for _ in range(plan["mem"]):
            st_ = rng.getstate()
            try:
                cases.append(L.mem_image_case(rng, tmp))
            except Exception:
                import traceback
                dis.append(Dis("crash", {"kind": "memimage-crash", "rng_state": repr(st_)[:200]}, alarm=traceback.format_exc()[-1200:]))
                if sum(1 for d in dis if d.kind == "crash") > 5:
                    break
    finally:
        shutil.rmtree(tmp, ignore_errors=True)
    lines = []
    for c in cases:
        lines += [c["line"], c["line2"]]
    ans = ctx.lean.call_batch(lines)
    for k, c in enumerate(cases):
        if ans[2 * k] != c["real"]:
            dis.append(Dis("correspondence", c["input"], c["line"][:300], c["real"][:300], ans[2 * k][:300]))
        if ans[2 * k + 1] != c["real2"]:
            dis.append(Dis("correspondence", c["input"], c["line2"][:300], c["real2"][:300], ans[2 * k + 1][:300]))
        if c["alarm"] and not (c.get("tag") and c["tag"] in tolerated(ctx)):
            dis.append(Dis("oracle", c["input"], alarm="get_mem_data: " + c["alarm"]))
        elif c["alarm"]:
            ctx.cov.count("oracle.alarm.%s" % c["tag"])
        ctx.cov.count("mem.q=%d" % c["input"]["q"])
        ctx.cov.count("mem.big=%d" % c["input"]["big"])
        ctx.cov.count("mem.tail=%d" % (len(c["input"]["bytes"]) % (4 * c["input"]["q"]) != 0))
    ctx.cov.add_cases("get_mem_data images (1-70 bytes x 32/64/128 bit x endianness x base/offset)", len(cases), len(cases), False)
    if len(ctx.cov.samples) < 8 and cases:
        ctx.cov.samples.append({"call": cases[0]["line"][:200], "real": cases[0]["real"][:200]})
    cases = []
    for _ in range(plan["export"]):
        try:
            cases.append(L.export_case(rng))
        except Exception:
            import traceback
            dis.append(Dis("crash", {"kind": "export-crash"}, alarm=traceback.format_exc()[-1200:]))
            if sum(1 for d in dis if d.kind == "crash") > 5:
                break
    ans = ctx.lean.call_batch([c["line"] for c in cases])
    for c, a in zip(cases, ans):
        a = a.split(" # S ")[0]
        if a != c["real"]:
            dis.append(Dis("correspondence", c["input"], c["line"][:300], c["real"][:300], a[:300]))
        if c["alarm"]:
            dis.append(Dis("oracle", c["input"], alarm="exporters disagree: " + c["alarm"]))
    ctx.cov.add_cases("exporters on hand-made regions (JSON/CSV/csr.h addresses, sizes 1-200, csr 8/32)", len(cases), len(cases), False)
    # sensitivity self-test of the comparison: a shifted address must be noticed
    if cases and ans:
        a = ans[0].split(" # S ")[0]
        pert = a.replace(":", ":9", 1)
        if pert == cases[0]["real"] and ":" in a:
            raise RuntimeError("self-test: perturbed export answer not detected")


def run_sweeps(ctx, plan, dis):
    rng = random.Random(ctx.rng.getrandbits(48))
    t0 = time.time()
    with _pool() as pool:
        sjobs = [(rng.getrandbits(32),) for _ in range(plan["sweeps"])]
        # always: a memory word 4x / 8x the CSR word on both CSR widths (sub-word order of the window)
        sjobs += [(rng.getrandbits(32), 8, 4), (rng.getrandbits(32), 32, rng.choice((4, 8))), (rng.getrandbits(32), 8, 8)]
        sweeps = pool.map(L.sweep_task, sjobs, chunksize=1)
        verdicts = pool.map(L.verdict_task, [(rng.getrandbits(32),) for _ in range(plan["verdicts"])], chunksize=4)
        irqs = pool.map(L.irq_task, [(rng.getrandbits(32),) for _ in range(plan["irqs"])], chunksize=2)
        consts = pool.map(L.const_task, [(rng.getrandbits(32),) for _ in range(plan.get("consts", 20))], chunksize=5)
    with _pool() as pool:
        adapters = pool.map(L.adapter_task, [(rng.getrandbits(32),) for _ in range(plan.get("adapters", 40))], chunksize=8)
    for group in (sweeps, verdicts, irqs, consts, adapters):
        for c in list(group):
            if c.get("crash"):
                dis.append(Dis("crash", c["input"], alarm=c["crash"]))
                group.remove(c)
    # add_adapter alone: addresses driven through the real adapters against chainWord / masterBus / convS2M / convM2S
    flat = [(c, l, r) for c in adapters for l, r in c["lines"]]
    ans = ctx.lean.call_batch([l for _, l, _ in flat]) if flat else []
    nbad = 0
    for (c, l, r), a in zip(flat, ans):
        ctx.cov.count("lean." + l.split()[0])
        if a != r:
            nbad += 1
            if nbad <= 3:
                dis.append(Dis("correspondence", c["input"], l, r, a))
    for c in adapters:
        for a_ in c["alarms"][:2]:
            dis.append(Dis("oracle", c["input"], alarm=a_))
        ctx.cov.count("adapter.%s.%s.%s" % (c["input"].get("std"), c["input"].get("direction"), c["input"].get("interface")))
    ctx.cov.add_cases("SoCBusHandler.add_adapter alone (bus standard x width x direction x interface kind): addresses driven "
                      "through the real adapters", len(adapters), len(adapters), False)
    # constants: add_constant histories against addConstants
    ans = ctx.lean.call_batch([c["line"] for c in consts])
    for c, a in zip(consts, ans):
        if a != c["real"]:
            dis.append(Dis("correspondence", c["input"], c["line"], c["real"], a))
        if c["alarm"]:
            dis.append(Dis("oracle", c["input"], alarm=c["alarm"]))
    ctx.cov.add_cases("SoC.add_constant histories against addConstants (+ soc.h defines each once)", len(consts),
                      sum(1 for c in consts if c["real"] == "rejected"), False)
    # interrupt numbers: LocH run + irqConstants / irqWiring / cpuInterrupts / irqLines against the real SoC
    ans = ctx.lean.call_batch([c["line"] for c in irqs])
    for c, a in zip(irqs, ans):
        parts = a.split(" # ")
        r = c["real"]
        ok = len(parts) == 5 and parts[0] == r["locs"] and sorted(parts[1].split()) == sorted(r["consts"].split()) \
            and parts[3] == r["cpuints"] and parts[4] == r["lines"]
        if ok:
            # the wiring as observed: firing module m raised exactly the lines the model wires to m
            wired = {}
            for w in parts[2].split():
                if w != "-":
                    l_, m_ = w.split(":")
                    wired.setdefault(int(m_), []).append(int(l_))
            ok = all(sorted(wired.get(m_, [])) == sorted(ls or []) for m_, ls in r["wired"].items())
        if not ok:
            dis.append(Dis("correspondence", c["input"], c["line"], json.dumps(r), a))
        ctx.cov.count("lean.irq")
    xl = [(c, l, r) for c in irqs for l, r in c.get("extra_lines", [])]
    for (c, l, r), a in zip(xl, ctx.lean.call_batch([l for _, l, _ in xl]) if xl else []):
        ctx.cov.count("lean." + l.split()[0])
        if a != r:
            dis.append(Dis("correspondence", c["input"], l[:300], r[:300], a[:300]))
    nl = 0
    for c in irqs:
        for a in c["alarms"]:
            dis.append(Dis("oracle", c["input"], alarm="interrupt export: " + a))
        nl += c["stats"].get("irq_lines", 0)
        ctx.cov.count("irq.lines", c["stats"].get("irq_lines", 0))
    ctx.cov.add_cases("interrupt numbers: SoCCore + stub CPU, event fired -> exported <NAME>_INTERRUPT line rises (oracle only)",
                      len(irqs), len(irqs), False, mode="E2E")
    ans = ctx.lean.call_batch([c["line"] for c in sweeps])
    for c in sweeps:
        for a_ in c.get("alarms", []):
            dis.append(Dis("oracle", c["input"], alarm=a_))
        for wd in c.get("walked", []):
            ctx.cov.count("sweep.mem_walk.%dbit" % wd[0])
    for c, a in zip(sweeps, ans):
        if a != c["real"]:
            ra, rr = set(a.split()), set(c["real"].split())
            dis.append(Dis("correspondence", c["input"], c["line"][:300], " ".join(sorted(rr - ra))[:300] or "(subset)",
                           " ".join(sorted(ra - rr))[:300] or "(subset)"))
        ctx.cov.add_instance("CSRBankArray decode sweep: %s" % c["line"][:60], c["addresses"], c["addresses"],
                             len(c["real"].split()) if c["real"] != "-" else 0, True, "A")
    ans = ctx.lean.call_batch([c["line"] for c in verdicts])
    nrej = 0
    for c, a in zip(verdicts, ans):
        for a_ in c.get("alarms", []):
            dis.append(Dis("oracle", c["input"], alarm=a_))
        ctx.cov.count("verdict." + c["real"])
        nrej += c["real"] == "rejected"
        if a != c["real"]:
            dis.append(Dis("correspondence", c["input"], c["line"][:300], c["real"], a))
            if c["real"] == "ok":
                pass
    ctx.cov.add_cases("build verdicts (page >= n_locs, page reused, bank larger than its page) against `accepts`",
                      len(verdicts), nrej, False)
    ctx.log("sweeps: %d bank arrays over all addresses, %d build verdicts (%d rejected), %.1fs" % (
        len(sweeps), len(verdicts), nrej, time.time() - t0))


def correspond(ctx):
    quick = ctx.tier == "quick"
    plan = QUICK if quick else THOROUGH
    dis = []
    run_corpus(ctx, dis)
    rng = random.Random(ctx.rng.getrandbits(48))
    def cap(cfg):
        if any(r["name"] == "big" for p in cfg["periphs"] for r in p["regs"]) and cfg["csr_dw"] == 32 and cfg["bus"] == "wishbone":
            return None     # walk the whole long bank
        # 8-bit CSR buses quadruple the sub-accesses (and the AXI converters are slow to simulate): sample registers
        if cfg["csr_dw"] == 8:
            if plan["max_regs"] is None:
                return 8 if cfg["bus"] != "wishbone" else 16
            return 5 if cfg["bus"] != "wishbone" else 8
        if plan["max_regs"] is None and cfg["bus"] == "axi":
            return 16
        return plan["max_regs"]
    mw = 24 if quick else None
    jobs = [(cfg, rng.getrandbits(32), cap(cfg), mw) for cfg in grid(rng)]
    for _ in range(plan["random_socs"]):
        cfg = L.gen_cfg(rng)
        jobs.append((cfg, rng.getrandbits(32), cap(cfg), mw))
    # a CSR memory that is wide AND deeper than a page at once (4 CSR words per word, 96 / 65 words in a 256-word page)
    for mdepth, mbus in ((96, "wishbone"),) + (() if quick else ((65, "axi-lite"), (128, "wishbone"))):
        wp = dict(bus=mbus, bus_dw=32, ic="shared", csr_dw=32, paging=0x400, ordering="big", csr_aw=14, csr_origin=0, with_ctrl=False,
                  periphs=[{"name": "p0", "regs": [{"kind": "storage", "name": "a", "size": 8}],
                            "mems": [{"name": "m0", "width": 128, "depth": mdepth}]}], rams=[])
        jobs.append((wp, rng.getrandbits(32), None, mw))
    rng_m = random.Random(ctx.rng.getrandbits(48))
    for cfg in mixed_grid(rng_m, plan["mixed_extra"]):
        jobs.append((cfg, rng_m.getrandbits(32), None, 20 if quick else None))
    # slow simulations first so the pool stays busy
    jobs.sort(key=lambda j: (j[0]["csr_dw"] != 8 or j[0]["bus"] == "wishbone", j[0]["bus"] != "axi", j[0]["bus"] != "axi-lite"))
    run_socs(ctx, jobs, dis, "end-to-end SoCs: every exported address accessed through the bus master")
    run_sweeps(ctx, plan, dis)
    mode_c(ctx, plan, dis)
    ctx.rule = ("one case = one finalized SoC whose every exported address was accessed in simulation (plus its model "
                "calls), one get_mem_data image, or one exporter run; non-trivial = at least one register write was "
                "performed through an exported address (SoCs), every image/export case")
    ctx.assumptions = [
        "the C compiler's reading of csr.h is replaced by a Python evaluation of the emitted statement forms (c14lib.CHeader)",
        "the CPU is an extra bus master issuing aligned 32-bit accesses (wishbone sel / AXI strobes select the lane; "
        "AXI-Lite presents the bus-word address, AXI4 a narrow single beat)",
        "interrupt numbers are checked end-to-end only (SoCCore around a harness-side stub CPU with 32 interrupt lines); "
        "they have no Lean model (the export is the identity on SoCIRQHandler.locs, whose allocation is C13)",
        "CSR memories wider than the CSR bus word AND deeper than a page at once are driven through their page register in a "
        "dedicated SoC of every run (words around every page boundary and both ends); the random generator does not produce them",
        "memory-backed slaves are walked over their whole published window in the thorough tier and over first/last/quarter/"
        "power-of-two words in the quick tier; every store is checked against the whole backing memory (exactly one cell changes)",
    ]
    tol = tolerated(ctx)
    listed = {e["id"] for e in ctx.known}
    for c in CANDIDATES:
        if c not in listed:
            ctx.cov.notes.append("candidate finding %s is not listed in known_findings.json yet: region treated as open, probe withheld" % c)
    for d in dis[:6]:
        ctx.log("DISAGREEMENT", json.dumps(d.to_json(), default=str)[:700])
    ctx.c14_dis = dis
    return dis


# ------------------------------------------------------------------------------------------------------------
# probes

BASE = {"bus": "wishbone", "bus_dw": 32, "csr_dw": 32, "paging": 0x800, "ordering": "big", "ic": "shared"}

W_CSR8 = dict(BASE, csr_dw=8, periphs=[{"name": "p0", "regs": [{"kind": "storage", "name": "a", "size": 8},
                                                              {"kind": "storage", "name": "b", "size": 16}]}])
W_LITTLE = dict(BASE, ordering="little", periphs=[{"name": "p0", "regs": [{"kind": "storage", "name": "b", "size": 40}]}])
W_AXIL_RD = dict(BASE, bus="axi-lite", bus_dw=64, periphs=[{"name": "p0", "regs": [{"kind": "storage", "name": "a", "size": 8},
                                                                                   {"kind": "storage", "name": "b", "size": 40}]}])
W_AXI_NARROW = dict(W_AXIL_RD, bus="axi", with_ctrl=False)
W_HANG = dict(W_AXIL_RD)
W_PAGE0 = dict(BASE, with_ctrl=False, periphs=[{"name": "p0", "loc": 3, "regs": [{"kind": "storage", "name": "a", "size": 8},
                                                                                {"kind": "storage", "name": "b", "size": 40}]}])
W_OVERFLOW = dict(BASE, paging=0x400, with_ctrl=False, periphs=[
    {"name": "p0", "regs": [{"kind": "storage", "name": "r%d" % i, "size": 32} for i in range(258)]},
    {"name": "p1", "regs": [{"kind": "storage", "name": "z", "size": 32}]}])
W_OVERFLOW8 = dict(BASE, csr_dw=8, paging=0x400, with_ctrl=False, periphs=[
    {"name": "p0", "regs": [{"kind": "status", "name": "big", "size": 257 * 8}]},
    {"name": "p1", "regs": [{"kind": "storage", "name": "z", "size": 8}]}])
W_NLOCS = dict(BASE, periphs=[{"name": "p0", "loc": 32, "regs": [{"kind": "storage", "name": "a", "size": 8}]}])


def _alarms(cfg, tag=None):
    rec = L.soc_task((cfg, 1, None))
    if rec["verdict"] != "ok":
        return rec, ["build verdict " + str(rec["verdict"]) + " " + rec.get("crash", "")[-300:]]
    return rec, [t for g, t in rec["alarms"] if tag is None or g == tag]


def probes(ctx):
    listed = {e["id"] for e in ctx.known}
    out = []

    def region_probe(fid, cfg, pick=None):
        if fid not in listed:
            rec, al = _alarms(cfg, fid)
            ctx.cov.notes.append("withheld probe %s (not listed): %s" % (fid, "reproduces: " + al[0][:160] if al else "does not reproduce"))
            return
        rec, al = _alarms(cfg, fid)
        if pick:
            al = [a for a in al if pick in a]
        out.append((fid, bool(al), al[0][:300] if al else "witness passes"))

    region_probe(L.R_CSR8, W_CSR8)
    region_probe(L.R_LITTLE, W_LITTLE)
    region_probe(L.R_AXIL_RD, W_AXIL_RD)
    fails_, what_ = L.unaligned_image_probe()
    if L.R_UNALIGNED in listed:
        out.append((L.R_UNALIGNED, fails_, what_[:300]))
    else:
        ctx.cov.notes.append("withheld probe %s (not listed): %s" % (L.R_UNALIGNED, what_[:160]))
    # fixed findings: the witness must pass now
    rec, al = _alarms(W_PAGE0)
    out.append(("C14-header-base-page0-empty", bool(al), al[0][:300] if al else "csr.h agrees with JSON and the hardware"))
    b, verdict = L.safe_build(W_OVERFLOW)
    b8, verdict8 = L.safe_build(W_OVERFLOW8)
    out.append(("C14-bank-exceeds-page", verdict != "rejected" or verdict8 != "rejected",
                "258-word bank in a 256-word page: build verdict %s with a 32-bit CSR bus (SoCMini, paging 0x400, peripheral "
                "with 258 32-bit CSRStorage), %s with an 8-bit CSR bus (SoCMini(csr_data_width=8, csr_paging=0x400), peripheral "
                "with one 2056-bit CSRStatus = 257 simple CSRs)" % (verdict, verdict8)))
    b, verdict = L.safe_build(W_NLOCS)
    out.append(("C14-csr-page-eq-nlocs", verdict != "rejected", "bank pinned at page n_locs=32: build verdict " + verdict))
    rec, al = _alarms(W_AXI_NARROW)
    al = [t for g, t in rec["alarms"] if g != L.R_AXIL_RD] + ([] if rec["verdict"] == "ok" else ["build " + str(rec["verdict"])])
    out.append(("C14-axi-wide-bus-narrow-access-next-word", bool(al),
                al[0][:300] if al else "narrow AXI4 accesses at odd 32-bit words reach their own register"))
    rec, al = _alarms(W_HANG)
    hang = [a for a in al if "hangs" in a] + (["%d hangs" % rec["stats"].get("hangs")] if rec["stats"].get("hangs") else [])
    out.append(("C14-axil-downconv-write-hang", bool(hang), hang[0][:300] if hang else "upper-lane stores complete"))
    for fid, fails, what in out:
        ctx.cov.count("probe.%s.%s" % (fid, "fails" if fails else "passes"))
    return out


# ------------------------------------------------------------------------------------------------------------
# failing-input search / replay

def _bad_alarms(rec, tol):
    """Unattributed alarms, the most concrete first (an access on the real bus that reached the wrong register / cell)."""
    al = [t for g, t in rec["alarms"] if g is None or g not in tol]
    return sorted(al, key=lambda t: 0 if ("on the real bus strobes" in t or "of the published window" in t or "published address" in t) else 1)


CONCRETE = ("on the real bus strobes", "of the published window", "published address")


def _cls(text):
    """The class of a 'most concrete' alarm (an access on the real bus that reached the wrong register / cell), or None."""
    return next((c for c in CONCRETE if c in str(text)), None)


def shrink_soc(inp, tol, budget_s=60, need=None):
    """Greedy reduction of a failing SoC configuration: drop RAMs, peripherals, memories, registers, options while
    the oracle (not the model) still raises an unattributed alarm."""
    import copy
    t0 = time.time()
    cfg, seed = copy.deepcopy(inp["cfg"]), inp.get("seed", 0)

    def fails(c):
        rec = L.soc_task((c, seed, None))
        bad = _bad_alarms(rec, tol)
        return rec["verdict"] == "ok" and bool(bad) and (need is None or any(need in t for t in bad))

    def candidates(c):
        for k in range(len(c.get("rams", []))):
            d = copy.deepcopy(c); del d["rams"][k]; yield d
        for k in range(len(c.get("periphs", []))):
            if len(c["periphs"]) > 1:
                d = copy.deepcopy(c); del d["periphs"][k]; yield d
        for k, r in enumerate(c.get("rams", [])):
            if r.get("init") and len(r["init"]["bytes"]) > 1:
                d = copy.deepcopy(c); d["rams"][k]["init"]["bytes"] = r["init"]["bytes"][:(len(r["init"]["bytes"]) + 1) // 2]; yield d
        for k, p in enumerate(c.get("periphs", [])):
            if p.get("mems"):
                d = copy.deepcopy(c); d["periphs"][k].pop("mems"); yield d
            for j in range(len(p.get("regs", []))):
                if len(p["regs"]) > 1 or p.get("mems"):
                    d = copy.deepcopy(c); del d["periphs"][k]["regs"][j]; yield d
            if p.get("loc") is not None:
                d = copy.deepcopy(c); d["periphs"][k].pop("loc"); yield d
        for k in range(len(c.get("uslaves", []))):
            d = copy.deepcopy(c); del d["uslaves"][k]; yield d
        if c.get("master"):
            d = copy.deepcopy(c); d.pop("master"); yield d
        for key, val in (("second_master", False), ("with_ctrl", False), ("csr_origin", 0), ("ic", "shared"), ("bus_dw", 32),
                         ("bus", "wishbone"), ("csr_aw", 14)):
            if c.get(key) not in (val, None) or (key == "with_ctrl" and c.get(key, True)):
                d = copy.deepcopy(c); d[key] = val; yield d
    progress = True
    while progress and time.time() - t0 < budget_s:
        progress = False
        for d in candidates(cfg):
            if time.time() - t0 > budget_s:
                break
            if fails(d):
                cfg, progress = d, True
                break
    rec = L.soc_task((cfg, seed, None))
    return {"kind": "soc", "cfg": cfg, "seed": seed}, (_bad_alarms(rec, tol) or ["(alarm lost while shrinking)"])


def search(ctx, disagreements, proof_info):
    """The oracle is the end-to-end simulation itself: an unattributed alarm is a concrete failing input."""
    tol = tolerated(ctx)
    for d in disagreements:
        if d.kind == "crash":
            # building / driving the implementation raised or hung: the configuration is the failing input
            return {"input": d.input, "oracle": "exception or timeout while building/driving the implementation: " + str(d.alarm)[-600:],
                    "how": "./check C14 --replay <this file>"}
    # the most concrete observation first: an access at a published address that reached another register / cell; the
    # reduction keeps that kind of alarm alive (a register + published address + what answered instead)
    for d in sorted(disagreements, key=lambda d_: 0 if (d_.kind == "oracle" and _cls(d_.alarm)) else 1):
        if d.kind == "oracle":
            if isinstance(d.input, dict) and d.input.get("kind") == "soc":
                inp, alarms = shrink_soc(d.input, tol, need=_cls(d.alarm))
                return {"input": inp, "oracle": alarms[0], "more": alarms[1:4], "how": "./check C14 --replay <this file>"}
            return {"input": d.input, "oracle": d.alarm, "how": "./check C14 --replay <this file>"}
    # correspondence or proof broke without an oracle alarm so far: look further with the oracle alone
    rng = random.Random(ctx.seed * 7919 + 14)
    budget = 120 if ctx.tier == "quick" else 600
    t0 = time.time()
    starts = [d.input for d in disagreements if isinstance(d.input, dict) and d.input.get("kind") == "soc"]
    jobs = [(i["cfg"], s, None) for i in starts[:3] for s in (1, 2, 3)]
    while time.time() - t0 < budget:
        if not jobs:
            jobs = [(L.gen_cfg(rng, bus=rng.choice(("wishbone", "axi-lite"))), rng.getrandbits(32), None) for _ in range(procs())]
        with _pool() as pool:
            recs = pool.map(L.soc_task, jobs, chunksize=1)
        jobs = []
        for rec in recs:
            if rec["verdict"] == "ok" and _bad_alarms(rec, tol):
                inp, alarms = shrink_soc({"cfg": rec["cfg"], "seed": rec["seed"]}, tol, need=_cls(_bad_alarms(rec, tol)[0]))
                return {"input": inp, "oracle": alarms[0], "more": alarms[1:4]}
        tmp = tempfile.mkdtemp(prefix="c14_")
        try:
            for _ in range(300):
                c = L.mem_image_case(rng, tmp)
                if c["alarm"] and not (c.get("tag") and c["tag"] in tol):
                    return {"input": c["input"], "oracle": c["alarm"]}
        finally:
            shutil.rmtree(tmp, ignore_errors=True)
    return None


def replay(ctx, payload):
    fi = payload.get("failing_input") or payload
    inp = fi.get("input", fi)
    if inp.get("kind") == "soc":
        rec = L.soc_task((inp["cfg"], inp.get("seed", 0), None))
        tol = tolerated(ctx)
        bad = [(g, t) for g, t in rec["alarms"] if g is None or g not in tol]
        print("verdict:", rec["verdict"], "stats:", rec["stats"])
        if inp["cfg"].get("kind") == "verdict":
            pass
        for g, t in rec["alarms"]:
            print("ALARM [%s] %s" % (g, t))
        if rec["verdict"] == "crash":
            print(rec.get("crash"))
        return 1 if bad or rec["verdict"] == "crash" else 0
    if inp.get("kind") == "adapter":
        r = L.adapter_task((inp["seed"],))
        print("add_adapter:", {k: v for k, v in inp.items() if k != "kind"}, "alarms:", r["alarms"][:4], r.get("crash", ""))
        return 1 if r["alarms"] or r.get("crash") else 0
    if inp.get("kind") == "irq":
        r = L.irq_task((inp["seed"],))
        print("irqs:", r.get("irqs"), "alarms:", r["alarms"], r.get("crash", ""))
        return 1 if r["alarms"] or r.get("crash") else 0
    if inp.get("kind") == "memimage":
        tmp = tempfile.mkdtemp(prefix="c14_")
        try:
            fn = os.path.join(tmp, "f.bin")
            open(fn, "wb").write(bytes(inp["bytes"]))
            img = L.get_mem_data({fn: "%08x" % inp["base"]}, data_width=32 * inp["q"],
                                 endianness="big" if inp["big"] else "little", mem_size=inp.get("mem_size"), offset=inp["offset"])
        finally:
            shutil.rmtree(tmp, ignore_errors=True)
        k = inp["base"] - inp["offset"]
        bad = [a for a in range(4 * inp["q"] * len(img))
               if L.ref_image_byte(img, inp["q"], inp["big"], a) != (inp["bytes"][a - k] if k <= a < k + len(inp["bytes"]) else 0)]
        print("image:", [hex(w) for w in img], "bad byte addresses:", bad[:10])
        return 1 if bad else 0
    if inp.get("kind") == "verdict":
        b, verdict = L.safe_build(inp["cfg"])
        W_ = inp["cfg"]["paging"] // 4
        over = [p["name"] for p in inp["cfg"]["periphs"] if sum(L.nwords(inp["cfg"]["csr_dw"], r["size"]) for r in p["regs"]) > W_]
        print("build verdict:", verdict, "banks larger than their page:", over)
        return 1 if verdict == "ok" and over else 0
    if inp.get("kind") == "sweep":
        c = L.sweep_task(tuple([inp["seed"]] + list(inp.get("forced") or [])))
        print(c.get("line"), "->", str(c.get("real"))[:300], "alarms:", c.get("alarms"), c.get("crash", ""))
        return 1 if c.get("alarms") or c.get("crash") else 0
    print("nothing to replay in", list(inp))
    return 2
